"""C14 — Seeded runs are reproducible and evaluation never alters the model.

Static part (pre_coq): harness/translate_effects.py regenerates the effect table of /repo/qucumber into
coq/generated/EffectsGen.v and compiles it; common.coq_check_props then re-checks props/C14.v against it
(no foreign source of nondeterminism reachable from any public operation, no parameter write reachable from
any read-only operation; non-interference / frame corollaries).

Dynamic part (run): validation of the effect model + the property oracle on the implementation itself.
Random histories of public operations (construct, set_random_seed, reinitialize, sample, Observable.sample /
statistics, System.statistics, fit with random configuration (bases for complex / mixed states, SGD / Adam,
Timer, evaluator callbacks), probability / psi / rho / normalization, fidelity / KL / NLL, rotations, save /
load / autoload, gradients) are executed TWICE in-process from qucumber.set_random_seed(s) with numpy's global
generator and Python's `random` seeded differently and consumed differently between and inside the runs
(and, for some histories, once more in a fresh interpreter with another PYTHONHASHSEED):
  * every output (samples, statistics, metric values, gradients) and the parameter vector after every
    operation must be bit-identical;
  * a different seed must give different draws (>= 64 Bernoulli outcomes compared); and per OPERATION: each sampling entry point
    (sample, rbm.gibbs_steps, Observable.sample / statistics, System.statistics, ObservableEvaluator, fit, compute_batch_gradients)
    executed from the same parameters under two seeds draws different configurations (observed through a user subclass of the
    observable whose apply() notes the samples it is handed) and leaves the generator in different states; comparisons are skipped
    when fewer than 2**20 outcomes are possible or the state's own distribution makes a coincidence likelier than 2**-20;
  * the parameter bytes before / after every read-only operation must be identical;
  * no callback hook (evaluators, stoppers, loggers, savers, timers) changes a parameter: called directly as read-only
    operations, and sandwiched between two parameter probes inside fit;
  * the foreign sources actually hit by qucumber code (torch RNG entry points, numpy.random, random, time,
    os.environ, Path.home / cwd / expanduser — wrapped in this process, attributed by caller module) must be among the atoms the
    translator predicted for that operation (closure over the generated call graph);
  * FAULT followed by ordinary operations: histories contain operations in which a user-supplied callable (metric, callback hook,
    observable, logger / metadata function, optimizer / scheduler class) raises at a scripted event -- an ordinary exception or a
    KeyboardInterrupt, caught by the harness -- or a public operation is given an invalid argument; the history carries on.  Within
    one case nothing is reset: the second run and a short seeded probe run (executed before and after the history) inherit whatever
    the first run left behind in the process, and must still be bit-identical;
  * a snapshot of the process-wide settings (torch default dtype / device, thread counts, deterministic switches, matmul precision,
    grad mode, flush-denormal, backend flags, numpy error state, warnings filters, environment, cwd, scalar module-level globals
    and class attributes of the package) taken before / after every library call must be unchanged.  Statically the translator
    reports a write to such a setting that is not restored on every path (try/finally, context manager) as a foreign source.
"""
import os, sys, json, time, hashlib, subprocess, fcntl, random as pyrandom

if __name__ == "__main__":
    sys.path.insert(0, os.path.dirname(os.path.dirname(os.path.abspath(__file__))))

import common
import translate_effects as TE

RULE = ("fixed cases first (no time budget applies to them; the most discriminating at the very start): per state kind one SEED-DEPENDENCE "
        "history (every sampling entry point -- sample with default / given start, the RBM's gibbs_steps, Observable.sample / statistics, "
        "System.statistics, ObservableEvaluator directly and inside fit [once with lr = 0], fit, compute_batch_gradients -- with >= 2**20 "
        "possible draws); for EVERY history an extra pass executes each sampling operation three times on one object from the same parameters, after "
        "set_random_seed(s1), (s2), (s1) -- first and third execution must be bit-identical (nothing survives the seeding call) --: the configurations drawn (as handed to a user subclass of the observable), the "
        "trained parameters / gradients and the generator state afterwards must differ per operation; then per state kind one FAULT history -- "
        "each kind of scripted fault (a user metric / callback hook / LambdaCallback function / observable (plain, composite, "
        "in a System, in ObservableEvaluator) / logger_fn / msg_gen / ModelSaver metadata function / optimizer / scheduler class raises at "
        "its n-th call, as an ordinary exception or as a KeyboardInterrupt, alternating with the state kind; invalid arguments of sample / "
        "fit / metrics / rotations / statistics) is caught by the harness and followed by sample / statistics / System.statistics; the "
        "process-wide settings are snapshotted around every library call, and nothing is reset between the two runs of a history and "
        "the seeded probe run (sample, statistics, fit, sample) executed before and after it; then per state kind two histories -- "
        "(1) fit(time=5.0) with an explicit Timer on which every constructor option this harness does not know (None / numeric default) is "
        "switched on with the same number (likewise unknown options of fit), then sample / statistics / evaluate / save / gradients / metrics "
        "/ rotations and the hooks of MetricEvaluator, ObservableEvaluator, EarlyStopping, CallbackList+Timer called as read-only operations, "
        "on ordinary parameters, after an entry poked to 75.0 and after a NaN entry; (2) fit with evaluator / EarlyStopping / Logger / "
        "ModelSaver callbacks sandwiched between two parameter probes (no hook may change a parameter), entries poked to 1e300 and -1e12 "
        "(beyond any clamp) followed by sample / statistics / System / gradients / save / hooks, a NaN entry, hooks and fit again; then 9 seed "
        "pairs (across 2**31, beyond 32 bits, negative, adjacent; one pair congruent mod 2**32 = known finding) and "
        "reseed-restarts-the-stream; then random histories (at least 6 whatever the clock says; the time budget only cuts this stream): "
        "state kind in {positive, complex, density} x nv 2..4 x nh 1..4 (x na 1..3), "
        "seed from every regime with set_random_seed flag combinations, then 4..12 operations drawn from a weighted grammar (reseed, "
        "reinitialize, poke [NaN, +-inf, |w|>50, 1e6, +-1e300, 1e12], scripted faults [as above, n-th call 1..3], callback hooks as read-only operations, sample, observable sample/statistics/statistics_from_samples, System, fit [epochs 1..2, "
        "batch sizes, k, lr, bases, SGD/Adam/momentum, scheduler, time in {False, True, numbers}, evaluator / ModelSaver / EarlyStopping / Logger "
        "/ Lambda callbacks], probability/psi/rho/normalization/RBM-level calls, fidelity/KL/NLL, rotations incl. explicit psi=/rho=, "
        "save/load/autoload, gradients, data loaders); each history is run twice with numpy / random / environment / wall clock perturbed "
        "(the second run's clock is far ahead and jumps at every reading; HOME / XDG_CONFIG_HOME point to different empty directories), "
        "once with another seed, and a subset a third time in a fresh "
        "interpreter with another PYTHONHASHSEED; a history is non-trivial if it draws from the torch generator after seeding "
        "(sample / statistics / fit) and contains a read-only operation whose parameter bytes are compared")
ASSUMPTIONS = [
    "effect table regenerated from the Python sources by harness/translate_effects.py (name-based, conservative call resolution); "
    "callables supplied by the user (optimizer / scheduler classes, metric functions, LambdaCallback functions, logger_fn, metadata "
    "callables) are outside the translated program",
    "ClockTimer (time.* in callbacks/timer.py) is allowed: the Timer only stores and prints elapsed time (data AND control dependence "
    "on a clock value are followed through the Timer's names and attributes, across its methods)",
    "a file whose location is fixed in the source or taken from the process environment (Path.home(), ~, cwd, /etc/...) is a foreign "
    "source (Environ); files named by the caller (load / autoload / data loaders / log=) are inputs. A failing input for such a read "
    "cannot be produced dynamically (the harness cannot know which file name and which content the code would react to): it is reported "
    "by the regenerated effect graph (proof break, `no-failing-input-found`) and by the recorded Path.home / expanduser / getcwd hits",
    "BLAS / OpenMP thread count fixed (OMP_NUM_THREADS=1, torch.set_num_threads(1)); nondeterminism across thread counts is not covered",
    "set_random_seed overwrites the state of torch's CPU generator (hypothesis of C14_seeded_histories_are_reproducible; exercised dynamically)",
    "TRUST: the theorems of props/C14.v are about the generated effect graph; the semantic corollaries are conditional on bodies_ok "
    "(= soundness of the translator for the Python sources), which is trusted (conservative, fail closed) and only sampled by the "
    "dynamic part of this check",
    "process-wide settings: the snapshot lists torch default dtype / device, thread counts, deterministic-algorithm switches, float32 "
    "matmul precision, grad / inference / anomaly mode, flush-denormal, cudnn / tf32 / opt_einsum flags, numpy error state and error "
    "callback, warnings filters, os.environ, cwd, recursion limit, sys.stdout, scalar module-level globals and class attributes of the "
    "package; print options are not listed (they do not reach samples, statistics or parameters). A change of the warnings filters or "
    "of os.environ is blamed on the library only if qucumber code itself called the writer (torch's lazy imports add filters and "
    "variables on their own). The harness runs with one thread, so a leaked thread count of 1 is visible statically only",
    "translator, process-wide settings: a write is accepted only if the SAME function restores it on every path (try/finally with a "
    "saved value, a with-block of a restoring context manager, except BaseException: restore; raise, __enter__/__exit__ pair); a "
    "set / restore pair split over helper functions, or a library function that changes such a setting on purpose, is an expected "
    "false alarm (fail closed). Writes at module top level (import time) are recorded on the module's <toplevel> node, which no "
    "public operation reaches: after the import the setting is the same for every run",
    "'a different seed yields different draws' is evaluated per sampling OPERATION (same parameters, set_random_seed(s1) / (s2)) "
    "only when a coincidence is negligible: at least 2**20 possible outcomes AND rows * -log2(sum_v p(v)**2) >= 20 with p the state's "
    "own exact distribution (for compute_batch_gradients: the exact collision probability of the MULTISET of negative-phase rows under "
    "p, since a gradient is a sum over rows); chains after few Gibbs steps are taken to be no more concentrated than p. The draws of "
    "Observable.sample / statistics, System.statistics and ObservableEvaluator are observed through a user subclass of the library "
    "observable whose apply() notes the samples it is handed. fit's shuffling cannot be told apart from its negative phase from "
    "outside: the trained parameters are compared (lr > 0). Scripted-fault operations are not probed per operation, and no draw / "
    "gradient / trained-parameter comparison is made when a parameter is non-finite before or after the operation (a NaN / inf entry "
    "poked by the harness, e.g. into the phase network, turns every trained parameter into NaN under every seed)",
    "that System.statistics and Observable.statistics started from the same seed and parameters draw the SAME chains is not demanded "
    "(two different operations; the property only relates identical operation sequences): it holds on the unchanged tree and is "
    "recorded in the input histogram (System.statistics_draws_the_chains_of_Observable.statistics:True/False) only",
    "faults are raised only inside callables supplied by the harness or by invalid arguments; faults injected into the library's own "
    "code (out of memory, a signal between two arbitrary bytecodes) are not generated",
    "expected false alarms (by design, fail closed): any time.* / datetime.* outside callbacks/timer.py (e.g. a timestamp in Logger "
    "output), os.environ reads, iteration over a set, a module outside the whitelist, or a construct the translator does not know "
    "break the proof and are reported as VIOLATION ... no-failing-input-found unless the dynamic part exhibits irreproducibility",
]

GEN_DIR = os.path.join(common.COQ, "generated")
_STATE = {"model": None, "lock": None, "hits": None, "wrapped": False, "static": None}


# =============================================================================== static part
def _coqc(args, cwd=common.COQ):
    return subprocess.run(["timeout", "600", "coqc"] + common.COQ_Q + args, capture_output=True, text=True, cwd=cwd)


def _stale(vo, v):
    return (not os.path.exists(vo)) or os.path.getmtime(vo) < os.path.getmtime(v)


def pre_coq(ctx):
    """regenerate coq/generated/EffectsGen.v from the sources and compile it (works from a clean checkout)."""
    os.environ["VERIF_COQCHK"] = "0"          # props/C14.vo is compiled into the scratch dir; coqchk is run by this module
    _install_wrappers()                         # before qucumber is imported, so `from random import x` bindings are caught too
    os.makedirs(common.SCRATCH_ROOT, exist_ok=True)
    os.makedirs(GEN_DIR, exist_ok=True)
    lk = open(os.path.join(common.SCRATCH_ROOT, "c14.lock"), "w")
    fcntl.flock(lk, fcntl.LOCK_EX)              # released at the start of run(): generated/ is shared between concurrent runs
    _STATE["lock"] = lk
    t0 = time.time()
    model = TE.translate(common.REPO)
    _STATE["model"] = model
    text = TE.render_coq(model)
    log = []
    # the model / theory files this property needs (normally built by setup.sh; built here if missing)
    for rel in ("model/Effects", "theory/EffectsT"):
        v, vo = os.path.join(common.COQ, rel + ".v"), os.path.join(common.COQ, rel + ".vo")
        if _stale(vo, v):
            r = _coqc([v])
            if r.returncode != 0:
                log.append("coqc %s.v failed: %s" % (rel, (r.stdout + r.stderr)[-1500:]))
    gv, gvo = os.path.join(GEN_DIR, "EffectsGen.v"), os.path.join(GEN_DIR, "EffectsGen.vo")
    old = open(gv).read() if os.path.exists(gv) else None
    if old != text or _stale(gvo, gv) or _stale(gvo, os.path.join(common.COQ, "model", "Effects.vo")):
        if os.path.exists(gvo):
            os.remove(gvo)
        tmp = gv + ".%d.tmp" % os.getpid()
        with open(tmp, "w") as f:
            f.write(text)
        os.replace(tmp, gv)
        r = _coqc([gv])
        if r.returncode != 0:
            log.append("coqc generated/EffectsGen.v failed: %s" % (r.stdout + r.stderr)[-1500:])
    viol = TE.violations(model)
    _STATE["static"] = {"translate_s": round(time.time() - t0, 2), "log": log, "violations": viol}


def _release_lock():
    lk = _STATE.get("lock")
    if lk is not None:
        try:
            lk.close()
        except Exception:
            pass
        _STATE["lock"] = None


def _coqchk(ctx):
    """thorough tier: coqchk of the freshly compiled props/C14.vo (in the scratch dir) and everything it depends on."""
    vo = os.path.join(ctx.scratch, "C14.vo")
    if not os.path.exists(vo):
        return
    t0 = time.time()
    r = subprocess.run(["timeout", "900", "coqchk", "-silent", "-o",
                        "-Q", os.path.join(common.COQ, "model"), "QModel", "-Q", os.path.join(common.COQ, "theory"), "QTheory",
                        "-Q", GEN_DIR, "QGen", "-R", ctx.scratch, "", "C14"],      # coqc -o <scratch>/C14.vo names the library "C14"
                       capture_output=True, text=True, cwd=common.COQ)
    ctx.extra["coqchk_s"] = round(time.time() - t0, 1)
    ctx.extra["coqchk_ok"] = (r.returncode == 0)
    if r.returncode != 0:
        ctx.coq["ok"] = False
        ctx.coq["log"] = "coqchk failed: " + (r.stdout + r.stderr)[-1500:]


# =============================================================================== recording wrappers
TORCH_FUNCS = ["randn", "rand", "randint", "randperm", "bernoulli", "normal", "multinomial", "poisson", "rand_like",
               "randn_like", "randint_like", "initial_seed", "get_rng_state"]
TORCH_RESEED_FUNCS = ["manual_seed", "seed", "set_rng_state"]
TENSOR_METHODS = ["bernoulli_", "random_", "uniform_", "normal_", "exponential_", "geometric_", "cauchy_", "log_normal_",
                  "bernoulli", "multinomial"]
NUMPY_FUNCS = ["seed", "rand", "randn", "randint", "random", "random_sample", "permutation", "shuffle", "choice", "uniform",
               "normal", "default_rng", "binomial", "standard_normal", "get_state", "set_state", "RandomState", "bytes", "sample",
               "ranf", "beta", "exponential", "poisson", "multinomial"]
PY_FUNCS = ["random", "randint", "shuffle", "sample", "choice", "choices", "uniform", "randrange", "seed", "getrandbits", "gauss",
            "normalvariate", "getstate", "setstate", "betavariate", "expovariate", "triangular", "Random", "SystemRandom"]
TIME_FUNCS = ["time", "perf_counter", "monotonic", "time_ns", "perf_counter_ns", "monotonic_ns", "process_time", "localtime",
              "gmtime", "ctime", "strftime"]


def _record(kind, name):
    hits = _STATE["hits"]
    if hits is None:
        return
    try:
        f = sys._getframe(2)
        mod = f.f_globals.get("__name__", "")
    except Exception:
        mod = ""
    if mod == "qucumber" or mod.startswith("qucumber."):
        hits.add((kind, name, mod))


def _note_env_key(args):
    """remember which environment variables qucumber code looks at (perturbed between the runs afterwards)."""
    try:
        mod = sys._getframe(2).f_globals.get("__name__", "")
        if (mod == "qucumber" or mod.startswith("qucumber.")) and args and isinstance(args[0], str):
            _STATE.setdefault("env_keys", set()).add(args[0])
    except Exception:
        pass


def _wrap(owner, name, kind, label):
    try:
        orig = getattr(owner, name)
    except AttributeError:
        return
    if getattr(orig, "_c14_wrapped", False) or not callable(orig):
        return
    if isinstance(orig, type):
        return                                  # classes are left alone (the translator flags any reference to them)

    skewable = kind == "Clock" and name in ("time", "perf_counter", "monotonic", "process_time")

    def w(*a, **k):
        _record(kind, label)
        r = orig(*a, **k)
        if skewable and _STATE.get("clock_skew"):
            # the wall clock of the second run is far ahead and jumps at every reading: nothing may depend on it
            _STATE["clock_calls"] = _STATE.get("clock_calls", 0) + 1
            r = r + _STATE["clock_skew"] * _STATE["clock_calls"]
        return r
    w._c14_wrapped = True
    w.__name__ = getattr(orig, "__name__", name)
    w.__doc__ = getattr(orig, "__doc__", None)
    try:
        setattr(owner, name, w)
    except Exception:
        pass


def _from_package(depth=2):
    """is the caller of the wrapped function (depth frames up) code of the qucumber package?"""
    try:
        mod = sys._getframe(depth).f_globals.get("__name__", "")
    except Exception:
        return False
    return mod == "qucumber" or mod.startswith("qucumber.")


def _wrap_proc_write(owner, name, family):
    """warnings filters and the environment are also written by torch / the interpreter on their own (lazy imports); a change of
    these two is blamed on the library only if qucumber code itself called the writer during the operation."""
    try:
        orig = getattr(owner, name)
    except AttributeError:
        return
    if getattr(orig, "_c14_wrapped", False) or not callable(orig):
        return

    def w(*a, **k):
        if _from_package():
            _STATE.setdefault("proc_writes", set()).add(family)
        return orig(*a, **k)
    w._c14_wrapped = True
    w.__name__ = getattr(orig, "__name__", name)
    w.__doc__ = getattr(orig, "__doc__", None)
    try:
        setattr(owner, name, w)
    except Exception:
        pass


def _install_wrappers():
    if _STATE["wrapped"]:
        return
    _STATE["wrapped"] = True
    import torch, numpy, random, time as _time, warnings
    for n in ("simplefilter", "filterwarnings", "resetwarnings"):
        _wrap_proc_write(warnings, n, "warnings.filters")
    for n in ("putenv", "unsetenv"):
        _wrap_proc_write(os, n, "os.environ")
    for n in ("__setitem__", "__delitem__", "pop", "popitem", "clear", "update", "setdefault"):
        _wrap_proc_write(type(os.environ), n, "os.environ")
    for n in TORCH_FUNCS:
        _wrap(torch, n, "RngTorch", "torch." + n)
    for n in TORCH_RESEED_FUNCS:
        _wrap(torch, n, "RngReseed", "torch." + n)
        _wrap(torch.random, n, "RngReseed", "torch.random." + n)
    for n in ("manual_seed", "manual_seed_all", "seed", "seed_all", "set_rng_state", "set_rng_state_all"):
        _wrap(torch.cuda, n, "RngReseed", "torch.cuda." + n)
    for n in ("manual_seed", "seed", "set_state"):
        _wrap(torch.Generator, n, "RngReseed", "Generator." + n)
    for n in TENSOR_METHODS:
        _wrap(torch.Tensor, n, "RngTorch", "Tensor." + n)
    _wrap(torch.distributions.Distribution, "sample", "RngTorch", "Distribution.sample")
    for cls in (torch.distributions.Bernoulli, torch.distributions.Normal, torch.distributions.Uniform,
                torch.distributions.Categorical, torch.distributions.Binomial):
        if "sample" in cls.__dict__:
            _wrap(cls, "sample", "RngTorch", cls.__name__ + ".sample")
    for n in NUMPY_FUNCS:
        _wrap(numpy.random, n, "RngNumpy", "numpy.random." + n)
    for n in PY_FUNCS:
        _wrap(random, n, "RngPython", "random." + n)
    for n in TIME_FUNCS:
        _wrap(_time, n, "Clock", "time." + n)
    _wrap(os, "getenv", "Environ", "os.getenv")
    _wrap(os, "urandom", "Environ", "os.urandom")
    # the environment seen through the file system: home / working directory, ~ and $VAR expansion
    _wrap(os, "getcwd", "Environ", "os.getcwd")
    _wrap(os.path, "expanduser", "Environ", "os.path.expanduser")
    _wrap(os.path, "expandvars", "Environ", "os.path.expandvars")
    try:
        import pathlib
        _wrap(pathlib.Path, "expanduser", "Environ", "Path.expanduser")
        for n in ("home", "cwd"):
            def mk(orig, n):
                def w(*a, **k):
                    _record("Environ", "Path." + n)
                    return orig()
                w._c14_wrapped = True
                return w
            setattr(pathlib.Path, n, staticmethod(mk(getattr(pathlib.Path, n), n)))
    except Exception:
        pass
    try:
        E = type(os.environ)
        for n in ("get", "__getitem__", "__contains__"):
            orig = getattr(E, n)

            def mk(orig, n):
                def w(self, *a, **k):
                    if self is os.environ:
                        _record("Environ", "os.environ." + n)
                        _note_env_key(a)
                    return orig(self, *a, **k)
                return w
            setattr(E, n, mk(orig, n))
    except Exception:
        pass


# =============================================================================== canonical outputs
def canon(x):
    """bit-exact canonical form of an output (tensors / arrays by content hash)."""
    import torch, numpy as np
    if isinstance(x, torch.Tensor):
        t = x.detach().cpu().contiguous()
        return ["T", str(t.dtype), list(t.shape), hashlib.sha1(t.numpy().tobytes()).hexdigest()]
    if isinstance(x, np.ndarray):
        a = np.ascontiguousarray(x)
        return ["A", str(a.dtype), list(a.shape), hashlib.sha1(a.tobytes()).hexdigest()]
    if isinstance(x, (np.floating, float)):
        return ["F", float(x).hex()]
    if isinstance(x, (bool, np.bool_)):
        return ["B", bool(x)]
    if isinstance(x, (int, np.integer)):
        return ["I", int(x)]
    if isinstance(x, complex):
        return ["C", x.real.hex(), x.imag.hex()]
    if x is None or isinstance(x, str):
        return x
    if isinstance(x, dict):
        return ["D"] + [[str(k), canon(v)] for k, v in sorted(x.items(), key=lambda kv: str(kv[0]))]
    if isinstance(x, (list, tuple)):
        return ["L"] + [canon(v) for v in x]
    return ["R", repr(x)[:80]]


def rng_digest():
    import torch
    return hashlib.sha1(torch.get_rng_state().numpy().tobytes()).hexdigest()


def param_bytes(state):
    import torch
    ps = []
    for net in state.networks:
        for p in getattr(state, net).parameters():
            ps.append(p.detach().reshape(-1))
    v = torch.cat(ps) if ps else torch.zeros(0)
    return hashlib.sha1(v.cpu().numpy().tobytes()).hexdigest()


# =============================================================================== process-wide settings
# Hidden state of the PROCESS that qucumber.set_random_seed does not reset and that later draws / results may depend on.  The
# library must leave it as it found it after EVERY call -- also when the call ends with an exception raised by a user callback /
# metric / observable (caught by the caller) or by an invalid argument.  Print options are deliberately not part of the
# snapshot (they do not reach samples, statistics or parameters).
_SCALARS = (int, float, str, bool, type(None), bytes, complex)


def _flush_denormal_probe():
    import torch
    return bool((torch.tensor([2e-308], dtype=torch.float64) * 0.01).item() == 0.0)


def _scalar_like(v):
    import torch
    if isinstance(v, _SCALARS) or isinstance(v, (torch.dtype, torch.device)):
        return True
    return isinstance(v, (tuple, frozenset)) and len(v) <= 16 and all(isinstance(x, _SCALARS) for x in v)


def _package_globals(raw=False):
    """scalar module-level globals and scalar class attributes of every loaded qucumber module (raw: owner, attribute, value)."""
    out = {}
    cache = _STATE.get("pkg_modules")
    if cache is None or cache[0] != len(sys.modules):
        cache = (len(sys.modules), [(name, mod) for name, mod in list(sys.modules.items())
                                    if mod is not None and (name == "qucumber" or name.startswith("qucumber."))])
        _STATE["pkg_modules"] = cache
    for name, mod in cache[1]:
        out[name + "::<loaded>"] = (mod, None, True) if raw else "True"
        for k, v in list(vars(mod).items()):
            if k.startswith("__"):
                continue
            if _scalar_like(v):
                out[name + "::" + k] = (mod, k, v) if raw else repr(v)
            elif isinstance(v, type) and getattr(v, "__module__", None) == name:
                for ck, cv in list(vars(v).items()):
                    if not ck.startswith("__") and _scalar_like(cv):
                        out["%s::%s.%s" % (name, k, ck)] = (v, ck, cv) if raw else repr(cv)
    return out


def proc_snapshot():
    import torch, numpy as np, warnings
    s = {}

    def put(key, f):
        try:
            s[key] = f()
        except Exception:
            pass
    put("torch.default_dtype", lambda: str(torch.get_default_dtype()))
    put("torch.default_device", lambda: str(torch.get_default_device()))
    put("torch.num_threads", torch.get_num_threads)
    put("torch.num_interop_threads", torch.get_num_interop_threads)
    put("torch.deterministic_algorithms", lambda: [bool(torch.are_deterministic_algorithms_enabled()),
                                                   bool(torch.is_deterministic_algorithms_warn_only_enabled())])
    put("torch.float32_matmul_precision", torch.get_float32_matmul_precision)
    put("torch.grad_enabled", torch.is_grad_enabled)
    put("torch.inference_mode", torch.is_inference_mode_enabled)
    put("torch.anomaly_enabled", torch.is_anomaly_enabled)
    put("torch.flush_denormal", _flush_denormal_probe)
    put("torch.backends.cudnn", lambda: [bool(torch.backends.cudnn.deterministic), bool(torch.backends.cudnn.benchmark),
                                         bool(torch.backends.cudnn.enabled), bool(torch.backends.cudnn.allow_tf32)])
    put("torch.backends.cuda.matmul.allow_tf32", lambda: bool(torch.backends.cuda.matmul.allow_tf32))
    put("torch.backends.opt_einsum", lambda: [bool(torch.backends.opt_einsum.enabled), str(torch.backends.opt_einsum.strategy)])
    put("torch.utils.deterministic.fill_uninitialized_memory", lambda: bool(torch.utils.deterministic.fill_uninitialized_memory))
    put("numpy.geterr", lambda: dict(np.geterr()))
    put("numpy.geterrcall", lambda: repr(np.geterrcall()))
    put("warnings.filters", lambda: [len(warnings.filters), hashlib.sha1(repr(
        [(f[0], getattr(f[1], "pattern", f[1]), getattr(f[2], "__name__", str(f[2])), getattr(f[3], "pattern", f[3]), f[4])
         for f in warnings.filters]).encode()).hexdigest()[:12]])
    put("os.environ", lambda: hash(frozenset(os.environ._data.items())))
    put("os.cwd", os.getcwd)
    put("sys.recursionlimit", sys.getrecursionlimit)
    put("sys.stdout", lambda: id(sys.stdout))
    put("qucumber.globals", _package_globals)
    return s


def proc_diff(before, after):
    d = {}
    for k in before:
        if k not in after or before[k] == after[k]:
            continue
        if k == "qucumber.globals":
            for g in before[k]:
                if g in after[k] and before[k][g] != after[k][g]:
                    d["qucumber global " + g] = [before[k][g], after[k][g]]
            for g in after[k]:
                # a new global / class attribute of a module that was already loaded (modules imported lazily meanwhile are no change)
                if g not in before[k] and g.split("::")[0] + "::<loaded>" in before[k]:
                    d["qucumber global " + g] = ["<absent>", after[k][g]]
        elif k == "os.environ":
            d[k] = ["<digest %s>" % before[k], "<digest %s>" % after[k]]
        elif k == "warnings.filters":
            d[k] = [before[k], after[k]]
        else:
            d[k] = [before[k], after[k]]
    return d


def proc_leftover():
    """settings that differ from the baseline now (warnings filters / environment only if the library was seen writing them)."""
    d = proc_diff(proc_baseline()["snap"], proc_snapshot())
    for family in ("warnings.filters", "os.environ"):
        if family in d and family not in _STATE.get("proc_dirty", ()):
            del d[family]
    return d


def proc_baseline():
    """the settings the harness process starts every case from (taken once, before the first case)."""
    import warnings
    if _STATE.get("proc_base") is None:
        import torch, numpy as np, importlib
        for sub in ("", ".nn_states", ".rbm", ".callbacks", ".observables", ".utils", ".utils.training_statistics", ".utils.unitaries",
                    ".utils.cplx", ".utils.data", ".utils.gradients_utils"):
            try:
                importlib.import_module("qucumber" + sub)       # the package's own module-level globals belong to the baseline
            except Exception:
                pass
        _STATE["proc_base"] = {"snap": proc_snapshot(), "filters": list(warnings.filters), "environ": dict(os.environ),
                               "errcall": np.geterrcall(), "dtype": torch.get_default_dtype(), "stdout": sys.stdout,
                               "globals_raw": _package_globals(raw=True)}
    return _STATE["proc_base"]


def proc_restore():
    """put the process-wide settings back to the baseline, so that what one case left behind is not blamed on the next."""
    import torch, numpy as np, warnings
    base = proc_baseline()
    snap = base["snap"]
    dirty = _STATE.get("proc_dirty", set())
    if not proc_leftover():
        return False

    def attempt(f):
        try:
            f()
        except Exception:
            pass
    attempt(lambda: torch.set_default_dtype(base["dtype"]))
    attempt(lambda: torch.set_default_device(None if snap.get("torch.default_device") in (None, "cpu") else snap["torch.default_device"]))
    attempt(lambda: torch.set_num_threads(snap["torch.num_threads"]))
    attempt(lambda: torch.use_deterministic_algorithms(snap["torch.deterministic_algorithms"][0],
                                                       warn_only=snap["torch.deterministic_algorithms"][1]))
    attempt(lambda: torch.set_float32_matmul_precision(snap["torch.float32_matmul_precision"]))
    attempt(lambda: torch.set_grad_enabled(snap["torch.grad_enabled"]))
    attempt(lambda: torch.set_anomaly_enabled(snap["torch.anomaly_enabled"]))
    attempt(lambda: torch.set_flush_denormal(snap["torch.flush_denormal"]))

    def backends():
        c = snap["torch.backends.cudnn"]
        torch.backends.cudnn.deterministic, torch.backends.cudnn.benchmark = c[0], c[1]
        torch.backends.cudnn.enabled, torch.backends.cudnn.allow_tf32 = c[2], c[3]
        torch.backends.cuda.matmul.allow_tf32 = snap["torch.backends.cuda.matmul.allow_tf32"]
        torch.backends.opt_einsum.enabled = snap["torch.backends.opt_einsum"][0]
        torch.backends.opt_einsum.strategy = snap["torch.backends.opt_einsum"][1]
        torch.utils.deterministic.fill_uninitialized_memory = snap["torch.utils.deterministic.fill_uninitialized_memory"]
    attempt(backends)
    attempt(lambda: np.seterr(**snap["numpy.geterr"]))
    attempt(lambda: np.seterrcall(base["errcall"]))

    def filters():
        warnings.filters[:] = base["filters"]
        getattr(warnings, "_filters_mutated", lambda: None)()
    if "warnings.filters" in dirty:
        attempt(filters)

    def environ():
        for k in list(os.environ):
            if k not in base["environ"]:
                del os.environ[k]
        for k, v in base["environ"].items():
            if os.environ.get(k) != v:
                os.environ[k] = v
    if "os.environ" in dirty:
        attempt(environ)
    _STATE["proc_dirty"] = set()
    attempt(lambda: os.chdir(snap["os.cwd"]))
    attempt(lambda: sys.setrecursionlimit(snap["sys.recursionlimit"]))
    attempt(lambda: setattr(sys, "stdout", base["stdout"]))

    def pkg_globals():
        cur = _package_globals()
        for g, (owner, attr, val) in base["globals_raw"].items():
            if attr is not None and g in cur and cur[g] != repr(val):
                setattr(owner, attr, val)
        for g, (owner, attr, val) in _package_globals(raw=True).items():
            known_module = g.split("::")[0] + "::<loaded>" in base["globals_raw"]
            if attr is not None and g not in base["globals_raw"] and known_module and isinstance(owner, type):
                try:
                    delattr(owner, attr)          # a class attribute that did not exist at the baseline
                except Exception:
                    pass
    attempt(pkg_globals)
    return True


class ScriptedFault(RuntimeError):
    """raised by the harness's user-supplied callables (metric / callback / observable / optimizer) at a scripted event"""


class ScriptedInterrupt(KeyboardInterrupt):
    """the same, as a KeyboardInterrupt (Ctrl-C while a slow user metric runs): not an Exception"""


FAULT_WHERE = ["metric", "metric_hook", "observable_eval", "lambda:on_train_start", "lambda:on_epoch_start", "lambda:on_batch_start",
               "lambda:on_batch_end", "lambda:on_epoch_end", "lambda:on_train_end", "callback:on_batch_end", "callback:on_epoch_end",
               "logger_fn", "logger_msg_gen", "saver_metadata", "optimizer", "scheduler", "obs_statistics", "obs_sample",
               "obs_composite", "system_statistics", "stats_from_samples", "early_stopping_metric",
               "bad_input:sample", "bad_input:fit", "bad_input:metric", "bad_input:rotate", "bad_input:statistics"]


class Fuse:
    """raises at its n-th call (once); counts the calls."""

    def __init__(self, at, exc):
        self.at, self.exc, self.calls, self.fired = at, exc, 0, False

    def __call__(self):
        self.calls += 1
        if self.calls == self.at and not self.fired:
            self.fired = True
            if self.exc == "interrupt":
                raise ScriptedInterrupt("scripted Ctrl-C inside a user-supplied callable (call %d)" % self.calls)
            raise ScriptedFault("scripted failure inside a user-supplied callable (call %d)" % self.calls)


# =============================================================================== history generation
KINDS = ["positive", "complex", "density"]
OBS = ["SigmaX", "SigmaY", "SigmaZ", "Neighbour", "NeighbourPBC", "SWAP", "Sum", "Prod", "Neg"]
OP_WEIGHTS = {"reseed": 1.0, "reinit": 0.7, "sample": 3.0, "obs_sample": 1.5, "statistics": 2.0, "system_statistics": 1.0,
              "fit": 2.5, "evaluate": 2.5, "metric": 2.0, "rotate": 1.8, "save": 1.0, "load": 0.7, "autoload": 0.5,
              "gradient": 2.0, "stats_from_samples": 1.0, "load_data": 0.5, "poke": 0.8, "callback_hook": 1.0, "fault": 1.8}
READ_ONLY_OPS = {"sample", "obs_sample", "statistics", "system_statistics", "evaluate", "metric", "rotate", "save", "gradient",
                 "stats_from_samples", "load_data", "callback_hook"}
POKE_VALUES = ["nan", "inf", "-inf", "75.0", "-60.0", "1e6", "1e-300", "0.0", "1e300", "-1e300", "1e12", "-1e9"]
HOOK_KINDS = ["metric", "observable", "logger", "saver", "early", "list"]
FIT_KNOWN = {"self", "data", "epochs", "pos_batch_size", "neg_batch_size", "k", "lr", "input_bases", "progbar", "starting_epoch",
             "time", "callbacks", "optimizer", "optimizer_args", "scheduler", "scheduler_args", "kwargs"}
SEED_FLAGS = [{"cpu": True, "gpu": False}, {"cpu": True, "gpu": True}, {}, {"cpu": True}, {"gpu": True}]
RNG_OPS = {"sample", "obs_sample", "statistics", "system_statistics", "fit"}
# scripted faults whose operation is read-only by the property's second sentence (sampling / observables / metrics / rotations)
FAULT_READ_ONLY = {"metric_hook", "obs_statistics", "obs_sample", "obs_composite", "system_statistics", "stats_from_samples",
                   "bad_input:sample", "bad_input:metric", "bad_input:rotate", "bad_input:statistics"}
FAULT_SINGLE_CALL = {"obs_sample", "stats_from_samples", "lambda:on_train_start", "lambda:on_train_end"}
FAULT_PER_EPOCH = {"metric", "early_stopping_metric", "metric_hook", "lambda:on_epoch_start", "lambda:on_epoch_end",
                   "callback:on_epoch_end", "logger_fn", "logger_msg_gen", "saver_metadata", "scheduler"}


def fault_op(where, exc, at, data, bases, epochs=2, pbs=3, k=1, lr=0.05, n=6, chains=3, burn_in=2, steps=1):
    return {"op": "fault", "where": where, "exc": exc, "at": at, "data": data, "bases": bases, "epochs": epochs, "pbs": pbs, "k": k,
            "lr": lr, "n": n, "chains": chains, "burn_in": burn_in, "steps": steps}


def _bits(rng, n, nv):
    return rng.integers(0, 2, size=(n, nv)).astype(float).tolist()


def _bases(rng, n, nv, nz=2):
    rows = []
    for i in range(n):
        if i < nz:
            rows.append(["Z"] * nv)
        else:
            rows.append([str(c) for c in rng.choice(["X", "Y", "Z"], size=nv, p=[0.35, 0.3, 0.35])])
    order = rng.permutation(n)
    return [rows[i] for i in order]


def gen_seed(rng):
    """seeds from every regime the seeding call accepts: small, around 2**31 / 2**32, beyond 32 bits, negative."""
    r = rng.random()
    if r < 0.4:
        return int(rng.integers(0, 2 ** 31 - 1))
    if r < 0.6:
        return int(2 ** 31 + rng.integers(-3, 2 ** 31))
    if r < 0.8:
        return int(2 ** 32 * rng.integers(1, 2 ** 8) + rng.integers(0, 2 ** 32))
    return -int(rng.integers(1, 2 ** 33))


def gen_op(rng, kind, nv, name, thorough):
    op = {"op": name}
    if name == "reseed":
        op["seed"] = gen_seed(rng)
        op["flags"] = SEED_FLAGS[int(rng.integers(0, len(SEED_FLAGS)))]
    elif name == "poke":
        op["net"] = str(rng.choice(["rbm_am", "rbm_ph"]))
        op["param"] = int(rng.integers(0, 5))
        op["index"] = int(rng.integers(0, 64))
        op["value"] = str(rng.choice(POKE_VALUES))
    elif name == "stats_from_samples":
        op["obs"] = [str(x) for x in rng.choice(OBS, size=int(rng.integers(1, 4)), replace=False)]
        op["A"] = sorted(int(a) for a in rng.choice(nv, size=int(rng.integers(1, nv)), replace=False)) if nv > 1 else [0]
        op["samples"] = _bits(rng, int(rng.integers(2, 12)), nv)
        op["system"] = bool(rng.random() < 0.5)
    elif name == "load_data":
        n = int(rng.integers(3, 8))
        op["samples"] = _bits(rng, n, nv)
        op["bases"] = _bases(rng, n, nv, nz=1)
        op["target_seed"] = int(rng.integers(0, 10 ** 6))
    elif name == "sample":
        op["k"] = int(rng.integers(1, 6))
        op["n"] = int(rng.integers(1, 40))
        if rng.random() < 0.3:
            op["init"] = _bits(rng, min(op["n"], 6), nv)
            op["overwrite"] = bool(rng.random() < 0.5)
            if rng.random() < 0.35:
                op["rbm_level"] = True           # the RBM's own public sampler: st.rbm_am.gibbs_steps(k, start)
    elif name in ("obs_sample", "statistics", "system_statistics"):
        op["obs"] = [str(x) for x in rng.choice(OBS, size=(1 if name != "system_statistics" else int(rng.integers(1, 4))), replace=False)]
        op["A"] = sorted(int(a) for a in rng.choice(nv, size=int(rng.integers(1, nv)), replace=False)) if nv > 1 else [0]
        op["k"] = int(rng.integers(1, 4))
        op["n"] = int(rng.integers(2, 30))
        op["chains"] = int(rng.choice([0, 2, 3, 7]))
        op["burn_in"] = int(rng.integers(1, 6))
        op["steps"] = int(rng.integers(1, 4))
    elif name == "fit":
        n = int(rng.integers(6, 18))
        op["data"] = _bits(rng, n, nv)
        if kind != "positive":
            op["bases"] = _bases(rng, n, nv)
        op["epochs"] = int(rng.integers(1, 3))
        op["pbs"] = int(rng.integers(2, n + 2))
        op["nbs"] = int(rng.choice([0, op["pbs"], int(rng.integers(1, n + 1))]))
        op["k"] = int(rng.integers(1, 4))
        op["lr"] = float(rng.choice([1e-3, 1e-2, 0.1, 0.5]))
        op["optimizer"] = str(rng.choice(["SGD", "SGD", "Adam", "SGDm"]))
        op["time"] = [False, False, True, 5.0, 7, 1e3][int(rng.integers(0, 6))]     # a number is truthy: a Timer is attached
        op["callbacks"] = [str(c) for c in rng.choice(["none", "obs", "metric", "both"], size=1)]
        op["extra_callbacks"] = sorted(str(c) for c in rng.choice(["saver", "saver_fn", "early", "logger", "lambda"],
                                                                  size=int(rng.integers(0, 4)), replace=False))
        op["scheduler"] = bool(rng.random() < 0.2)
        op["eval_n"] = int(rng.choice([6, 12, 24]))            # chains of the ObservableEvaluator (if one is attached)
    elif name == "evaluate":
        op["what"] = str(rng.choice(["probability", "psi_or_rho", "normalization", "amplitude_phase", "compute_normalization",
                                     "subspace_vector", "rbm_level"]))
        op["num"] = int(rng.integers(0, 2 ** nv))
    elif name == "metric":
        op["what"] = _STATE.get("metric_bias") or str(rng.choice(["fidelity", "KL", "NLL", "NLL_bases", "KL_bases"]))
        op["target_seed"] = int(rng.integers(0, 10 ** 6))
        nb = int(rng.integers(2, 6))
        op["bases"] = ["".join(str(c) for c in rng.choice(["X", "Y", "Z"], size=nv)) for _ in range(nb)]
        n = int(rng.integers(4, 10))
        op["samples"] = _bits(rng, n, nv)
        op["sample_bases"] = _bases(rng, n, nv, nz=1)
    elif name == "rotate":
        op["what"] = str(rng.choice(["rotate_state", "inner_prod_or_probs", "explicit_state", "explicit_inner"]))
        op["target_seed"] = int(rng.integers(0, 10 ** 6))
        op["basis"] = [str(c) for c in rng.choice(["X", "Y", "Z"], size=nv)]
        op["states"] = _bits(rng, int(rng.integers(1, 5)), nv)
    elif name == "gradient":
        op["what"] = str(rng.choice(["gradient", "batch", "exact", "positive_phase", "gradient_1d"]))
        n = int(rng.integers(3, 9))
        op["samples"] = _bits(rng, n, nv)
        op["neg"] = _bits(rng, int(rng.integers(2, 7)), nv)
        op["bases"] = _bases(rng, n, nv, nz=1)
        op["k"] = int(rng.integers(1, 4))
    elif name == "save":
        op["metadata"] = bool(rng.random() < 0.5)
    elif name == "callback_hook":
        op["which"] = str(rng.choice(HOOK_KINDS))
        op["epoch"] = int(rng.integers(1, 4))
        op["samples"] = _bits(rng, int(rng.integers(4, 9)), nv)
        op["eval_n"] = int(rng.choice([6, 12, 24]))
    elif name == "fault":
        n = int(rng.integers(6, 14))
        op = fault_op(str(rng.choice(FAULT_WHERE)), str(rng.choice(["error", "interrupt"])), int(rng.integers(1, 4)),
                      _bits(rng, n, nv), _bases(rng, n, nv), epochs=int(rng.integers(2, 4)), pbs=int(rng.integers(2, n + 1)),
                      k=int(rng.integers(1, 3)), lr=float(rng.choice([1e-2, 0.1])), n=int(rng.integers(4, 20)),
                      chains=int(rng.choice([0, 2, 3])), burn_in=int(rng.integers(1, 4)), steps=int(rng.integers(1, 3)))
    return op


def gen_history(rng, thorough, weights=None, kind=None):
    weights = weights or OP_WEIGHTS
    kind = kind or str(rng.choice(KINDS, p=[0.4, 0.35, 0.25]))
    nv = int(rng.integers(2, 5))
    if kind == "density" and nv > 3:
        nv = 3
    nh = int(rng.integers(1, 5))
    h = {"kind": kind, "nv": nv, "nh": nh, "na": int(rng.integers(1, 4)), "seed": gen_seed(rng),
         "seed_flags": SEED_FLAGS[int(rng.integers(0, len(SEED_FLAGS)))], "ops": []}
    names = list(weights)
    p = [weights[n] for n in names]
    tot = sum(p)
    p = [x / tot for x in p]
    length = int(rng.integers(6, 13)) if thorough else int(rng.integers(4, 9))
    saved = False
    for _ in range(length):
        name = str(rng.choice(names, p=p))
        if name in ("load", "autoload") and not saved:
            name = "save"
        if name == "save":
            saved = True
        h["ops"].append(gen_op(rng, kind, nv, name, thorough))
    return h


# =============================================================================== history execution
def qualname(fn):
    fn = getattr(fn, "__func__", fn)
    return "%s.%s" % (getattr(fn, "__module__", "?"), getattr(fn, "__qualname__", getattr(fn, "__name__", "?")))


def make_obs(name, A):
    from qucumber.observables import SigmaX, SigmaY, SigmaZ, NeighbourInteraction, SWAP
    if name == "SigmaX":
        return SigmaX()
    if name == "SigmaY":
        return SigmaY(absolute=True)
    if name == "SigmaZ":
        return SigmaZ()
    if name == "Neighbour":
        return NeighbourInteraction()
    if name == "NeighbourPBC":
        return NeighbourInteraction(periodic_bcs=True)
    if name == "SWAP":
        return SWAP(A)
    if name == "Sum":
        return SigmaX() + 2.0 * SigmaZ()
    if name == "Prod":
        return 0.5 * SigmaZ(absolute=True)
    return -SigmaX()


def unknown_numeric_options(fn, known, value):
    """keyword arguments for every parameter of `fn` that this harness does not know and whose default is None or a number:
    an option added to the library is switched on with `value` (the same regime as fit(time=<number>)); {} on the
    unchanged tree."""
    import inspect
    out = {}
    try:
        ps = inspect.signature(fn).parameters
    except (TypeError, ValueError):
        return out
    for name, p_ in ps.items():
        if name in known or p_.kind in (p_.VAR_POSITIONAL, p_.VAR_KEYWORD):
            continue
        d = p_.default
        if d is None or (isinstance(d, (int, float)) and not isinstance(d, bool)):
            out[name] = value
    return out


def sampling_kind(op):
    """the sampling entry point an operation of the grammar goes through (None: it draws nothing from the generator)."""
    n = op["op"]
    if n in ("sample", "obs_sample", "statistics", "system_statistics", "fit"):
        return n
    if n == "callback_hook" and op.get("which") in ("observable", "list"):
        return "observable_evaluator"
    if n == "gradient" and op.get("what") == "batch":
        return "batch_gradients"            # compute_batch_gradients draws the negative phase (k Gibbs steps from `neg`)
    return None


def multiset_collision_bits(p, rows):
    """-log2 of the probability that two independent samples of `rows` configurations drawn from the distribution p (list) form
    the same MULTISET (what a sum over the rows, e.g. a negative-phase gradient, can at most tell apart):
    sum_h multinomial(h; p)**2 = (rows!)**2 [x**rows] prod_i sum_j (p_i**2 x)**j / (j!)**2.  0.0 if not computable."""
    import numpy as np, math
    if rows < 1 or rows > 64 or not p:
        return 0.0
    acc = np.zeros(rows + 1)
    acc[0] = 1.0
    for pi in p:
        ser = np.array([math.exp(2 * j * math.log(pi) - 2 * math.lgamma(j + 1)) if pi > 0 else float(j == 0) for j in range(rows + 1)])
        acc = np.convolve(acc, ser)[:rows + 1]
    v = acc[rows]
    if not (v > 0) or not math.isfinite(v):
        return 0.0
    return max(0.0, -(math.log2(v) + 2 * math.lgamma(rows + 1) / math.log(2)))


class Runner:
    """executes one history on a fresh state; collects outputs, parameter digests, hits per operation."""

    def __init__(self, hist, workdir, perturb=0, record_hits=True, seed_probe=None):
        self.h, self.workdir, self.perturb, self.record_hits = hist, workdir, perturb, record_hits
        self.seed_probe = seed_probe    # (s1, s2): every sampling operation is executed from the SAME parameters under both seeds
        self.seed_dep = []          # per probed sampling operation: what coincided under the two seeds (see probe_op)
        self.rec = None             # draws handed to recording observables (probe pass only)
        self.outputs = []           # per op: canonical output
        self.params = []            # per op: parameter digest after the op
        self.ro_changes = []        # (index, op) read-only operations that changed the parameters
        self.hits = []              # per op: (entry qualified names, set of hits)
        self.saved = None
        self.nrng = 0
        self.rng_states = []        # per op: digest of torch's CPU generator state after the op
        self.raised = []            # (index, op, exception type) of operations that raised
        self.cb_changes = []        # (index, hook) callbacks' hooks during fit between which the parameter bytes changed
        self.proc_changes = []      # (label, {setting: [before, after]}) library calls that changed a process-wide setting
        self.cur_label = "seed"

    def perturb_foreign(self, i):
        """put numpy's and Python's global generators into a run-specific state and consume a run-specific amount."""
        import numpy as np
        if i == 0:
            # whatever state torch's generator was left in must not matter after seeding: start every run from another one
            import torch
            torch.manual_seed(1000003 * (self.perturb + 1) + 17)
            torch.rand(1 + self.perturb % 3)
        if i == 0:
            # the user's home / configuration directories differ between the runs (both exist and are empty)
            for key in ("HOME", "XDG_CONFIG_HOME", "USERPROFILE"):
                d = os.path.join(self.workdir, "env_%d_%s" % (self.perturb, key.lower()))
                os.makedirs(d, exist_ok=True)
                os.environ[key] = d
        for key in sorted(_STATE.get("env_keys", ())):          # environment variables the library was seen reading
            if self.perturb == 0:
                os.environ.pop(key, None)
            else:
                os.environ[key] = str(1 + (self.perturb + i) % 4)
        if self.perturb == 0:
            if i == 0:
                np.random.seed(12345)
                pyrandom.seed(12345)
            return
        np.random.seed((self.perturb * 7919 + i * 104729) % (2 ** 32 - 1))
        pyrandom.seed(self.perturb * 31337 + i)
        np.random.rand(1 + (self.perturb + i) % 5)
        for _ in range((self.perturb * 3 + i) % 7):
            pyrandom.random()

    def timed(self, entries, fn):
        _STATE["hits"] = set() if self.record_hits else None
        _STATE["proc_writes"] = set()
        settings = proc_snapshot()
        try:
            try:
                out = fn()
            except Exception as e:          # an exception is an output like any other (must be reproducible too)
                out = ["EXC", type(e).__name__]
                self.raised.append((len(self.hits), type(e).__name__, str(e)[:120]))
        finally:
            hits = _STATE["hits"]
            _STATE["hits"] = None
        self.hits.append(([qualname(e) for e in entries], hits or set()))
        changed = proc_diff(settings, proc_snapshot())
        for family in ("warnings.filters", "os.environ"):
            if family in changed and family not in _STATE.get("proc_writes", ()):
                del changed[family]          # written by torch / the interpreter (lazy imports), not by the library
            elif family in changed:
                _STATE.setdefault("proc_dirty", set()).add(family)
        if changed:
            self.proc_changes.append((self.cur_label, changed))
        return out

    def run(self):
        import torch, numpy as np, qucumber
        from qucumber.nn_states import PositiveWaveFunction, ComplexWaveFunction, DensityMatrix
        h = self.h
        os.makedirs(self.workdir, exist_ok=True)
        _STATE["clock_skew"] = 100.0 if self.perturb else 0.0
        _STATE["clock_calls"] = 0
        saved_env = {k: os.environ.get(k) for k in ("HOME", "XDG_CONFIG_HOME", "USERPROFILE")}
        try:
            return self._run()
        finally:
            _STATE["clock_skew"] = 0.0
            for k, v in saved_env.items():
                if v is None:
                    os.environ.pop(k, None)
                else:
                    os.environ[k] = v
            for key in _STATE.get("env_keys", ()):
                os.environ.pop(key, None)

    def _run(self):
        import torch, numpy as np, qucumber
        from qucumber.nn_states import PositiveWaveFunction, ComplexWaveFunction, DensityMatrix
        h = self.h
        self.perturb_foreign(0)
        self.timed([qucumber.set_random_seed], lambda: qucumber.set_random_seed(h["seed"], quiet=True, **h.get("seed_flags", {"cpu": True, "gpu": False})))
        cls = {"positive": PositiveWaveFunction, "complex": ComplexWaveFunction, "density": DensityMatrix}[h["kind"]]
        if h["kind"] == "density":
            mk = lambda: cls(h["nv"], h["nh"], h["na"], gpu=False)
        else:
            mk = lambda: cls(h["nv"], h["nh"], gpu=False)
        holder = {}

        def construct():
            holder["s"] = mk()
            return None
        self.cur_label = "construct"
        self.timed([cls.__init__], construct)
        st = holder.get("s")
        self.st = st
        self.outputs.append(canon(None))
        self.params.append(param_bytes(st))
        self.rng_states.append(rng_digest())
        for i, op in enumerate(h["ops"]):
            self.perturb_foreign(i + 1)
            before = param_bytes(st)
            self.cur_label = op_label(h, i + 1)
            if self.seed_probe is not None and sampling_kind(op):
                out = self.probe_op(op, i)
            else:
                entries, thunk = self.dispatch(op, i)
                out = self.timed(entries, thunk)
            st = self.st
            self.outputs.append(canon(out))
            after = param_bytes(st)
            self.params.append(after)
            self.rng_states.append(rng_digest())
            if (op["op"] in READ_ONLY_OPS or (op["op"] == "fault" and op["where"] in FAULT_READ_ONLY)) and after != before:
                self.ro_changes.append((i, op["op"], op.get("what", op.get("where"))))
        for key in _STATE.get("env_keys", ()):
            os.environ.pop(key, None)
        return self

    # ---------------------------------------------------------------- seed dependence of one sampling operation
    def wrap_obs(self, ob):
        """probe pass only: a user subclass of the observable's class whose apply() notes the configurations it is handed (the
        DRAWS of Observable.sample / statistics, System.statistics, ObservableEvaluator) and then does what the library's does."""
        if self.rec is None:
            return ob
        import copy
        cls, store = type(ob), self.rec

        def apply(self_, nn_state, samples):
            store.append(samples.detach().clone())
            return cls.apply(self_, nn_state, samples)
        new = copy.copy(ob)
        new.__class__ = type(cls.__name__, (cls,), {"apply": apply, "__module__": cls.__module__})
        return new

    def collision_bits(self):
        """-log2 sum_v p(v)**2 of the state's own distribution over the visible configurations (exact, nv <= 4): two independent
        draws of one configuration coincide with probability 2**-this; 0.0 when the parameters are degenerate (poked)."""
        import torch, math
        st = self.st
        try:
            space = st.generate_hilbert_space()
            p = st.probability(space, st.normalization(space)).detach().double().reshape(-1)
            if not bool(torch.isfinite(p).all()) or abs(float(p.sum()) - 1.0) > 1e-6 or float(p.min()) < 0:
                return 0.0
            self.last_p = [float(x) for x in p]
            return max(0.0, -math.log2(float((p * p).sum())))
        except Exception:
            return 0.0

    def probe_op(self, op, i):
        """the operation is executed twice from the SAME parameters, after qucumber.set_random_seed(s1) and after
        qucumber.set_random_seed(s2); the history carries on from the second execution."""
        import torch, qucumber, io, contextlib
        s1, s2 = self.seed_probe
        st0 = self.st
        saved = [p_.detach().clone() for net in st0.networks for p_ in getattr(st0, net).parameters()]
        self.last_p = None
        hc = self.collision_bits()
        runs = []
        kind = sampling_kind(op)
        for s in (s1, s2, s1):           # the third execution repeats the FIRST one on the same, by then twice used, object
            st = self.st = st0
            with torch.no_grad():
                for p_, v in zip([p_ for net in st.networks for p_ in getattr(st, net).parameters()], saved):
                    p_.copy_(v)
            qucumber.set_random_seed(s, quiet=True)
            self.rec = []
            order = []
            try:
                entries, thunk = self.dispatch(op, i)
                if kind == "fit" and callable(getattr(st, "compute_batch_gradients", None)):
                    # the order of the training data, as handed to the state's own compute_batch_gradients by fit (noted only)
                    inner = st.compute_batch_gradients

                    def noting(k_, samples_batch, neg_batch, *a_, **kw_):
                        order.append([samples_batch.detach().clone(), canon(list(a_)), canon(kw_)])
                        return inner(k_, samples_batch, neg_batch, *a_, **kw_)
                    st.compute_batch_gradients = noting
                try:
                    out = thunk()
                except Exception as e:
                    out = ["EXC", type(e).__name__]
            finally:
                rec, self.rec = self.rec, None
                st.__dict__.pop("compute_batch_gradients", None)
            if kind == "sample" and isinstance(out, torch.Tensor):
                rec = [out.detach().clone()]
            rows = sum(int(t.numel() // max(1, t.shape[-1])) for t in rec)
            finite = all(bool(torch.isfinite(p_).all()) for net in self.st.networks for p_ in getattr(self.st, net).parameters())
            runs.append({"order": canon(order) if order else None, "out": canon(out), "draws": canon(rec), "rows": rows, "bits": sum(int(t.numel()) for t in rec), "finite": finite,
                         "rng": rng_digest(), "params": param_bytes(self.st), "exc": isinstance(out, list) and out[:1] == ["EXC"]})
        a, b, c3 = runs
        d = {"repeat_differs": [k_ for k_ in ("out", "draws", "params", "rng", "order") if a[k_] != c3[k_]],
             "index": i, "kind": kind, "bits": min(a["bits"], b["bits"]), "eff_bits": min(a["rows"], b["rows"]) * hc,
             "same_draws": a["draws"] == b["draws"], "same_out": a["out"] == b["out"], "same_rng": a["rng"] == b["rng"],
             "exc": a["exc"] or b["exc"] or not (a["finite"] and b["finite"] and all(bool(torch.isfinite(v).all()) for v in saved)),
             "same_params": a["params"] == b["params"], "collision_bits_per_row": round(hc, 3)}
        if kind == "fit":
            nb = -(-len(op["data"]) // op["pbs"])
            d["fit_bits"] = op["epochs"] * nb * (op["nbs"] or op["pbs"]) * self.h["nv"] if op["lr"] > 0 else 0
            d["fit_eff_bits"] = op["epochs"] * nb * (op["nbs"] or op["pbs"]) * hc if op["lr"] > 0 else 0.0
            # number of distinguishable orders of the data rows (rows that coincide, bases included, cannot be told apart)
            import math, collections
            rows_ = [json.dumps([r_, (op.get("bases") or [None] * len(op["data"]))[q_] if self.h["kind"] != "positive" else None])
                     for q_, r_ in enumerate(op["data"])]
            d["order_bits"] = (math.lgamma(len(rows_) + 1) - sum(math.lgamma(m_ + 1) for m_ in collections.Counter(rows_).values())) / math.log(2)
            d["order_noted"] = a["order"] is not None and b["order"] is not None
            d["same_order"] = a["order"] == b["order"]
        if kind == "batch_gradients":
            d["grad_bits"] = multiset_collision_bits(self.last_p, len(op["neg"])) if hc > 0 else 0.0
        if kind == "statistics" and not d["exc"]:
            # informational: System(obs).statistics from the same seed and parameters is handed the same chains as obs.statistics
            rng_keep = torch.get_rng_state()
            try:
                qucumber.set_random_seed(s2, quiet=True)
                self.rec = []
                _e, thunk = self.dispatch(dict(op, op="system_statistics"), i)
                thunk()
                d["system_draws_same_chains"] = canon(self.rec) == b["draws"]
            except Exception:
                d["system_draws_same_chains"] = None
            finally:
                self.rec = None
                torch.set_rng_state(rng_keep)
        self.seed_dep.append(d)
        self.hits.append(([], set()))
        return out

    # ---------------------------------------------------------------- one operation
    def dispatch(self, op, i):
        import torch, numpy as np, qucumber
        from qucumber.nn_states import WaveFunctionBase
        import qucumber.utils.training_statistics as ts
        from qucumber.utils import unitaries, cplx
        from qucumber.observables import System
        st, h = self.st, self.h
        name = op["op"]
        T = type(st)
        dbl = lambda x: torch.tensor(x, dtype=torch.double)
        is_wf = isinstance(st, WaveFunctionBase)
        if name == "reseed":
            return [qucumber.set_random_seed], lambda: qucumber.set_random_seed(op["seed"], quiet=True, **op.get("flags", {}))
        if name == "poke":
            def do_poke():          # the harness (not the library) writes a degenerate value into one parameter entry
                ps = list(getattr(st, op["net"] if op["net"] in st.networks else st.networks[0]).parameters())
                p_ = ps[op["param"] % len(ps)]
                with torch.no_grad():
                    p_.view(-1)[op["index"] % p_.numel()] = float(op["value"])
                return None
            return [], do_poke
        if name == "reinit":
            return [T.reinitialize_parameters], lambda: st.reinitialize_parameters()
        if name == "sample":
            init = dbl(op["init"]) if "init" in op else None
            if op.get("rbm_level") and init is not None:
                return [type(st.rbm_am).gibbs_steps], lambda: st.rbm_am.gibbs_steps(op["k"], init, overwrite=op.get("overwrite", False))
            return [T.sample], lambda: st.sample(k=op["k"], num_samples=op["n"], initial_state=init, overwrite=op.get("overwrite", False))
        if name == "obs_sample":
            ob = self.wrap_obs(make_obs(op["obs"][0], op["A"]))
            return [type(ob).sample, type(ob).apply], lambda: ob.sample(st, k=op["k"], num_samples=op["n"])
        if name == "statistics":
            ob = self.wrap_obs(make_obs(op["obs"][0], op["A"]))
            return [type(ob).statistics, type(ob).apply], lambda: ob.statistics(st, num_samples=op["n"], num_chains=op["chains"],
                                                                               burn_in=op["burn_in"], steps=op["steps"])
        if name == "system_statistics":
            obs = [make_obs(o, op["A"]) for o in op["obs"]]
            obs[0] = self.wrap_obs(obs[0])
            sysm = System(*obs)
            return [System.statistics] + [type(o).apply for o in obs], lambda: sysm.statistics(
                st, num_samples=op["n"], num_chains=op["chains"], burn_in=op["burn_in"], steps=op["steps"])
        if name == "fit":
            return [T.fit], lambda: self.do_fit(op)
        if name == "evaluate":
            space = st.generate_hilbert_space()
            w = op["what"]
            if w == "probability":
                return [T.probability, T.generate_hilbert_space], lambda: st.probability(space, Z=st.normalization(space))
            if w == "normalization":
                return [T.normalization], lambda: st.normalization(space)
            if w == "compute_normalization":
                return [T.compute_normalization], lambda: st.compute_normalization(space)
            if w == "subspace_vector":
                return [T.subspace_vector, T.generate_hilbert_space], lambda: [st.subspace_vector(op.get("num", 0)),
                                                                               st.generate_hilbert_space(size=max(1, h["nv"] - 1))]
            if w == "rbm_level":
                rb = st.rbm_am
                R = type(rb)
                v1 = space[op.get("num", 0) % len(space)]
                if h["kind"] == "density":
                    return [R.effective_energy, R.partition, R.prob_h_given_v, R.effective_energy_gradient, R.gamma, R.mixing_term], \
                        lambda: [rb.effective_energy(space), rb.effective_energy(v1), rb.partition(space), rb.prob_h_given_v(space),
                                 rb.prob_a_given_v(v1), rb.effective_energy_gradient(space, reduce=False), rb.gamma(space, space),
                                 rb.mixing_term(space), st.importance_sampling_weight(space, space.flip(0))]
                return [R.effective_energy, R.partition, R.prob_h_given_v, R.prob_v_given_h, R.effective_energy_gradient], \
                    lambda: [rb.effective_energy(space), rb.effective_energy(v1), rb.partition(space), rb.prob_h_given_v(space),
                             rb.prob_v_given_h(rb.prob_h_given_v(v1).round()), rb.effective_energy_gradient(space, reduce=False),
                             rb.effective_energy_gradient(v1), st.importance_sampling_weight(space, space.flip(0))]
            if w == "psi_or_rho":
                if is_wf:
                    return [T.psi], lambda: st.psi(space)
                return [T.rho], lambda: st.rho(space, space)
            if is_wf:
                return [T.amplitude, T.phase], lambda: [st.amplitude(space), st.phase(space)]
            return [T.pi, T.rho], lambda: [st.pi(space, space), st.rho(space, expand=False)]
        if name == "metric":
            return self.metric(op)
        if name == "rotate":
            basis = op["basis"]
            space = st.generate_hilbert_space()
            states = dbl(op["states"])
            if op["what"] == "rotate_state":
                if h["kind"] == "positive":
                    return [unitaries.rotate_psi], lambda: unitaries.rotate_psi(st, basis, space, unitaries=unitaries.create_dict())
                if is_wf:
                    return [unitaries.rotate_psi], lambda: unitaries.rotate_psi(st, basis, space)
                return [unitaries.rotate_rho], lambda: unitaries.rotate_rho(st, basis, space)
            if op["what"] in ("explicit_state", "explicit_inner"):
                tgt = self.target(op)
                if op["what"] == "explicit_state":
                    if is_wf:
                        return [unitaries.rotate_psi], lambda: unitaries.rotate_psi(st, basis, space, psi=tgt)
                    return [unitaries.rotate_rho], lambda: unitaries.rotate_rho(st, basis, space, rho=tgt)
                if is_wf:
                    return [unitaries.rotate_psi_inner_prod], lambda: unitaries.rotate_psi_inner_prod(st, basis, states, psi=tgt)
                return [unitaries.rotate_rho_probs], lambda: unitaries.rotate_rho_probs(st, basis, states, rho=tgt)
            if h["kind"] == "positive":
                return [unitaries._rotate_basis_state], lambda: list(unitaries._rotate_basis_state(st, basis, states, unitaries=unitaries.create_dict()))
            if is_wf:
                return [unitaries.rotate_psi_inner_prod], lambda: unitaries.rotate_psi_inner_prod(st, basis, states)
            return [unitaries.rotate_rho_probs], lambda: unitaries.rotate_rho_probs(st, basis, states)
        if name == "gradient":
            samples, neg = dbl(op["samples"]), dbl(op["neg"])
            bases = None if h["kind"] == "positive" else np.array(op["bases"])
            w = op["what"]
            if w == "gradient":
                return [T.gradient], lambda: st.gradient(samples, bases)
            if w == "gradient_1d":
                return [T.gradient], lambda: st.gradient(samples[0], None if bases is None else bases[0])
            if w == "positive_phase":
                return [T.positive_phase_gradients], lambda: st.positive_phase_gradients(samples, bases)
            if w == "batch":
                return [T.compute_batch_gradients], lambda: st.compute_batch_gradients(op["k"], samples, neg, bases)
            space = st.generate_hilbert_space()
            if h["kind"] == "positive":
                return [T.compute_exact_grads], lambda: st.compute_exact_grads(samples, space)
            return [T.compute_exact_gradients], lambda: st.compute_exact_gradients(samples, space, bases)
        if name == "stats_from_samples":
            obs = [make_obs(o, op["A"]) for o in op["obs"]]
            samples = dbl(op["samples"])
            if op.get("system"):
                sysm = System(*obs)
                return [System.statistics_from_samples] + [type(o).apply for o in obs], lambda: sysm.statistics_from_samples(st, samples)
            return [type(obs[0]).statistics_from_samples, type(obs[0]).apply], lambda: obs[0].statistics_from_samples(st, samples)
        if name == "load_data":
            return self.load_data(op, i)
        if name == "callback_hook":
            return self.callback_hook(op, i)
        if name == "fault":
            return self.fault(op, i)
        if name == "save":
            path = os.path.join(self.workdir, "state_%d.pt" % i)

            def do_save():
                md = {"epoch": i, "note": "c14"} if op.get("metadata") else None
                st.save(path, md)
                self.saved = path
                return os.path.exists(path)
            return [T.save], do_save
        if name == "load":
            return [T.load], lambda: st.load(self.saved) if self.saved else None
        if name == "autoload":
            def do_autoload():
                if not self.saved:
                    return None
                self.st = T.autoload(self.saved, gpu=False)
                return None
            return [T.autoload], do_autoload
        raise ValueError("unknown op " + name)

    def fault(self, op, i):
        """a FAULT at a scripted event: a user-supplied callable (metric, callback hook, observable, logger function, metadata
        function, optimizer / scheduler class) raises at its n-th call -- an ordinary exception or a KeyboardInterrupt -- or a public
        operation is given an invalid argument; the harness (the caller) catches it and the history carries on."""
        import io, contextlib, torch, numpy as np
        from qucumber import callbacks as C
        from qucumber.observables import ObservableBase, SigmaZ, System
        import qucumber.utils.training_statistics as ts
        from qucumber.utils import unitaries
        st, h = self.st, self.h
        T = type(st)
        where = op["where"]
        nv = h["nv"]
        at = op["at"]
        if where in FAULT_SINGLE_CALL:
            at = 1
        elif where in FAULT_PER_EPOCH:
            at = 1 + (at - 1) % op["epochs"]
        fuse = Fuse(at, op["exc"])
        data = torch.tensor(op["data"], dtype=torch.double)
        wide = torch.cat([data, data[:, :1]], dim=1)             # one column too many: an invalid argument

        class FlakyObs(ObservableBase):
            def __init__(self):
                self.name, self.symbol = "Flaky", "F"

            def apply(self, nn_state, samples):
                fuse()
                return samples.to(dtype=torch.double).sum(1) - 0.5 * samples.shape[-1]

        def flaky_metric(nn_state, **kw):
            fuse()
            return 0.25

        def fit_with(cbs, **extra):
            kw = dict(epochs=op["epochs"], pos_batch_size=op["pbs"], k=op["k"], lr=op["lr"], progbar=False, time=False, callbacks=cbs)
            if h["kind"] != "positive":
                kw["input_bases"] = np.array(op["bases"])
            kw.update(extra)
            return lambda: st.fit(data, **kw)

        def hook_fn(hook):
            if hook in ("on_train_start", "on_train_end"):
                return lambda s_: fuse()
            if hook in ("on_epoch_start", "on_epoch_end"):
                return lambda s_, ep: fuse()
            return lambda s_, ep, b: fuse()
        stat_kw = dict(num_samples=op["n"], num_chains=op["chains"], burn_in=op["burn_in"], steps=op["steps"])
        entries, fn = [T.fit], None
        if where == "metric":
            fn = fit_with([C.MetricEvaluator(1, {"steady": lambda s_, **kw: 1.0, "flaky": flaky_metric}, verbose=False)])
        elif where == "early_stopping_metric":
            me = C.MetricEvaluator(1, {"flaky": flaky_metric}, verbose=False)
            fn = fit_with([me, C.EarlyStopping(1, 1e-12, 1, me, "flaky", criterion="absolute")])
        elif where == "metric_hook":
            me = C.MetricEvaluator(1, {"flaky": flaky_metric}, verbose=False)
            entries = [C.MetricEvaluator.on_epoch_end]
            fn = lambda: [me.on_epoch_end(st, e) for e in range(1, op["epochs"] + 1)]
        elif where == "observable_eval":
            fn = fit_with([C.ObservableEvaluator(1, [SigmaZ(), FlakyObs()], verbose=False, num_samples=6, burn_in=2, steps=1)])
        elif where.startswith("lambda:"):
            hook = where.split(":")[1]
            fn = fit_with([C.LambdaCallback(**{hook: hook_fn(hook)})])
        elif where.startswith("callback:"):
            hook = where.split(":")[1]
            FlakyCallback = type("FlakyCallback", (C.CallbackBase,), {hook: (lambda f: lambda self_, *a: f(*a))(hook_fn(hook))})
            fn = fit_with([FlakyCallback()])
        elif where == "logger_fn":
            fn = fit_with([C.Logger(1, logger_fn=lambda msg: fuse(), note="c14")])
        elif where == "logger_msg_gen":
            lines = []

            def msg_gen(s_, ep, **kw):
                fuse()
                return "epoch %d" % ep
            fn = fit_with([C.Logger(1, logger_fn=lines.append, msg_gen=msg_gen)])
        elif where == "saver_metadata":
            def metadata(s_, ep):
                fuse()
                return {"epoch": ep}
            fn = fit_with([C.ModelSaver(1, os.path.join(self.workdir, "fault_%d" % i), "m{}.pt", save_initial=False, metadata=metadata)])
        elif where == "optimizer":
            class FlakySGD(torch.optim.SGD):
                def step(self_, *a, **k):
                    fuse()
                    return super().step(*a, **k)
            fn = fit_with([], optimizer=FlakySGD)
        elif where == "scheduler":
            class FlakyStepLR(torch.optim.lr_scheduler.StepLR):
                def step(self_, *a, **k):
                    fuse()
                    return super().step(*a, **k)
            fn = fit_with([], scheduler=FlakyStepLR, scheduler_args={"step_size": 1, "gamma": 0.5})
        elif where == "obs_statistics":
            ob = FlakyObs()
            entries, fn = [ObservableBase.statistics], lambda: ob.statistics(st, **stat_kw)
        elif where == "obs_composite":
            ob = 2.0 * FlakyObs() + SigmaZ()
            entries, fn = [type(ob).statistics, type(ob).apply], lambda: ob.statistics(st, **stat_kw)
        elif where == "obs_sample":
            ob = FlakyObs()
            entries, fn = [ObservableBase.sample], lambda: ob.sample(st, k=op["k"], num_samples=op["n"])
        elif where == "system_statistics":
            sysm = System(SigmaZ(), FlakyObs())
            entries, fn = [System.statistics], lambda: sysm.statistics(st, **stat_kw)
        elif where == "stats_from_samples":
            ob = FlakyObs()
            entries, fn = [ObservableBase.statistics_from_samples], lambda: ob.statistics_from_samples(st, data)
        elif where == "bad_input:sample":
            entries, fn = [T.sample], lambda: st.sample(k=op["k"], num_samples=op["n"], initial_state=wide[:3].clone())
        elif where == "bad_input:fit":
            kw = dict(epochs=op["epochs"], pos_batch_size=op["pbs"], k=op["k"], lr=op["lr"], progbar=False,
                      callbacks=[C.MetricEvaluator(1, {"steady": lambda s_, **kw_: 1.0}, verbose=False)])
            if h["kind"] != "positive":
                kw["input_bases"] = np.array(op["bases"])
            fn = lambda: st.fit(wide, **kw)
        elif where == "bad_input:metric":
            entries, fn = [ts.NLL, ts.KL], lambda: [ts.NLL(st, wide, space=st.generate_hilbert_space()),
                                                    ts.KL(st, torch.ones(2, 3, dtype=torch.double), space=st.generate_hilbert_space())]
        elif where == "bad_input:rotate":
            space = st.generate_hilbert_space()
            if h["kind"] == "density":
                entries, fn = [unitaries.rotate_rho], lambda: unitaries.rotate_rho(st, ["Q"] * nv, space)
            else:
                entries, fn = [unitaries.rotate_psi], lambda: unitaries.rotate_psi(st, ["Q"] * nv, space, unitaries=unitaries.create_dict())
        elif where == "bad_input:statistics":
            entries, fn = [SigmaZ.statistics], lambda: SigmaZ().statistics(st, initial_state=wide[:2].clone(), **stat_kw)
        else:
            raise ValueError("unknown fault " + where)

        def thunk():
            try:
                with contextlib.redirect_stdout(io.StringIO()):
                    r = fn()
                return ["FAULT", where, "returned", fuse.calls, canon(r)]
            except (ScriptedFault, ScriptedInterrupt) as e:
                return ["FAULT", where, type(e).__name__, fuse.calls]
            finally:
                st.stop_training = False      # the next fit of the history starts afresh
        return entries, thunk

    def callback_hook(self, op, i):
        """the hooks of the library's evaluation / logging / saving callbacks called as what they are: read-only operations
        on the state (fit calls them exactly like this)."""
        import io, contextlib, torch
        from qucumber import callbacks as C
        from qucumber.observables import SigmaZ, SigmaX
        import qucumber.utils.training_statistics as ts
        st = self.st
        data = torch.tensor(op["samples"], dtype=torch.double)
        ep = op.get("epoch", 1)
        which = op["which"]
        me = C.MetricEvaluator(1, {"NLL": ts.NLL}, verbose=bool(ep % 2), samples=data, space=st.generate_hilbert_space())
        oe = C.ObservableEvaluator(1, [self.wrap_obs(SigmaZ()), SigmaX()], verbose=bool(ep % 2), num_samples=op.get("eval_n", 6),
                                   burn_in=2, steps=1)
        if which == "metric":
            cbs = [me]
        elif which == "observable":
            cbs = [oe]
        elif which == "logger":
            lines = []
            cbs = [C.Logger(1, logger_fn=lines.append, note="c14")]
        elif which == "saver":
            cbs = [C.ModelSaver(1, os.path.join(self.workdir, "hook_%d" % i), "h{}.pt", save_initial=True, metadata={"i": i})]
        elif which == "early":
            cbs = [me, C.EarlyStopping(1, 1e-12, 1, me, "NLL", criterion="absolute")]
        else:
            cbs = [C.CallbackList([me, oe, C.Timer(verbose=False)])]
        entries = []
        for c in cbs:
            for hook in ("on_train_start", "on_epoch_start", "on_batch_start", "on_batch_end", "on_epoch_end", "on_train_end"):
                entries.append(getattr(type(c), hook))

        def call():
            try:
                with contextlib.redirect_stdout(io.StringIO()):
                    for c in cbs:
                        c.on_train_start(st)
                    for e in range(1, ep + 1):
                        for c in cbs:
                            c.on_epoch_start(st, e)
                            c.on_batch_start(st, e, 0)
                            c.on_batch_end(st, e, 0)
                        for c in cbs:
                            c.on_epoch_end(st, e)
                    for c in cbs:
                        c.on_train_end(st)
            finally:
                st.stop_training = False
            return [["metric", [[e, v] for e, v in me.past_values]],
                    ["obs", [[e, v] for e, v in oe.past_values]]]
        return entries, call

    def load_data(self, op, i):
        """qucumber.utils.data loaders on files written by the harness (numpy only, no global RNG)."""
        import numpy as np
        from qucumber.utils import data as qdata
        d = os.path.join(self.workdir, "data_%d" % i)
        os.makedirs(d, exist_ok=True)
        fs = os.path.join(d, "samples.txt")
        fb = os.path.join(d, "bases.txt")
        np.savetxt(fs, np.array(op["samples"]), fmt="%d")
        with open(fb, "w") as f:
            for row in op["bases"]:
                f.write(" ".join(row) + "\n")
        tgt = self.target(op).numpy()
        if self.h["kind"] == "density":
            fr, fi = os.path.join(d, "re.txt"), os.path.join(d, "im.txt")
            np.savetxt(fr, tgt[0])
            np.savetxt(fi, tgt[1])
            return [qdata.load_data_DM], lambda: qdata.load_data_DM(fs, fr, fi, fb, fb)
        fp = os.path.join(d, "psi.txt")
        np.savetxt(fp, tgt.T)
        return [qdata.load_data, qdata.extract_refbasis_samples], lambda: [
            qdata.load_data(fs, fp, fb, fb),
            qdata.extract_refbasis_samples(__import__("torch").tensor(op["samples"], dtype=__import__("torch").double), np.array(op["bases"]))]

    def target(self, op):
        """a deterministic random target state (independent generator; never touches the global RNGs)."""
        import torch, numpy as np
        g = np.random.Generator(np.random.PCG64(op["target_seed"]))
        d = 2 ** self.h["nv"]
        if self.h["kind"] == "density":
            a = g.normal(size=(d, d)) + 1j * g.normal(size=(d, d))
            rho = a @ a.conj().T
            rho = rho / np.trace(rho).real
            return torch.tensor(np.stack([rho.real, rho.imag]), dtype=torch.double)
        v = g.normal(size=d) + (1j * g.normal(size=d) if self.h["kind"] == "complex" else 0)
        v = v / np.linalg.norm(v)
        return torch.tensor(np.stack([np.real(v), np.imag(v) if np.iscomplexobj(v) else np.zeros(d)]), dtype=torch.double)

    def metric(self, op):
        import torch, numpy as np
        import qucumber.utils.training_statistics as ts
        st = self.st
        space = st.generate_hilbert_space()
        tgt = self.target(op)
        w = op["what"]
        dbl = lambda x: torch.tensor(x, dtype=torch.double)
        positive = self.h["kind"] == "positive"
        if w == "fidelity":
            return [ts.fidelity], lambda: ts.fidelity(st, tgt, space=space)
        if w == "KL" or (w == "KL_bases" and positive):
            if self.h["kind"] == "density":
                return [ts.KL], lambda: ts.KL(st, tgt, space=space, bases=op["bases"])
            return [ts.KL], lambda: ts.KL(st, tgt, space=space)
        if w == "KL_bases":
            return [ts.KL], lambda: ts.KL(st, tgt, space=space, bases=op["bases"])
        if w == "NLL" or positive:
            return [ts.NLL], lambda: ts.NLL(st, dbl(op["samples"]), space=space)
        return [ts.NLL], lambda: ts.NLL(st, dbl(op["samples"]), space=space, sample_bases=np.array(op["sample_bases"]))

    def do_fit(self, op):
        import torch, numpy as np
        from qucumber.callbacks import ObservableEvaluator, MetricEvaluator
        from qucumber.observables import SigmaZ, SigmaX
        import qucumber.utils.training_statistics as ts
        st = self.st
        data = torch.tensor(op["data"], dtype=torch.double)
        kw = dict(epochs=op["epochs"], pos_batch_size=op["pbs"], neg_batch_size=(op["nbs"] or None), k=op["k"], lr=op["lr"],
                  progbar=False, time=op["time"])
        if op["optimizer"] == "Adam":
            kw["optimizer"] = torch.optim.Adam
        elif op["optimizer"] == "SGDm":
            kw["optimizer"] = torch.optim.SGD
            kw["optimizer_args"] = {"momentum": 0.5}
        if op.get("scheduler"):
            kw["scheduler"] = torch.optim.lr_scheduler.StepLR
            kw["scheduler_args"] = {"step_size": 1, "gamma": 0.5}
        if self.h["kind"] != "positive":
            kw["input_bases"] = np.array(op["bases"])
        cbs = []
        evs = []
        c = op["callbacks"][0]
        if c in ("obs", "both"):
            e = ObservableEvaluator(1, [self.wrap_obs(SigmaZ()), SigmaX()], verbose=False, num_samples=op.get("eval_n", 6),
                                    burn_in=2, steps=1)
            cbs.append(e)
            evs.append(("obs", e))
        if c in ("metric", "both"):
            e = MetricEvaluator(1, {"NLL": ts.NLL}, verbose=False, samples=data, space=st.generate_hilbert_space())
            cbs.append(e)
            evs.append(("metric", e))
        from qucumber.callbacks import ModelSaver, EarlyStopping, Logger, LambdaCallback
        extra = op.get("extra_callbacks", [])
        log_lines, lam = [], []
        tag = "fit_%d" % len(self.outputs)
        if "saver" in extra:
            cbs.append(ModelSaver(1, os.path.join(self.workdir, tag + "_ms"), "m{}.pt", save_initial=True, metadata={"tag": 1}))
        if "saver_fn" in extra:
            cbs.append(ModelSaver(1, os.path.join(self.workdir, tag + "_msf"), "f{}.pt", save_initial=False,
                                  metadata=lambda s_, ep: {"epoch": ep}, metadata_only=bool(op["epochs"] % 2)))
        if "early" in extra:
            me = MetricEvaluator(1, {"NLL": ts.NLL}, verbose=False, samples=data, space=st.generate_hilbert_space())
            cbs.append(me)
            evs.append(("early_metric", me))
            cbs.append(EarlyStopping(1, 1e-12, 1, me, "NLL", criterion="absolute"))
        if "logger" in extra:
            cbs.append(Logger(1, logger_fn=log_lines.append, note="c14"))
        if "lambda" in extra:
            cbs.append(LambdaCallback(on_epoch_end=lambda s_, ep: lam.append(["epoch", ep, param_bytes(s_)]),
                                      on_batch_end=lambda s_, ep, b: lam.append(["batch", ep, b])))
        numeric_time = isinstance(op["time"], (int, float)) and not isinstance(op["time"], bool)
        if numeric_time:
            # a Timer attached explicitly as well; options of Timer / fit this harness does not know (None / numeric default)
            # are switched on with the same number -- nothing may depend on the wall clock
            from qucumber.callbacks import Timer
            extra_t = unknown_numeric_options(Timer.__init__, {"self", "verbose"}, op["time"])
            try:
                cbs.append(Timer(verbose=False, **extra_t))
            except Exception:
                cbs.append(Timer(verbose=False))
            kw.update(unknown_numeric_options(type(st).fit, FIT_KNOWN, op["time"]))
        # the hooks of all callbacks sandwiched between two probes: no callback may change a parameter
        pre, post = [], []
        hooks = ("on_train_start", "on_epoch_start", "on_batch_start", "on_batch_end", "on_epoch_end", "on_train_end")

        def probe(store, hook):        # LambdaCallback checks the arity of every function it is given
            if hook in ("on_train_start", "on_train_end"):
                return lambda s_: store.append((hook, param_bytes(s_)))
            if hook in ("on_epoch_start", "on_epoch_end"):
                return lambda s_, ep: store.append((hook, param_bytes(s_)))
            return lambda s_, ep, b: store.append((hook, param_bytes(s_)))
        cbs = [LambdaCallback(**{h_: probe(pre, h_) for h_ in hooks})] + cbs + [LambdaCallback(**{h_: probe(post, h_) for h_ in hooks})]
        kw["callbacks"] = cbs
        import io, contextlib
        try:
            with contextlib.redirect_stdout(io.StringIO()):
                st.fit(data, **kw)
        finally:
            st.stop_training = False        # EarlyStopping may have set it; the next fit of the history starts afresh
        for (h1, d1), (h2, d2) in zip(pre, post):
            if h1 == h2 and d1 != d2:
                self.cb_changes.append((len(self.outputs) - 1, h1))
                break
        out = []
        for kind, e in evs:
            out.append([kind, [[ep, vals] for ep, vals in e.past_values]])
        out.append(["log", log_lines])
        out.append(["lambda", lam])
        return out


# =============================================================================== checking one history
def predicted_atoms(model, names):
    by_name = _STATE.setdefault("by_name", None)
    if by_name is None or _STATE.get("by_name_model") is not model:
        by_name = {f["name"]: f["id"] for f in model["functions"]}
        _STATE["by_name"] = by_name
        _STATE["by_name_model"] = model
        _STATE["closure_cache"] = {}
    atoms, missing = set(), []
    for n in names:
        i = by_name.get(n)
        if i is None:
            missing.append(n)
            continue
        c = _STATE["closure_cache"].get(i)
        if c is None:
            c = TE.closure_atoms(model, i)
            _STATE["closure_cache"][i] = c
        atoms |= c
    return atoms, missing


def history_desc(h):
    return {"kind": h["kind"], "nv": h["nv"], "nh": h["nh"], "seed": h["seed"],
            "ops": [o["op"] + (":" + o["what"] if "what" in o else "") + ("@" + o["where"] if "where" in o else "") for o in h["ops"]]}


def first_diff(a, b):
    for i, (x, y) in enumerate(zip(a, b)):
        if x != y:
            return i
    return None if len(a) == len(b) else min(len(a), len(b))


def op_label(h, idx):
    if idx is None:
        return None
    if idx == 0:
        return "construct"
    o = h["ops"][idx - 1]
    return "%d:%s%s" % (idx - 1, o["op"], (":" + o["what"]) if "what" in o else ("@" + o["where"]) if "where" in o else "")


def check_history(ctx, h, subprocess_too=False, count=True, other_seed=True):
    """runs the oracle on one history; returns the number of new failures."""
    n0 = len(ctx.failures) + len(ctx.disagreements)
    model = _STATE["model"]
    desc = history_desc(h)
    case = {"history": h}
    if _STATE.get("env_keys"):
        case["env_keys"] = sorted(_STATE["env_keys"])
    names = [o["op"] for o in h["ops"]]
    nontrivial = any(n in RNG_OPS for n in names) and any(n in READ_ONLY_OPS for n in names)
    if count:
        ctx.case(desc, nontrivial=nontrivial)
        ctx.count("kind:" + h["kind"])
        ctx.count("nv:%d" % h["nv"])
        for n in names:
            ctx.count("op:" + n)
    wd = os.path.join(ctx.scratch, "h%d" % ctx.evaluations)
    # every case starts from the baseline settings of the process; WITHIN the case nothing is reset: the second run (and the
    # probe run) inherit whatever the first run left behind in the process -- which, by the property, must not matter
    if proc_restore():
        ctx.count("process_settings_reset_before_case")
    probe = probe_history(h)
    p0 = Runner(probe, os.path.join(wd, "p0"), perturb=0, record_hits=False).run()
    a = Runner(h, os.path.join(wd, "a"), perturb=0).run()
    b = Runner(h, os.path.join(wd, "b"), perturb=1 + ctx.evaluations % 97).run()
    p1 = Runner(probe, os.path.join(wd, "p1"), perturb=2 + ctx.evaluations % 89, record_hits=False).run()
    # ---- reproducibility: outputs and parameters bit-identical
    d = first_diff(a.outputs, b.outputs)
    ctx.require("identically seeded runs give bit-identical outputs (numpy / random perturbed between the runs)", d is None,
                dict(case, first_differing_operation=op_label(h, d)), {"run_a": a.outputs[d] if d is not None and d < len(a.outputs) else None,
                                                                         "run_b": b.outputs[d] if d is not None and d < len(b.outputs) else None})
    d = first_diff(a.params, b.params)
    ctx.require("identically seeded runs give bit-identical parameters (initialised / trained / loaded)", d is None,
                dict(case, first_differing_operation=op_label(h, d)), "parameter digests differ")
    d = first_diff(a.rng_states, b.rng_states)
    ctx.require("identically seeded runs leave torch's generator in the same state (every continuation is reproducible)", d is None,
                dict(case, first_differing_operation=op_label(h, d)), "generator state digests differ")
    # ---- what the history left behind in the process must not reach a later seeded run
    d = first_diff(p0.outputs + p0.params, p1.outputs + p1.params)
    ctx.require(W_PROBE, d is None, dict(case, probe=probe["ops"], first_differing_probe_operation=d,
                                         settings_now_differing_from_baseline=proc_leftover()),
                {"before_the_history": (p0.outputs + p0.params)[d] if d is not None else None,
                 "after_the_history": (p1.outputs + p1.params)[d] if d is not None else None})
    for r in (a, b, p0, p1):
        for (lab, changed) in r.proc_changes[:1]:
            ctx.require(W_PROC, False, dict(case, operation=lab), {"changed": changed})
        if r.proc_changes:
            break
    for o_ in h["ops"]:
        if o_["op"] == "fault":
            ctx.count("fault:" + o_["where"].split(":")[0] + ":" + o_["exc"])
    for (lab_out) in [x for x in a.outputs if isinstance(x, list) and len(x) > 3 and x[1] == "FAULT"]:
        ctx.count("fault_outcome:" + str(lab_out[3]))
    for (idx, exc, msg) in a.raised[:3]:
        if 0 <= idx - 2 < len(h["ops"]) and h["ops"][idx - 2]["op"] == "fault":
            ctx.count("operation_raised_on_invalid_argument")       # scripted: bad_input faults (an output like any other)
            continue
        poked = any(o["op"] == "poke" for o in h["ops"][:max(idx - 2, 0)])
        # without a poke (degenerate parameter written by the harness) this never happens on the unchanged tree
        ctx.count("operation_raised_after_poke" if poked else "operation_raised")
        ctx.notes.append("operation raised %s (%s) in history %s" % (exc, msg, json.dumps(desc)))
    _STATE.setdefault("entered", set()).update(n for (entries, _h) in a.hits for n in entries)
    # ---- another seed: the generator state (hence every later draw) must depend on the seed after every operation
    if other_seed:
        h2 = dict(h, seed=h["seed"] + 1 + h["seed"] % 7,
                  ops=[dict(o, seed=o["seed"] + 3 + o["seed"] % 5) if o["op"] == "reseed" else o for o in h["ops"]])
        c = Runner(h2, os.path.join(wd, "o"), perturb=0, record_hits=False).run()
        same = [i for i, (x, y) in enumerate(zip(a.rng_states, c.rng_states)) if x == y]
        ctx.require("a different seed leaves torch's generator in a different state after every operation (later draws differ)",
                    not same, dict(case, other_seed=h2["seed"], first_differing_operation=op_label(h, same[0]) if same else None),
                    "generator state identical for two different seeds")
        first_poke = min([i for i, o in enumerate(h["ops"]) if o["op"] == "poke"] + [len(h["ops"])])
        big = [i for i, o in enumerate(h["ops"]) if o["op"] == "sample" and o["n"] * h["nv"] >= 64 and "init" not in o and i < first_poke]
        for i in big[:2]:
            ctx.require("a different seed gives different Bernoulli draws (>= 64 outcomes)", a.outputs[i + 1] != c.outputs[i + 1],
                        dict(case, other_seed=h2["seed"], operation=op_label(h, i + 1)), "samples identical")
        ctx.traces += 1
        # ---- per OPERATION: every sampling entry point executed from the same parameters under two different seeds
        s1 = h["seed"] + 11 + h["seed"] % 5
        s2 = s1 + 1 + h["seed"] % 3
        e = Runner(h, os.path.join(wd, "e"), perturb=0, record_hits=False, seed_probe=(s1, s2)).run()
        seen = set()
        for d_ in e.seed_dep:
            lab = op_label(h, d_["index"] + 1)
            pc = dict(case, operation=lab, entry_point=d_["kind"], probe_seeds=[s1, s2])
            checks = [(W_OP_RNG, True, not d_["same_rng"], "generator state after the operation identical for both seeds"),
                      (W_OP_REPEAT, True, not d_["repeat_differs"], {"differs_between_the_two_identically_seeded_executions": d_["repeat_differs"]})]
            if d_["kind"] == "fit" and d_.get("order_noted"):
                checks.append((W_OP_ORDER, (not d_["exc"]) and d_["order_bits"] >= MIN_DRAW_BITS, not d_["same_order"],
                               {"log2_distinguishable_orders_of_the_data": round(d_["order_bits"], 1)}))
            big = (not d_["exc"]) and d_["bits"] >= MIN_DRAW_BITS and d_["eff_bits"] >= MIN_DRAW_BITS
            if d_["kind"] == "batch_gradients":
                checks.append((W_OP_GRAD, (not d_["exc"]) and d_["grad_bits"] >= MIN_DRAW_BITS, not d_["same_out"],
                               {"negative_phase_rows": len(h["ops"][d_["index"]]["neg"]),
                                "log2_collision_probability_of_the_multiset_of_rows_about": -round(d_["grad_bits"], 1)}))
            elif d_["kind"] != "fit" or d_["bits"]:
                checks.append((W_OP_DRAWS, big, not d_["same_draws"],
                               {"binary_outcomes_compared": d_["bits"], "log2_collision_probability_at_most": -round(d_["eff_bits"], 1),
                                "outputs_identical_too": d_["same_out"]}))
            if d_["kind"] == "fit":
                bigf = (not d_["exc"]) and d_["fit_bits"] >= MIN_DRAW_BITS and d_["fit_eff_bits"] >= MIN_DRAW_BITS
                checks.append((W_OP_FIT, bigf, not d_["same_params"],
                               {"negative_phase_outcomes": d_["fit_bits"], "log2_collision_probability_at_most": -round(d_["fit_eff_bits"], 1)}))
            for (what, applies, ok, detail) in checks:
                tag = {W_OP_RNG: "generator", W_OP_DRAWS: "draws", W_OP_FIT: "trained_parameters", W_OP_GRAD: "gradients",
                       W_OP_REPEAT: "same_object_repeat", W_OP_ORDER: "data_order"}[what]
                if not applies:
                    ctx.count("seed_dependence:%s:%s:skipped_fewer_than_2**%d_outcomes" % (d_["kind"], tag, MIN_DRAW_BITS))
                    continue
                ctx.count("seed_dependence:%s:%s:compared" % (d_["kind"], tag))
                if ok or (what, d_["kind"]) not in seen:
                    ctx.require(what, ok, pc, detail)
                if not ok:
                    seen.add((what, d_["kind"]))
            if d_.get("system_draws_same_chains") is not None:
                # not demanded by the property (two different operations); true on the unchanged tree, recorded only
                ctx.count("System.statistics_draws_the_chains_of_Observable.statistics:" + str(bool(d_["system_draws_same_chains"])))
        ctx.traces += 1
    # ---- read-only operations leave the parameters untouched
    for r in (a, b):
        for (i, opn, what) in r.ro_changes[:1]:
            ctx.require("read-only operation leaves every parameter unchanged", False,
                        dict(case, operation="%d:%s%s" % (i, opn, (":" + what) if what else "")), "parameter bytes changed")
        if r.ro_changes:
            break
    for r in (a, b):
        for (i, hook) in r.cb_changes[:1]:
            ctx.require("callbacks (evaluators, savers, loggers, timers) leave every parameter unchanged while fit runs their hooks", False,
                        dict(case, operation="%d:fit" % i, hook=hook), "parameter bytes differ before / after the callbacks' " + hook)
        if r.cb_changes:
            break
    # ---- hits are among the predicted atoms
    if model is not None:
        for r in (a,):
            labels = ["seed", "construct"] + [op_label(h, i + 1) for i in range(len(h["ops"]))]
            for lab, (entries, hits) in zip(labels, r.hits):
                kinds = {k for (k, _n, _m) in hits}
                pred, missing = predicted_atoms(model, entries)
                if "ClockTimer" in pred:
                    pred = pred | {"Clock"}                     # the recorder cannot tell Timer's clock reads from others: by module below
                if missing:
                    ctx.disagreements.append({"what": "operation entry point not in the translated table", "case": dict(case, operation=lab),
                                              "detail": missing})
                    continue
                extra = kinds - pred
                # Clock hits are only legitimate from callbacks/timer.py
                bad_clock = [x for x in hits if x[0] == "Clock" and not x[2].endswith("callbacks.timer")]
                if extra or bad_clock:
                    ctx.disagreements.append({"what": "qucumber code hit a source the translator did not predict for this operation",
                                              "case": dict(case, operation=lab),
                                              "detail": {"hit": sorted(map(list, hits)), "predicted": sorted(pred)}})
                ctx.count("hits:" + ",".join(sorted(kinds)) if kinds else "hits:none")
    ctx.traces += 2
    # ---- a fresh interpreter with another hash seed
    if subprocess_too:
        outs = run_in_subprocess(ctx, h, wd)
        if outs is not None:
            d = first_diff(a.outputs, outs["outputs"])
            ctx.require("a fresh interpreter with another PYTHONHASHSEED gives bit-identical outputs", d is None,
                        dict(case, first_differing_operation=op_label(h, d), hashseed=outs["hashseed"]),
                        {"run_a": a.outputs[d] if d is not None and d < len(a.outputs) else None,
                         "fresh_interpreter": outs["outputs"][d] if d is not None and d < len(outs["outputs"]) else None})
            d = first_diff(a.params, outs["params"])
            ctx.require("a fresh interpreter with another PYTHONHASHSEED gives bit-identical parameters", d is None,
                        dict(case, first_differing_operation=op_label(h, d), hashseed=outs["hashseed"]), "")
            ctx.traces += 1
            ctx.count("subprocess_runs")
    return len(ctx.failures) + len(ctx.disagreements) - n0


MIN_DRAW_BITS = 20          # a comparison of draws is skipped when fewer than 2**20 outcomes are possible / likely enough
W_OP_RNG = ("a different seed leaves torch's generator in a different state after each sampling operation executed from the same "
            "parameters (per operation: sample, Observable.sample / statistics, System.statistics, ObservableEvaluator, fit)")
W_OP_DRAWS = ("a different seed yields different draws in EVERY sampling operation: executed from the same parameters after "
              "set_random_seed(s1) / set_random_seed(s2), the configurations drawn by sample or handed to the observables by "
              "Observable.sample / statistics, System.statistics, ObservableEvaluator (directly and inside fit) differ (compared "
              "only when at least 2**20 outcomes are possible and the state's own distribution makes a coincidence less likely than 2**-20)")
W_OP_FIT = ("a different seed yields different shuffling / negative-phase draws in fit: from the same parameters, the trained "
            "parameters under set_random_seed(s1) / set_random_seed(s2) differ (lr > 0, at least 2**20 negative-phase outcomes)")
W_OP_REPEAT = ("on ONE long-lived state object, set_random_seed(s) followed by the same sampling operation from the same parameters gives "
               "bit-identical outputs, draws, trained parameters, data order and generator state when repeated (nothing that the object "
               "or the library keeps between calls survives the seeding call)")
W_OP_ORDER = ("a different seed yields a different order of the training data in fit (the batches fit hands to the state's "
              "compute_batch_gradients, from the same parameters under set_random_seed(s1) / (s2); compared only when the rows admit at "
              "least 2**20 distinguishable orders)")
W_OP_GRAD = ("a different seed yields different negative-phase draws in compute_batch_gradients: from the same parameters and "
             "arguments the gradients under set_random_seed(s1) / set_random_seed(s2) differ (compared only when the multiset of "
             "negative-phase rows coincides with probability below about 2**-20 under the state's own distribution)")
W_PROBE = ("a seeded run gives bit-identical outputs before and after the history ran in the same process (nothing a history leaves "
           "behind -- e.g. after an exception inside a user callback / metric / observable -- may reach later seeded runs)")
W_PROC = ("every library call leaves the process-wide settings as it found them (torch default dtype / device / threads / deterministic "
          "switches, numpy error state, warnings filters, environment, module-level globals of the package), also when it ends with "
          "an exception")


def probe_history(h):
    """a short seeded run (draws with the default initial state, statistics, training) executed before and after the history"""
    data = _STATE.setdefault("probe_data", {})
    nv = h["nv"]
    if nv not in data:
        import numpy as np
        g = np.random.Generator(np.random.PCG64(nv))
        data[nv] = (g.integers(0, 2, size=(6, nv)).astype(float).tolist(),
                    [["Z"] * nv] * 3 + [[str(c) for c in g.choice(["X", "Y", "Z"], size=nv)] for _ in range(3)])
    fit = {"op": "fit", "data": data[nv][0], "bases": data[nv][1], "epochs": 1, "pbs": 3, "nbs": 0, "k": 1, "lr": 0.1, "optimizer": "SGD",
           "time": False, "callbacks": ["none"], "extra_callbacks": [], "scheduler": False}
    return {"kind": h["kind"], "nv": nv, "nh": h["nh"], "na": h.get("na", 1), "seed": h["seed"], "seed_flags": {"cpu": True, "gpu": False},
            "ops": [{"op": "sample", "k": 2, "n": 20},
                    {"op": "statistics", "obs": ["SigmaZ"], "A": [0], "k": 1, "n": 6, "chains": 3, "burn_in": 2, "steps": 1}, fit,
                    {"op": "sample", "k": 1, "n": 8}]}


def run_in_subprocess(ctx, h, wd):
    os.makedirs(wd, exist_ok=True)
    f = os.path.join(wd, "hist.json")
    with open(f, "w") as fh:
        json.dump(h, fh)
    hs = 1 + (ctx.seed * 131 + ctx.evaluations * 17) % 4000
    env = dict(os.environ, PYTHONHASHSEED=str(hs), PYTHONPATH=common.REPO, VERIF_REPO=common.REPO)
    r = subprocess.run([sys.executable, "-B", os.path.abspath(__file__), "--exec", f, os.path.join(wd, "c")],
                       capture_output=True, text=True, env=env, timeout=300)
    if r.returncode != 0:
        ctx.notes.append("subprocess run failed: " + (r.stderr or "")[-400:])
        ctx.count("subprocess_failed")
        return None
    out = json.loads(r.stdout.strip().split("\n")[-1])
    out["hashseed"] = hs
    return out


def check_seed_pair(ctx, kind, nv, nh, s1, s2):
    """two different seeds give different draws: randn-initialised weights and 64+ Bernoulli outcomes.
    Seeds congruent modulo 2**32 are reported under the known-findings key (torch's CPU generator keeps 32 bits)."""
    h1 = {"kind": kind, "nv": nv, "nh": nh, "na": 2, "seed": s1, "seed_flags": {"cpu": True, "gpu": False},
          "ops": [{"op": "sample", "k": 2, "n": max(16, 64 // nv + 1)}]}
    h2 = dict(h1, seed=s2)
    wd = os.path.join(ctx.scratch, "s%d" % ctx.evaluations)
    a = Runner(h1, wd, record_hits=False).run()
    b = Runner(h2, wd, record_hits=False).run()
    congruent = (s1 - s2) % (2 ** 32) == 0
    case = {"history": h1, "other_seed": s2, "seeds": [s1, s2], "seeds_congruent_mod_2_32": bool(congruent)}
    ctx.case({"seed_pair": [s1, s2], "kind": kind, "nv": nv, "nh": nh}, nontrivial=not congruent)
    ctx.count("seed_pair:" + ("congruent_mod_2**32" if congruent else "distinct_mod_2**32"))
    differ = (a.outputs[1] != b.outputs[1]) and (a.params[0] != b.params[0])
    ctx.require("a different seed yields different draws", differ, case,
                {"weights_identical": a.params[0] == b.params[0], "samples_identical": a.outputs[1] == b.outputs[1]})
    ctx.traces += 2


def check_reseed_restarts(ctx, seed):
    """seeding twice with the same seed after consuming randomness restarts the stream (set_random_seed overwrites the generator)."""
    import torch, qucumber
    case = {"seed": seed}
    qucumber.set_random_seed(seed, quiet=True)
    x = torch.rand(5)
    torch.rand(int(seed % 13) + 1)
    qucumber.set_random_seed(seed, quiet=True)
    y = torch.rand(5)
    ctx.require("set_random_seed overwrites the torch generator state", bool(torch.equal(x, y)), case, "")


def seed_pairs(rng):
    """pairs of DIFFERENT seeds from every regime (small, across 2**31, beyond 32 bits, negative) + one congruent pair."""
    s = int(rng.integers(1, 2 ** 31 - 1))
    t = int(rng.integers(1, 2 ** 31 - 1))
    return [(s, s + 2 ** 31), (2 ** 31 - 1, 2 ** 31), (t, t + 2 ** 31 + 2 ** 35), (s, -s), (-t, -t - 2 ** 31),
            (s, s + 1), (t + 2 ** 40, t + 2 ** 40 + 2 ** 31), (0, 2 ** 31),
            (s, s + 2 ** 32)]           # the last one is the known finding F-C14-seed-mod-2-32


def fixed_histories():
    """regimes that must be exercised in every run, before the random stream: numeric fit(time=...), degenerate parameters."""
    data = [[0.0, 1.0, 1.0], [1.0, 0.0, 1.0], [1.0, 1.0, 0.0], [0.0, 0.0, 1.0], [1.0, 1.0, 1.0], [0.0, 1.0, 0.0], [1.0, 0.0, 0.0], [0.0, 0.0, 0.0]]
    bases = [["Z", "Z", "Z"], ["Z", "Z", "Z"], ["X", "Z", "Y"], ["Z", "X", "Z"], ["Y", "Y", "Z"], ["Z", "Z", "X"], ["X", "X", "X"], ["Z", "Y", "Z"]]
    fit = {"op": "fit", "data": data, "bases": bases, "epochs": 2, "pbs": 3, "nbs": 0, "k": 1, "lr": 0.1, "optimizer": "SGD",
           "time": 5.0, "callbacks": ["none"], "extra_callbacks": [], "scheduler": False}
    smp = {"op": "sample", "k": 2, "n": 24}
    stat = {"op": "statistics", "obs": ["SigmaX"], "A": [0], "k": 1, "n": 6, "chains": 0, "burn_in": 2, "steps": 1}
    ev = {"op": "evaluate", "what": "probability", "num": 1}
    out = []
    grad = {"op": "gradient", "what": "batch", "samples": data[:4], "neg": data[4:], "bases": bases[:4], "k": 1}
    met = {"op": "metric", "what": "NLL", "target_seed": 1, "bases": ["XZZ", "ZZY"], "samples": data[:4], "sample_bases": bases[:4]}
    rot = {"op": "rotate", "what": "inner_prod_or_probs", "target_seed": 2, "basis": ["X", "Z", "Y"], "states": data[:3]}
    sysst = {"op": "system_statistics", "obs": ["SigmaZ", "SWAP"], "A": [0], "k": 1, "n": 6, "chains": 3, "burn_in": 2, "steps": 1}
    fit_cb = dict(fit, time=7, epochs=2, callbacks=["both"], extra_callbacks=["early", "logger", "saver"], lr=0.05)

    def hook(which, epoch=1):
        return {"op": "callback_hook", "which": which, "epoch": epoch, "samples": data[:6]}
    for j, kind in enumerate(KINDS):
        # degenerate parameter entries written by the harness: moderately large, NaN, beyond every sane bound
        pk = [{"op": "poke", "net": ("rbm_am", "rbm_ph", "rbm_am")[(j + q) % 3], "param": q, "index": 1 + q, "value": v}
              for q, v in enumerate(("75.0", "nan", "1e300", "-1e12"))]
        # history 1: clock-independent training (numeric time, explicit Timer with every unknown option switched on), then
        # every class of read-only operation on ordinary parameters, after a large entry and after a NaN entry
        out.append({"kind": kind, "nv": 3, "nh": 2, "na": 2, "seed": 2 ** 31 + 77, "seed_flags": {"cpu": True, "gpu": True},
                    "ops": [fit, smp, hook("metric"), hook("list", 2), pk[0], smp, stat, ev, {"op": "save", "metadata": True}, grad,
                            pk[1], {"op": "save", "metadata": False}, ev, smp, stat, met, hook("metric"), hook("early", 2), rot]})
        # history 2: training with the evaluator, stopper, logger and saver callbacks sandwiched between parameter probes; huge
        # entries (beyond any clamp), then sampling / statistics / hooks / gradients; a NaN entry, hooks and training again
        out.append({"kind": kind, "nv": 3, "nh": 2, "na": 2, "seed": 977 + j, "seed_flags": {},
                    "ops": [fit_cb, pk[2], smp, stat, hook("observable"), pk[3], smp, sysst, grad, {"op": "save", "metadata": True}, ev,
                            hook("saver"), hook("logger"), smp, pk[1], hook("list"), fit_cb, met]})
    return out


def seed_dependence_histories():
    """per state kind: EVERY sampling entry point with enough draws for the per-operation comparison under two seeds (sample with the
    default and with a given start, Observable.sample / statistics, System.statistics with one and with several time steps, the
    ObservableEvaluator called directly and inside fit -- once with lr = 0, so that both seeds evaluate the same parameters --,
    fit's own shuffling / negative phase), on fresh and on trained parameters."""
    data = [[0.0, 1.0, 1.0], [1.0, 0.0, 1.0], [1.0, 1.0, 0.0], [0.0, 0.0, 1.0], [1.0, 1.0, 1.0], [0.0, 1.0, 0.0], [1.0, 0.0, 0.0], [0.0, 0.0, 0.0]]
    bases = [["Z", "Z", "Z"], ["Z", "Z", "Z"], ["X", "Z", "Y"], ["Z", "X", "Z"], ["Y", "Y", "Z"], ["Z", "Z", "X"], ["X", "X", "X"], ["Z", "Y", "Z"]]
    fit = {"op": "fit", "data": data, "bases": bases, "epochs": 2, "pbs": 3, "nbs": 4, "k": 2, "lr": 0.05, "optimizer": "SGD",
           "time": False, "callbacks": ["obs"], "extra_callbacks": [], "scheduler": False, "eval_n": 24}
    out = []
    data3, bases3, fit3 = data, bases, fit
    for j, kind in enumerate(KINDS):
        nv = 3 if kind == "density" else 4              # 4 sites: a sum over 64 negative-phase rows can take >= 2**20 values
        data = [r + r[:nv - 3] for r in data3]
        bases = [r + ["Z"] * (nv - 3) for r in bases3]
        fit = dict(fit3, data=data, bases=bases)
        obs = [["SigmaZ"], ["SigmaX"], ["Neighbour"]][j]
        st_kw = {"obs": obs, "A": [0], "k": 2, "n": 30, "chains": 10, "burn_in": 3, "steps": 1}
        ops = [{"op": "sample", "k": 2, "n": 24},
               dict(st_kw, op="system_statistics", obs=obs + ["SWAP"]),
               dict(st_kw, op="statistics"),
               dict(st_kw, op="obs_sample"),
               {"op": "callback_hook", "which": "observable", "epoch": 1, "samples": data[:6], "eval_n": 24},
               fit,
               dict(fit, lr=0.0, epochs=1, callbacks=["both"]),
               dict(st_kw, op="system_statistics", chains=0, n=16),
               {"op": "sample", "k": 1, "n": 12, "init": (data + data)[:12], "overwrite": bool(j % 2)},
               {"op": "callback_hook", "which": "list", "epoch": 2, "samples": data[:6], "eval_n": 12},
               dict(st_kw, op="statistics", chains=0, n=12, obs=["Sum"]),
               {"op": "sample", "k": 2, "n": 16, "init": (data + data)[:16], "overwrite": False, "rbm_level": True},
               {"op": "gradient", "what": "batch", "samples": data[:4], "neg": (data * 8)[:64], "bases": bases[:4], "k": 2}]
        out.append({"kind": kind, "nv": nv, "nh": 2, "na": 2, "seed": 31337 + 5 * j, "seed_flags": {"cpu": True, "gpu": False}, "ops": ops})
    return out


def fault_histories():
    """FAULT followed by ordinary operations, per state kind: every kind of user-supplied callable (and every kind of invalid
    argument) fails once, as an ordinary exception and as a KeyboardInterrupt (alternating with the state kind); before and after
    every fault the history draws with the default initial state / evaluates statistics, so that whatever the aborted call left
    behind shows up in the comparison of the two identically seeded runs (the second run and the probe inherit it)."""
    data = [[0.0, 1.0, 1.0], [1.0, 0.0, 1.0], [1.0, 1.0, 0.0], [0.0, 0.0, 1.0], [1.0, 1.0, 1.0], [0.0, 1.0, 0.0], [1.0, 0.0, 0.0], [0.0, 0.0, 0.0]]
    bases = [["Z", "Z", "Z"], ["Z", "Z", "Z"], ["X", "Z", "Y"], ["Z", "X", "Z"], ["Y", "Y", "Z"], ["Z", "Z", "X"], ["X", "X", "X"], ["Z", "Y", "Z"]]
    smp = {"op": "sample", "k": 2, "n": 24}
    stat = {"op": "statistics", "obs": ["SigmaX"], "A": [0], "k": 1, "n": 6, "chains": 0, "burn_in": 2, "steps": 1}
    sysst = {"op": "system_statistics", "obs": ["SigmaZ", "SWAP"], "A": [0], "k": 1, "n": 6, "chains": 3, "burn_in": 2, "steps": 1}
    out = []
    for j, kind in enumerate(KINDS):
        ops = [smp, stat]
        for q, where in enumerate(FAULT_WHERE):
            exc = ("error", "interrupt")[(q + j) % 2]
            ops.append(fault_op(where, exc, 1 + (q + j) % 3, data, bases, epochs=2 + (q + j) % 2, pbs=3 + q % 3))
            ops.append((smp, stat, sysst)[q % 3])
        out.append({"kind": kind, "nv": 3, "nh": 2, "na": 2, "seed": 4242 + 17 * j, "seed_flags": {"cpu": True, "gpu": False}, "ops": ops})
    return out


# =============================================================================== entry points
def static_report(ctx):
    st = _STATE["static"] or {}
    model = _STATE["model"]
    if model is not None:
        ctx.extra["effect_table"] = {"functions": len(model["functions"]), "digest": model["digest"],
                                     "param_attrs": model["param_attrs"],
                                     "ops": {k: len(v) for k, v in model["ops"].items()},
                                     "translate_s": st.get("translate_s")}
    for line in st.get("log", []):
        ctx.notes.append(line)
    viol = st.get("violations", [])
    ctx.extra["static_violations"] = viol[:10]
    coq_ok = bool(ctx.coq and ctx.coq.get("ok"))
    if viol and coq_ok:
        ctx.disagreements.append({"what": "python mirror of the theorems finds a forbidden atom but coqc accepted props/C14.v",
                                  "case": {}, "detail": viol[:3]})
    if (not viol) and (not coq_ok) and not st.get("log"):
        ctx.notes.append("coqc rejected props/C14.v although the python mirror finds no forbidden atom")
    if viol:
        v = viol[0]
        ctx.coq["log"] = ctx.coq.get("log", "")[-1500:] + ("\neffect model: %s reaches %s via %s (%s) — theorem '%s' for class %s" %
                                                             (v["root"], v["atom"], " -> ".join(v["path"]), v["where"], v["theorem"], v["class"]))
    return viol


def weights_for(viol):
    """bias the grammar towards the operations named by the broken theorem."""
    w = dict(OP_WEIGHTS)
    boost = {"fit": ["fit"], "sample": ["sample", "obs_sample", "statistics"], "statistics": ["statistics", "system_statistics"],
             "observable": ["obs_sample", "statistics", "system_statistics"], "metric": ["metric"], "rotation": ["rotate", "metric"],
             "save": ["save"], "gradient": ["gradient", "fit"], "eval": ["evaluate", "metric", "sample"], "kernel": ["metric", "rotate"],
             "init": ["reinit"], "seed": ["reseed"], "load": ["load", "autoload", "save"], "data": ["fit"]}
    for v in viol[:20]:
        for o in boost.get(v.get("class"), []):
            w[o] = w.get(o, 1.0) * 1.5
    if any("process-wide setting" in str(v.get("where")) for v in viol):
        w["fault"] = w.get("fault", 1.0) * 4          # a setting that is not restored on every path: look for the path
    return w


def run(ctx):
    try:
        if ctx.thorough and ctx.coq and ctx.coq.get("ok") and "coqchk_ok" not in ctx.extra:
            # still under the lock: coqchk reads generated/EffectsGen.vo.  Once only: the thorough tier's second (no_grad) pass calls
            # run() again AFTER the lock was released, and a concurrent run on another tree may be rewriting generated/ by then
            _coqchk(ctx)
    finally:
        _release_lock()
    viol = static_report(ctx)
    import torch
    rng = ctx.rng
    t0 = time.time()
    budget = 300.0 if ctx.thorough else 34.0
    max_hist = 500 if ctx.thorough else 60
    min_hist = 12 if ctx.thorough else 6          # the time budget may cut the random stream, but never below this
    n_sub = 6 if ctx.thorough else 2
    # ---- fixed cases first, the most discriminating ones at the very start (no time budget applies to them): histories with
    # numeric fit(time=...), explicit Timer, degenerate parameter values followed by every class of read-only operation and by
    # the callbacks' hooks; then seed pairs from every regime and re-seeding
    pairs = seed_pairs(rng)
    proc_baseline()
    for h in seed_dependence_histories():
        check_history(ctx, h)
        ctx.count("fixed_seed_dependence_history")
    for h in fault_histories():
        check_history(ctx, h)
        ctx.count("fixed_fault_history")
    ctx.extra["fault_histories_s"] = round(time.time() - t0, 1)
    fixed = fixed_histories()
    for h in fixed:
        check_history(ctx, h)
        ctx.count("fixed_history")
    ctx.extra["fixed_histories_s"] = round(time.time() - t0, 1)
    for j, (s1, s2) in enumerate(pairs * (2 if ctx.thorough else 1)):
        kind = KINDS[j % 3]
        check_seed_pair(ctx, kind, 3 if kind == "density" else 2 + j % 3, 1 + j % 4, s1, s2)
    check_reseed_restarts(ctx, pairs[0][0])
    check_reseed_restarts(ctx, pairs[0][1])
    ctx.extra["fixed_cases_s"] = round(time.time() - t0, 1)
    t0r = time.time()
    weights = weights_for(viol) if viol else None
    i = 0
    while i < max_hist and (time.time() - t0r < budget or i < min_hist):
        kind = KINDS[i % 3] if i < 6 else None
        h = gen_history(rng, ctx.thorough, weights, kind)
        check_history(ctx, h, subprocess_too=(i < n_sub))
        i += 1
        if len(ctx.failures) >= 3:
            break
    ctx.extra["histories"] = i
    ctx.extra["dynamic_s"] = round(time.time() - t0, 1)
    proc_restore()
    # ---- informational: which public read-only roots of the table were entered directly by the grammar
    model = _STATE["model"]
    if model is not None:
        by_id = {f["id"]: f["name"] for f in model["functions"]}
        entered = _STATE.get("entered", set())
        never = sorted(by_id[i] for k in ("sample", "statistics", "observable", "metric", "rotation", "save", "gradient", "eval", "data")
                       for i in model["ops"][k] if by_id[i] not in entered)
        ctx.extra["read_only_roots_entered_directly"] = len(entered)
        ctx.extra["read_only_roots_only_reached_indirectly"] = never[:80]
        ctx.extra["empty_operation_classes"] = sorted(k for k, v in model["ops"].items() if not v)


def search(ctx, broken, budget):
    """proof or correspondence broke and run() saw no failing input: more histories, biased towards the operations the
    broken theorem names, each also run in a fresh interpreter with another hash seed."""
    viol = (_STATE["static"] or {}).get("violations", [])
    weights = weights_for(viol + viol)
    t0 = time.time()
    budget = min(budget, 240 if ctx.thorough else 75)
    n0 = len(ctx.failures)
    wants_hash = any(v.get("atom") in ("SetIteration", "Environ") for v in viol)
    # focus on the function the broken theorem names
    kind = None
    for v in viol:
        leaf = v["path"][-1].rsplit(".", 1)[-1]
        if leaf in ("KL", "NLL", "fidelity", "_single_basis_KL"):
            _STATE["metric_bias"] = {"KL": "KL_bases", "NLL": "NLL_bases", "fidelity": "fidelity", "_single_basis_KL": "KL_bases"}[leaf]
            weights["metric"] = weights.get("metric", 1.0) * 8
            kind = "complex"
            break
    i = 0
    while time.time() - t0 < budget:
        h = gen_history(ctx.rng, True, weights, kind if i % 3 else None)
        check_history(ctx, h, subprocess_too=(wants_hash or i % 6 == 0), count=False)
        ctx.evaluations += 1
        i += 1
        if len(ctx.failures) > n0:
            return ctx.failures[n0]
    ctx.extra["search_histories"] = i
    return None


def shrink(ctx, rec):
    """drop operations from the failing history while the same oracle keeps failing."""
    case = rec.get("case", {})
    h = case.get("history")
    if not h or "seeds" in case:
        return rec
    what = rec["what"]
    t0 = time.time()

    def fails(hh):
        saved = (ctx.failures, ctx.disagreements, ctx.known_hits, ctx.evaluations, ctx.traces, dict(ctx.hist))
        ctx.failures, ctx.disagreements, ctx.known_hits = [], [], []
        try:
            check_history(ctx, hh, subprocess_too=("PYTHONHASHSEED" in what), count=False, other_seed=("different seed" in what or "long-lived" in what))
            got = [f for f in ctx.failures if f["what"] == what]
        except Exception:
            got = []
        finally:
            fl = got
            ctx.failures, ctx.disagreements, ctx.known_hits, ctx.evaluations, ctx.traces, ctx.hist = saved
        return fl[0] if fl else None
    best = rec
    ops = list(h["ops"])
    j = len(ops) - 1
    while j >= 0 and time.time() - t0 < 40:
        trial = dict(h, ops=ops[:j] + ops[j + 1:])
        r = fails(trial)
        if r is not None:
            ops = trial["ops"]
            best = r
        j -= 1
    return best


def replay(ctx, rec):
    _release_lock()
    static_report(ctx)
    f = rec.get("failing") or {}
    case = f.get("case", {})
    h = case.get("history")
    if not h:
        print("replay: the record names no history (static obligation only): %s" % json.dumps(rec.get("no_longer_checks", rec.get("broken")), default=str)[:600])
        return
    print("replay of history", json.dumps(history_desc(h)))
    if case.get("env_keys"):
        _STATE.setdefault("env_keys", set()).update(case["env_keys"])
    if "seeds" in case:
        check_seed_pair(ctx, h["kind"], h["nv"], h["nh"], case["seeds"][0], case["seeds"][1])
    elif "other_seed" in case and "ops" not in h:
        check_reseed_restarts(ctx, h["seed"])
    else:
        check_history(ctx, h, subprocess_too=("hashseed" in case))


# =============================================================================== subprocess executor
def _exec_main(argv):
    hist = json.load(open(argv[0]))
    common.setup_repo_import()
    r = Runner(hist, argv[1], perturb=3, record_hits=False).run()
    sys.stdout.write("\n" + json.dumps({"outputs": r.outputs, "params": r.params}) + "\n")


if __name__ == "__main__":
    if len(sys.argv) >= 4 and sys.argv[1] == "--exec":
        _exec_main(sys.argv[2:])
