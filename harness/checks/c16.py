"""C16 — Composite observables evaluate to the same arithmetic on their parts.

Every case is an expression tree over real built-in observables (SigmaX/Y/Z, NeighbourInteraction, SWAP),
Python scalars (int, float, bool, numpy.float64; 0, negatives) and - in the rejection stream - non-numeric
operands.  The tree is evaluated bottom-up with the REAL Python operators (operator.neg/add/sub/mul) on the
real objects, so Python's own dispatch (__op__ / reflected __rop__) and the library's constructors run.

Oracle (independent of the code under test): a numpy interpreter of the same tree over the leaves' own
`apply` values; one-pass numpy statistics of those values; a syntactic predicate written here in Python
saying which trees must be rejected.
Correspondence: accept/reject verdict, canonical shape of the built object (read from .left/.right of the real
objects), apply values and statistics vs the extracted Coq model (ObsExpr.build/apply/statistics_from_samples)."""
import math, operator, time
import numpy as np
import gen

RULE = ("groups = (state type in positive/complex/density-matrix, nv 2..4, random parameters from harness/gen.py, "
        "a random 0/1 batch of 2..8 (thorough ..12) samples, 2..5 leaf observables drawn from SigmaX/Y/Z(absolute?), "
        "NeighbourInteraction(periodic?, c), SWAP(A)); per group several expression trees of depth <= 4 (quick) / <= 6 "
        "(thorough) from three streams: 'linear' (directed grammar producing accepted trees: scalars on either side, "
        "nested -, +, -, *), 'defect' (a linear tree with one injected obs*obs product or non-numeric operand "
        "str/None/list/complex/dict/tuple next to an observable-valued sibling), 'random' (undirected grammar); "
        "plus direct constructor calls. Scalars: int -5..5, floats, 0, negatives, bool, numpy.float64. "
        "non-trivial := accepted tree with >= 2 operators, >= 1 scalar and >= 1 leaf whose values vary over the batch, "
        "or a rejected tree whose defect sits below at least one other operator")
ASSUMPTIONS = [
    "the built-in leaf observables' apply is deterministic in (state, samples) (checked: leaves are re-applied)",
    "non-numeric operand combined with a scalar or another non-numeric operand never reaches the library "
    "(Python itself raises or computes it); such sub-trees are not generated and the model maps them to TypeError",
    "numpy.int64 / numpy.float32 / ndarray / tensor operands are outside the property (not int/float subclasses) and not generated",
]

OPS = {"add": operator.add, "sub": operator.sub, "mul": operator.mul}
SYM = {"add": "+", "sub": "-", "mul": "*"}
JUNK_KINDS = ["str", "none", "list", "complex", "dict", "tuple"]


# ------------------------------------------------------------------------------------ trees
def mk_scalar(t, v):
    if t == "int":
        return int(v)
    if t == "bool":
        return bool(v)
    if t == "f64":
        return np.float64(v)
    return float(v)


def mk_junk(k):
    return {"str": "sigma", "none": None, "list": [1.0, 2.0], "complex": 1 + 2j, "dict": {}, "tuple": (1.0,)}[k]


def rand_scalar(rng):
    t = str(rng.choice(["int", "float", "bool", "f64"], p=[0.35, 0.3, 0.1, 0.25]))
    if t == "int":
        v = int(rng.choice([0, 1, -1, 2, -2, 3, -3, 5, -5, 4], p=[0.16, 0.1, 0.14, 0.1, 0.1, 0.1, 0.1, 0.05, 0.05, 0.1]))
    elif t == "bool":
        v = bool(rng.integers(0, 2))
    else:
        u = rng.random()
        if u < 0.1:
            v = 0.0
        elif u < 0.2:
            v = float(rng.choice([0.5, -0.5, 1.0, -1.0, 2.5, -1.5]))
        else:
            v = float(np.round(rng.normal() * 2.0, 6))
    return ["const", t, v]


def gen_const(rng, d):
    if d <= 0 or rng.random() < 0.8:
        return rand_scalar(rng)
    k = str(rng.choice(["neg", "add", "sub", "mul"]))
    if k == "neg":
        return ["neg", gen_const(rng, d - 1)]
    return [k, gen_const(rng, d - 1), gen_const(rng, d - 1)]


def gen_lin(rng, d, nleaf):
    """an accepted tree that denotes an observable (contains a leaf)"""
    if d <= 0 or rng.random() < 0.12:
        return ["leaf", int(rng.integers(0, nleaf))]
    k = str(rng.choice(["neg", "add", "sub", "mul"], p=[0.15, 0.25, 0.3, 0.3]))
    if k == "neg":
        return ["neg", gen_lin(rng, d - 1, nleaf)]
    if k == "mul":
        c = gen_const(rng, min(d - 1, 2))
        o = gen_lin(rng, d - 1, nleaf)
        return ["mul", c, o] if rng.random() < 0.5 else ["mul", o, c]
    o = gen_lin(rng, d - 1, nleaf)
    u = rng.random()
    other = gen_lin(rng, d - 1, nleaf) if u < 0.5 else gen_const(rng, min(d - 1, 2))
    return [k, o, other] if rng.random() < 0.5 else [k, other, o]


def obs_positions(t, path=()):
    """paths of the sub-trees that denote observables (contain a leaf)"""
    out = []
    if contains_leaf(t):
        out.append(path)
    if t[0] == "neg":
        out += obs_positions(t[1], path + (1,))
    elif t[0] in OPS:
        out += obs_positions(t[1], path + (1,)) + obs_positions(t[2], path + (2,))
    return out


def replace_at(t, path, new):
    if not path:
        return new
    t = list(t)
    t[path[0]] = replace_at(t[path[0]], path[1:], new)
    return t


def gen_defect(rng, d, nleaf):
    base = gen_lin(rng, d, nleaf)
    pos = obs_positions(base)
    # positions deep enough to leave room for the defect node
    cand = [p for p in pos if len(p) <= d - 1] or [()]
    p = cand[int(rng.integers(0, len(cand)))]
    room = max(0, d - len(p) - 1)
    which = str(rng.choice(["obsobs", "junk"], p=[0.45, 0.55]))
    if which == "obsobs":
        node = ["mul", gen_lin(rng, min(room, 2), nleaf), gen_lin(rng, min(room, 2), nleaf)]
        tagd = "obs*obs"
    else:
        jk = str(rng.choice(JUNK_KINDS))
        op = str(rng.choice(["add", "sub", "mul"]))
        sib = gen_lin(rng, min(room, 2), nleaf)
        node = [op, ["junk", jk], sib] if rng.random() < 0.5 else [op, sib, ["junk", jk]]
        tagd = "junk:" + jk + (":left" if node[1][0] == "junk" else ":right") + ":" + op
    return replace_at(base, p, node), tagd, len(p)


def gen_random(rng, d, nleaf):
    """undirected grammar; a junk operand only next to a sibling that contains a leaf"""
    if d <= 0 or rng.random() < 0.15:
        return ["leaf", int(rng.integers(0, nleaf))] if rng.random() < 0.6 else rand_scalar(rng)
    u = rng.random()
    if u < 0.12:
        return ["neg", gen_random(rng, d - 1, nleaf)]
    op = str(rng.choice(["add", "sub", "mul"], p=[0.35, 0.35, 0.3]))
    if u < 0.2:
        sib = with_leaf(rng, d - 1, nleaf)
        j = ["junk", str(rng.choice(JUNK_KINDS))]
        return [op, j, sib] if rng.random() < 0.5 else [op, sib, j]
    return [op, gen_random(rng, d - 1, nleaf), gen_random(rng, d - 1, nleaf)]


def with_leaf(rng, d, nleaf):
    t = gen_random(rng, d, nleaf)
    if contains_leaf(t):
        return t
    return ["leaf", int(rng.integers(0, nleaf))]


def contains_leaf(t):
    if t[0] == "leaf":
        return True
    if t[0] in ("const", "junk"):
        return False
    return any(contains_leaf(c) for c in t[1:])


def depth(t):
    return 0 if t[0] in ("leaf", "const", "junk") else 1 + max(depth(c) for c in t[1:])


def n_ops(t):
    return 0 if t[0] in ("leaf", "const", "junk") else 1 + sum(n_ops(c) for c in t[1:])


def n_consts(t):
    if t[0] == "const":
        return 1
    if t[0] in ("leaf", "junk"):
        return 0
    return sum(n_consts(c) for c in t[1:])


def leaves_of(t):
    if t[0] == "leaf":
        return {t[1]}
    if t[0] in ("const", "junk"):
        return set()
    s = set()
    for c in t[1:]:
        s |= leaves_of(c)
    return s


def must_reject(t):
    """the property's syntactic predicate, written independently of the model:
    an operator applied to a non-numeric operand, or a product of two sub-trees that both contain a leaf"""
    if t[0] in ("leaf", "const", "junk"):
        return False
    kids = t[1:]
    if any(c[0] == "junk" for c in kids):
        return True
    if any(must_reject(c) for c in kids):
        return True
    return t[0] == "mul" and contains_leaf(kids[0]) and contains_leaf(kids[1])


def show(t, names):
    k = t[0]
    if k == "leaf":
        return names[t[1]]
    if k == "const":
        return {"int": "%d", "bool": "%s", "f64": "np.float64(%r)", "float": "%r"}[t[1]] % (t[2],)
    if k == "junk":
        return repr(mk_junk(t[1]))
    if k == "neg":
        return "-(" + show(t[1], names) + ")"
    return "(" + show(t[1], names) + " " + SYM[k] + " " + show(t[2], names) + ")"


def enc_tree(t):
    k = t[0]
    if k == "leaf":
        return [0, t[1]]
    if k == "const":
        return [1, float(mk_scalar(t[1], t[2]))]
    if k == "junk":
        return [2]
    if k == "neg":
        return [3, enc_tree(t[1])]
    return [{"add": 4, "sub": 5, "mul": 6}[k], enc_tree(t[1]), enc_tree(t[2])]


def real_eval(t, leaves):
    """bottom-up evaluation with the real Python operators on the real objects (left operand first)"""
    k = t[0]
    if k == "leaf":
        return leaves[t[1]]
    if k == "const":
        return mk_scalar(t[1], t[2])
    if k == "junk":
        return mk_junk(t[1])
    if k == "neg":
        return operator.neg(real_eval(t[1], leaves))
    a = real_eval(t[1], leaves)
    b = real_eval(t[2], leaves)
    return OPS[k](a, b)


def interp(t, vals):
    """reference semantics: numpy arithmetic on the leaves' own per-sample values; also a magnitude bound"""
    k = t[0]
    if k == "leaf":
        v = vals[t[1]]
        return v, np.abs(v)
    if k == "const":
        q = float(mk_scalar(t[1], t[2]))
        return q, abs(q)
    if k == "neg":
        v, m = interp(t[1], vals)
        return -v, m
    (a, ma), (b, mb) = interp(t[1], vals), interp(t[2], vals)
    if k == "add":
        return a + b, ma + mb
    if k == "sub":
        return a - b, ma + mb
    return a * b, ma * mb


# ------------------------------------------------------------------------------------ real objects
def ser_obj(x, ids):
    """canonical serialisation of a built object from its real fields .left / .right"""
    from qucumber.observables.observable import SumObservable, ProdObservable, ObservableBase
    if isinstance(x, SumObservable):
        return [1, ser_obj(x.left, ids), ser_obj(x.right, ids)]
    if isinstance(x, ProdObservable):
        return [2, ser_obj(x.left, ids), ser_obj(x.right, ids)]
    if isinstance(x, ObservableBase):
        return [0, ids.get(id(x), -1)]
    if isinstance(x, (int, float)):
        return [3, float(x)]
    return [9, type(x).__name__]


def canon_model_shape(s):
    """model: [0 i] | [1 l r] | [2 c o] | [3 q]  ->  same layout as ser_obj (ProdObservable.left is the scalar)"""
    tag = int(s[0])
    if tag == 0:
        return [0, int(s[1])]
    if tag == 1:
        return [1, canon_model_shape(s[1]), canon_model_shape(s[2])]
    if tag == 2:
        return [2, [3, float(s[1])], canon_model_shape(s[2])]
    return [3, float(s[1])]


def shape_eq(a, b):
    if a[0] != b[0] or len(a) != len(b):
        return False
    if a[0] == 3:
        return a[1] == b[1] or math.isclose(a[1], b[1], rel_tol=1e-12, abs_tol=0.0)
    if a[0] in (0, 9):
        return a[1] == b[1]
    return all(shape_eq(x, y) for x, y in zip(a[1:], b[1:]))


class SubCtx:
    """a per-group generator context (own PRNG, shared histogram) so that a group can be regenerated alone"""
    def __init__(self, ctx, key):
        self.rng = np.random.Generator(np.random.PCG64(key))
        self._ctx = ctx

    def count(self, k, n=1):
        self._ctx.count(k, n)


def make_group(ctx, gkey):
    """state + batch + leaf observables + the leaves' own apply values, all determined by gkey"""
    import torch
    from qucumber.observables import SigmaX, SigmaY, SigmaZ, NeighbourInteraction, SWAP
    sub = SubCtx(ctx, gkey)
    rng = sub.rng
    torch.manual_seed(int(rng.integers(0, 2 ** 31 - 1)))
    kind = str(rng.choice(["positive", "complex", "dm"]))
    nv = int(rng.integers(2, 5))
    nh = int(rng.integers(1, 4))
    if kind == "positive":
        state, _ = gen.make_positive(sub, nv, nh)
    elif kind == "complex":
        state, _, _ = gen.make_complex(sub, nv, nh)
    else:
        state, _, _ = gen.make_dm(sub, nv, nh, int(rng.integers(1, 3)))
    nmax = 12 if ctx.thorough else 8
    n = int(rng.integers(2, nmax + 1))
    samples = torch.tensor(rng.integers(0, 2, size=(n, nv)), dtype=torch.double)
    nleaf = int(rng.integers(2, 6))
    leaves, names = [], []
    for _ in range(nleaf):
        w = str(rng.choice(["X", "Y", "Z", "NN", "SWAP"], p=[0.25, 0.15, 0.2, 0.2, 0.2]))
        if w in ("X", "Y", "Z"):
            ab = bool(rng.random() < 0.2)
            o = {"X": SigmaX, "Y": SigmaY, "Z": SigmaZ}[w](absolute=ab)
            names.append("Sigma%s(%s)" % (w, "abs" if ab else ""))
        elif w == "NN":
            per = bool(rng.integers(0, 2))
            c = int(rng.integers(1, nv))
            o = NeighbourInteraction(periodic_bcs=per, c=c)
            names.append("NN(%s,%d)" % ("per" if per else "open", c))
        else:
            k = int(rng.integers(1, nv))
            A = sorted(int(a) for a in rng.choice(nv, size=k, replace=False))
            form = str(rng.choice(["list", "int"])) if k == 1 else "list"
            o = SWAP(A[0] if form == "int" else A)
            names.append("SWAP(%s)" % (A,))
        leaves.append(o)
    vals = [np.asarray(o.apply(state, samples).detach().numpy(), dtype=float).copy() for o in leaves]
    return {"kind": kind, "nv": nv, "nh": nh, "n": n, "state": state, "samples": samples,
            "leaves": leaves, "names": names, "vals": vals, "ids": {id(o): i for i, o in enumerate(leaves)}}


# ------------------------------------------------------------------------------------ one case
def run_tree(ctx, g, gkey, tkey, stream, maxd, tree=None, extra=None):
    """build the tree with real operators, compare with the oracle and with the model"""
    from qucumber.observables.observable import ObservableBase
    m = ctx.get_model()
    nleaf = len(g["leaves"])
    rng = np.random.Generator(np.random.PCG64(tkey))
    info = dict(extra or {})
    if tree is None:
        d = int(rng.integers(1, maxd + 1))
        if stream == "linear":
            tree = gen_lin(rng, d, nleaf)
        elif stream == "defect":
            tree, tagd, dpos = gen_defect(rng, max(d, 1), nleaf)
            info["defect"] = tagd
            info["defect_depth"] = dpos
        else:
            tree = gen_random(rng, d, nleaf)
    expr = show(tree, g["names"])
    case = {"stream": stream, "gkey": list(gkey), "tkey": list(tkey), "maxd": maxd, "state": g["kind"], "nv": g["nv"],
            "n": g["n"], "leaves": g["names"], "expr": expr, "tree": tree, **info}
    want_reject = must_reject(tree)
    vary = any(np.ptp(g["vals"][i]) > 0 for i in leaves_of(tree))
    if want_reject:
        nontriv = info.get("defect_depth", 1) >= 1 or stream == "random"
    else:
        nontriv = n_ops(tree) >= 2 and n_consts(tree) >= 1 and vary and contains_leaf(tree)
    ctx.case({"expr": expr, "state": g["kind"], "nv": g["nv"], "n": g["n"]}, nontrivial=bool(nontriv))
    ctx.count("stream:" + stream)
    ctx.count("depth:%d" % depth(tree))
    ctx.count("state:" + g["kind"])
    if "defect" in info:
        ctx.count("defect:" + info["defect"].split(":")[0] + (":" + info["defect"].split(":")[1] if ":" in info["defect"] else ""))

    # ---- implementation: real operators on real objects
    try:
        obj = real_eval(tree, g["leaves"])
        if isinstance(obj, ObservableBase):
            status = "obs"
        elif isinstance(obj, (int, float)):
            status = "scalar"
        else:
            status = "other:" + type(obj).__name__
        errkind = None
    except (TypeError, ValueError) as e:
        obj, status, errkind = None, "rejected", type(e).__name__
    except Exception as e:                                      # any other exception kind is not a clean rejection
        ctx.require("construction raised an unexpected exception kind", False, case, repr(e)[:300])
        return
    ctx.count("impl:" + status.split(":")[0])

    # ---- oracle 1: rejected exactly when the syntactic predicate says so
    ctx.require("rejected exactly the non-linear / non-numeric constructions", (status == "rejected") == want_reject, case,
                {"impl": status, "errkind": errkind, "predicate_rejects": want_reject})

    # ---- model
    r = m.call("c16_eval", enc_tree(tree), [v.tolist() for v in g["vals"]], g["n"])
    mstat, mrej, mkind, mwf, mshape, mapply, mstats, mpw, mpws = r
    mstatus = {0: "obs", 1: "scalar", 2: "junkvalue", 3: "rejected", 4: "rejected"}[int(mstat)]
    ctx.agree_exact("accept/reject verdict", status, mstatus, case)
    ctx.agree_exact("model predicate vs harness predicate", bool(mrej), want_reject, case)
    if status == "rejected" and mstatus == "rejected":
        ctx.count("errkind_same" if errkind == {3: "TypeError", 4: "ValueError"}[int(mstat)] else "errkind_differs")
    if status == "scalar":
        ref, _ = interp(tree, g["vals"])
        ctx.require("constant expression folds to its value", math.isclose(float(obj), float(ref), rel_tol=1e-9, abs_tol=1e-12), case,
                    {"impl": float(obj), "ref": float(ref)})
        if mstatus == "scalar":
            ctx.agree("folded scalar", float(obj), float(mshape[1]), case)
        ctx.traces += 1
        return
    if status != "obs":
        ctx.traces += 1
        return

    # ---- accepted: shape, apply, statistics
    shape = ser_obj(obj, g["ids"])
    if mstatus == "obs":
        ms = canon_model_shape(mshape)
        if not shape_eq(shape, ms):
            ctx.count("shape==model" if shape == ms else "shape!=model (informational: .left/.right layout is not part of the property)")
        ctx.agree_exact("built object well formed", True, bool(mwf), case)
    if want_reject:
        return                                                  # already reported above; nothing to evaluate against
    ref, mag = interp(tree, g["vals"])
    ref = np.broadcast_to(np.asarray(ref, dtype=float), (g["n"],)).copy()
    scale = float(max(1.0, np.max(mag)))
    if not np.all(np.isfinite(ref)) or scale > 1e12:
        ctx.count("skipped_overflow")
        return
    ok, out = ctx.call("apply of an accepted composite", case, lambda: obj.apply(g["state"], g["samples"].clone()))
    if not ok:
        return
    import torch
    is_batch = isinstance(out, torch.Tensor) and tuple(out.shape) == (g["n"],)
    ctx.require("apply returns one value per sample", is_batch, case, {"type": type(out).__name__, "shape": list(getattr(out, "shape", []))})
    if not is_batch:
        return
    got = out.detach().numpy().astype(float)
    tol = 1e-9 * np.abs(ref) + 1e-9 * scale
    ctx.require("apply == the same arithmetic on the leaves' per-sample values", bool(np.all(np.abs(got - ref) <= tol)), case,
                {"impl": got.tolist(), "interpreter": ref.tolist()})
    if mstatus == "obs" and len(mapply) == 2 and int(mapply[0]) == 1:
        ctx.agree("apply values", got, mapply[1], case, rtol=1e-9, atol=1e-9, scale=scale)
        ctx.agree("model apply vs model pointwise evaluation (theorem build_apply_is_eval)", mapply[1], mpw, case,
                  rtol=1e-9, atol=1e-9, scale=scale)
    elif mstatus == "obs":
        ctx.agree_exact("model apply returns a batch", True, False, case)

    ok, st = ctx.call("statistics_from_samples of an accepted composite", case,
                      lambda: obj.statistics_from_samples(g["state"], g["samples"].clone()))
    if ok:
        n = g["n"]
        mean = float(np.mean(ref))
        var = float(np.sum((ref - mean) ** 2) / (n - 1))
        se = math.sqrt(var / n)
        good = (isinstance(st, dict) and st.get("num_samples") == n
                and abs(float(st["mean"]) - mean) <= 1e-9 * scale
                and abs(float(st["variance"]) - var) <= 1e-8 * scale * scale
                and abs(float(st["std_error"]) - se) <= 1e-8 * scale)
        ctx.require("statistics == one-pass statistics of the combined per-sample values", bool(good), case,
                    {"impl": {k: float(v) for k, v in st.items()} if isinstance(st, dict) else repr(st),
                     "one_pass": {"mean": mean, "variance": var, "std_error": se, "num_samples": n}})
        if mstatus == "obs" and len(mstats) == 4 and isinstance(st, dict):
            ctx.agree("statistics mean", st["mean"], mstats[0], case, rtol=1e-9, atol=1e-9, scale=scale)
            ctx.agree("statistics variance", st["variance"], mstats[1], case, rtol=1e-8, atol=1e-8, scale=scale * scale)
            ctx.agree("statistics std_error", st["std_error"], mstats[2], case, rtol=1e-8, atol=1e-8, scale=scale)
            ctx.agree_exact("statistics num_samples", int(st["num_samples"]), int(mstats[3]), case)
    ctx.traces += 1


def direct_ctor_cases(ctx, g, gkey):
    """SumObservable / ProdObservable called directly: type checks of both constructors"""
    from qucumber.observables.observable import SumObservable, ProdObservable
    m = ctx.get_model()
    a, b = g["leaves"][0], g["leaves"][1]
    operands = [("leaf0", a, [0, 0]), ("leaf1", b, [0, 1]), ("int", 3, [3, 3.0]), ("float", -2.5, [3, -2.5]),
                ("bool", True, [3, 1.0]), ("f64", np.float64(0.5), [3, 0.5])] + \
               [("junk:" + k, mk_junk(k), [2]) for k in JUNK_KINDS]
    for cname, ctor, code in (("SumObservable", SumObservable, 0), ("ProdObservable", ProdObservable, 1)):
        for n1, v1, e1 in operands:
            for n2, v2, e2 in operands:
                has_obs = n1.startswith("leaf") or n2.startswith("leaf")
                junk = n1.startswith("junk") or n2.startswith("junk")
                if not has_obs and not junk and cname == "SumObservable":
                    continue        # SumObservable(scalar, scalar): the property says nothing about it
                case = {"stream": "ctor", "gkey": list(gkey), "ctor": cname, "o1": n1, "o2": n2}
                both_obs = n1.startswith("leaf") and n2.startswith("leaf")
                want = junk or (cname == "ProdObservable" and (both_obs or not has_obs))
                ctx.case({"ctor": cname, "o1": n1, "o2": n2}, nontrivial=False)
                ctx.count("stream:ctor")
                try:
                    obj = ctor(v1, v2)
                    status = "obs"
                except (TypeError, ValueError):
                    obj, status = None, "rejected"
                except Exception as e:
                    ctx.require("constructor raised an unexpected exception kind", False, case, repr(e)[:200])
                    continue
                ctx.require("constructor rejects exactly non-numeric operands and non-linear products",
                            (status == "rejected") == want, case, {"impl": status, "must_reject": want})
                r = m.call("c16_ctor", code, e1, e2)
                mstatus = "obs" if int(r[0]) == 0 else "rejected"
                ctx.agree_exact("constructor verdict", status, mstatus, case)
                if status == "obs" and mstatus == "obs":
                    shape = ser_obj(obj, g["ids"])
                    ms = canon_model_shape(r[1])
                    if not shape_eq(shape, ms):
                        ctx.count("ctor shape==model" if shape == ms else "ctor shape!=model (informational)")


# ------------------------------------------------------------------------------------ driver
def plan(ctx):
    if ctx.thorough:
        return {"groups": 1000, "lin": 14, "defect": 7, "rand": 7, "maxd": 6}
    return {"groups": 150, "lin": 8, "defect": 4, "rand": 4, "maxd": 4}


def run_group(ctx, gi, P, base=0):
    gkey = (ctx.seed, 16, base, gi)
    g = make_group(ctx, gkey)
    if not all(np.all(np.isfinite(v)) for v in g["vals"]):
        ctx.count("skipped_nonfinite_leaf")
        return
    # the leaves are deterministic: a second application gives the same values (assumption of the oracle)
    again = [np.asarray(o.apply(g["state"], g["samples"]).detach().numpy(), dtype=float) for o in g["leaves"]]
    ctx.require("leaf apply is deterministic", all(np.array_equal(x, y) for x, y in zip(again, g["vals"])),
                {"stream": "leaf", "gkey": list(gkey)})
    t = 0
    for stream, cnt in (("linear", P["lin"]), ("defect", P["defect"]), ("random", P["rand"])):
        for _ in range(cnt):
            run_tree(ctx, g, gkey, gkey + (t,), stream, P["maxd"])
            t += 1
    if gi % 20 == 10:
        direct_ctor_cases(ctx, g, gkey)


FIXED = [  # the forms named in the property / design, always run (leaf 0 = a, leaf 1 = b)
    ["sub", ["leaf", 0], ["leaf", 1]], ["sub", ["leaf", 0], ["const", "int", 3]], ["sub", ["const", "int", 3], ["leaf", 0]],
    ["neg", ["leaf", 0]], ["mul", ["leaf", 0], ["const", "float", 2.5]], ["mul", ["const", "float", 2.5], ["leaf", 0]],
    ["add", ["leaf", 0], ["const", "int", 0]], ["add", ["const", "f64", -1.25], ["leaf", 0]],
    ["sub", ["leaf", 0], ["const", "bool", True]], ["mul", ["const", "bool", True], ["leaf", 1]],
    ["mul", ["leaf", 0], ["const", "f64", -0.5]], ["sub", ["const", "f64", 2.0], ["leaf", 1]],
    ["mul", ["leaf", 0], ["const", "int", 0]], ["neg", ["neg", ["leaf", 1]]],
    ["add", ["sub", ["neg", ["leaf", 1]], ["mul", ["const", "int", 3], ["leaf", 0]]], ["const", "int", 1]],
    ["mul", ["leaf", 0], ["leaf", 1]], ["mul", ["leaf", 0], ["leaf", 0]],
    ["mul", ["add", ["leaf", 0], ["const", "int", 1]], ["sub", ["const", "int", 2], ["leaf", 1]]],
    ["add", ["leaf", 0], ["junk", "str"]], ["add", ["junk", "none"], ["leaf", 0]], ["sub", ["leaf", 0], ["junk", "list"]],
    ["sub", ["junk", "complex"], ["leaf", 0]], ["mul", ["leaf", 0], ["junk", "dict"]], ["mul", ["junk", "tuple"], ["leaf", 0]],
    ["mul", ["mul", ["const", "int", 2], ["const", "int", 3]], ["leaf", 0]],
    ["sub", ["const", "int", 2], ["const", "float", 0.5]],
]


def run(ctx):
    P = plan(ctx)
    g0key = (ctx.seed, 16, 7, 0)
    g0 = make_group(ctx, g0key)
    for i, tree in enumerate(FIXED):
        run_tree(ctx, g0, g0key, g0key + (i,), "fixed", P["maxd"], tree=tree)
    direct_ctor_cases(ctx, g0, g0key)
    for gi in range(P["groups"]):
        run_group(ctx, gi, P)


def search(ctx, broken, budget):
    """wider oracle sweep when the proof or the correspondence broke"""
    t0 = time.time()
    n0 = len(ctx.failures)
    P = {"groups": 0, "lin": 12, "defect": 6, "rand": 6, "maxd": 6 if ctx.thorough else 4}
    gi = 0
    while time.time() - t0 < budget:
        run_group(ctx, gi, P, base=1)
        gi += 1
        if len(ctx.failures) > n0:
            return ctx.failures[n0]
    return None


def shrink(ctx, rec):
    """replace the failing tree by its smallest failing sub-tree / simplification (same group)"""
    case = rec.get("case", {})
    if "tree" not in case or "gkey" not in case:
        return rec
    gkey = tuple(case["gkey"])
    g = make_group(ctx, gkey)
    best = rec
    tree = case["tree"]
    improved = True
    rounds = 0
    while improved and rounds < 40:
        improved = False
        rounds += 1
        cands = []
        if tree[0] == "neg":
            cands = [tree[1]]
        elif tree[0] in OPS:
            cands = [tree[1], tree[2]]
            for idx in (1, 2):
                if tree[idx][0] not in ("leaf", "const", "junk"):
                    for sub in tree[idx][1:]:
                        cands.append(replace_at(tree, (idx,), sub))
        for c in cands:
            n0 = len(ctx.failures)
            k0 = len(ctx.known_hits)
            try:
                run_tree(ctx, g, gkey, tuple(case.get("tkey", gkey)), "shrink", case.get("maxd", 4), tree=c)
            except Exception:
                continue
            if len(ctx.failures) > n0:
                new = ctx.failures[n0]
                del ctx.failures[n0:]
                best, tree, improved = new, c, True
                break
            del ctx.known_hits[k0:]
    return best


def replay(ctx, rec):
    case = rec.get("failing", {}).get("case", {})
    if case.get("stream") == "ctor" or "tree" not in case:
        g = make_group(ctx, tuple(case.get("gkey", (ctx.seed, 16, 7, 0))))
        direct_ctor_cases(ctx, g, tuple(case.get("gkey", (ctx.seed, 16, 7, 0))))
        return
    gkey = tuple(case["gkey"])
    g = make_group(ctx, gkey)
    print("replay of", case.get("expr"), "on", case.get("state"), "nv", case.get("nv"), "n", case.get("n"))
    run_tree(ctx, g, gkey, tuple(case.get("tkey", gkey)), case.get("stream", "replay"), case.get("maxd", 4), tree=case["tree"])
