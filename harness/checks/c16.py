"""C16 — Composite observables evaluate to the same arithmetic on their parts.

Every case is an expression tree over real built-in observables (SigmaX/Y/Z, NeighbourInteraction, SWAP),
Python scalars (int, float, bool, numpy.float64, user subclasses of float / int; 0, negatives, a few large and
tiny magnitudes) and - in the rejection stream - non-numeric operands.  The tree is evaluated bottom-up with the REAL Python operators (operator.neg/add/sub/mul) on the
real objects, so Python's own dispatch (__op__ / reflected __rop__) and the library's constructors run.

Oracle (independent of the code under test): a numpy interpreter of the same tree over the leaves' own
`apply` values; one-pass numpy statistics of those values; a syntactic predicate written here in Python
saying which trees must be rejected.
Every accepted composite is evaluated on several (state, batch) pairs: the group's state and batch, a second
state and/or a second batch of another length, and - after all trees of the group were built - once more on the
same batch after the state's parameters were perturbed IN PLACE (a per-object or content-keyed cache, or stale
state, would be contradicted).  Some composites are additionally driven through Observable.statistics(...) and
Observable.sample(...) with a recording wrapper around nn_state.sample (the random chains are recorded, not predicted).
Operators must not change their operands: every intermediate object built on the way to a root is kept and applied
again after its parent exists and must still evaluate to ITS OWN sub-expression; a 'dag' stream builds several
composites that share sub-objects (s = a + 1; t = s + b; u = s * 2; ...) and evaluates all of them afterwards;
the leaves are re-applied at the end of the group.  Non-numeric operands come in several values per kind, including
everything float() would coerce ("2", "1.5", b"4", numpy strings, Decimal, Fraction, objects with __float__).
Operator FORMS: one tree in three has some binary nodes built with the augmented-assignment operators (operator.iadd / isub
/ imul, i.e.  H += t, H -= t, H *= c  - Python uses __iadd__ etc. when defined and the plain operator otherwise); the paths
of those nodes are part of the case ("iops"); the extended object is re-evaluated afterwards like every operand.
Scalars include Python ints beyond 64 bits (10**20, -10**30, 2**63, ...) as factors and addends.
System: the accepted composites of a group (distinct .name) are put into qucumber.observables.System and its
statistics_from_samples / statistics(...) entry of every composite is compared with the one-pass statistics of the
interpreter's values; two fixed groups use leaves that are DIFFERENT observables with the SAME .name
(SigmaZ() / SigmaZ(absolute=True), SWAP([0]) / SWAP([1]), SigmaX() / SigmaX(absolute=True)).
Correspondence: accept/reject verdict, apply values and statistics vs the extracted Coq model
(ObsExpr.build/apply/statistics_from_samples); the .left/.right layout is informational only (histogram)."""
import math, operator, time
import numpy as np
import gen

RULE = ("groups = (state type in positive/complex/density-matrix, nv 2..4, random parameters from harness/gen.py, "
        "a random 0/1 batch of 2..8 (thorough ..12) samples, 2..5 leaf observables drawn from SigmaX/Y/Z(absolute?), "
        "NeighbourInteraction(periodic?, c), SWAP(A)); per group several expression trees of depth <= 4 (quick) / <= 6 "
        "(thorough) from three streams: 'linear' (directed grammar producing accepted trees: scalars on either side, "
        "nested -, +, -, *), 'defect' (a linear tree with one injected obs*obs product or non-numeric operand "
        "str/None/list/complex/dict/tuple next to an observable-valued sibling), 'random' (undirected grammar); "
        "plus direct constructor calls. Scalars: int -5..5, floats, 0, negatives, bool, numpy.float64, user subclasses of "
        "float and int, rarely 1e6 / -1e-6 / 10**6, 4% of the ints beyond 64 bits (10**20, -10**30, 2**63, -2**63-1, 2**64+1, 10**38; "
        "15 fixed trees). Operator forms: infix / reflected, and in one tree in three 35% of the binary nodes as augmented "
        "assignments += -= *= (34 fixed trees + 4 fixed shared-object programs such as H = -b; H -= 3*a; H += 1; H *= 2, always "
        "first). Every accepted composite is applied (and statistics_from_samples taken) on "
        "the group's (state, batch), on a second state and/or a second batch of another length (1..nmax), and again after an "
        "in-place perturbation of the state's parameters; per group up to 2 (thorough 3) composites also go through "
        "Observable.statistics (num_chains 0/2/3/4, burn_in 0..2, steps 1..2, also initial_state=) and Observable.sample with "
        "recorded chains. Every operand object created while building a tree is re-applied after its parent was built (<= 8 per "
        "tree) and compared with its own sub-expression; stream 'dag': 3..5 definitions sharing earlier OBJECTS, all evaluated "
        "right after being built and again after all were built; 4 fixed programs always run. Per group the accepted composites "
        "(<= 6, distinct names) also go through System(...).statistics_from_samples on two batches and (fixed groups and every "
        "4th group) System.statistics on recorded chains; 2 fixed groups over leaves that share a .name but differ in value "
        "(SigmaZ()/SigmaZ(absolute=True), SWAP([0])/SWAP([1]), SigmaX()/SigmaX(absolute=True)). Non-numeric operands: 11 kinds, "
        "1..9 values each (number-like str/bytes/bytearray/numpy strings, None, lists, complex, dict, tuple, Decimal, Fraction, "
        "objects with __float__/__index__). "
        "non-trivial := accepted tree with >= 2 operators, >= 1 scalar and >= 1 leaf whose values vary over the batch, "
        "or a rejected tree whose defect sits below at least one other operator")
ASSUMPTIONS = [
    "the built-in leaf observables' apply is deterministic in (state, samples) (checked: leaves are re-applied)",
    "non-numeric operand combined with a scalar or another non-numeric operand never reaches the library "
    "(Python itself raises or computes it); such sub-trees are not generated and the model maps them to TypeError",
    "numpy.int64 / numpy.float32 / ndarray / tensor operands are outside the property (not int/float subclasses) and not generated",
    "inf / nan scalars are not generated (the property speaks of real scalars)",
    "Observable.statistics merges per-draw summaries with _update_statistics; that the merge equals the one-pass summary of "
    "the concatenation is C13's theorem - here the composite's statistics() is compared with the one-pass summary of the "
    "interpreter's values on the recorded chains (num_chains != 1)",
    "'rejected' = any exception at construction; the exception class is recorded in the histogram only",
    "H += t / H -= t / H *= c are the property's addition / subtraction / scalar multiplication written as augmented assignments; "
    "the object that is extended must keep its own value afterwards (it may be shared by other composites), exactly as for the "
    "plain operators",
    "int scalars are generated up to 10**38 (float(c) finite); ints that do not fit a double (10**400) are not generated",
    "composites put into one System have distinct .name (a System is a dictionary keyed by name); their LEAVES may share a name",
]

OPS = {"add": operator.add, "sub": operator.sub, "mul": operator.mul}
# the augmented-assignment forms  H += t / H -= t / H *= c  (Python calls __iadd__/__isub__/__imul__ when the class defines
# them and falls back to the plain operator otherwise): the same three operations of the property, written in place
IOPS = {"add": operator.iadd, "sub": operator.isub, "mul": operator.imul}
BIG_INTS = [10 ** 20, -10 ** 30, 2 ** 63, -2 ** 63 - 1, 2 ** 64 + 1, -10 ** 19, 10 ** 38]     # Python ints beyond 64 bits
SYM = {"add": "+", "sub": "-", "mul": "*"}
JUNK_KINDS = ["str", "bytes", "npstr", "none", "list", "complex", "dict", "tuple", "decimal", "fraction", "floatable"]
# decimal.Decimal / fractions.Fraction / objects with __float__ are number-LIKE objects that are not Python int/float
# scalars.  The library rejects them and the coordinator asked that their rejection be demanded; set to False to
# make their acceptance tolerated (they would then simply not be generated).
STRICT_NUMBER_OBJECTS = True


# ------------------------------------------------------------------------------------ trees
class FSub(float):
    """a user-defined float subclass (isinstance(x, float) holds)"""


class ISub(int):
    """a user-defined int subclass"""


def mk_scalar(t, v):
    if t == "int":
        return int(v)
    if t == "isub":
        return ISub(v)
    if t == "fsub":
        return FSub(v)
    if t == "bool":
        return bool(v)
    if t == "f64":
        return np.float64(v)
    return float(v)


class WithFloat:
    """not a number type, but float(x) works"""
    def __float__(self):
        return 2.0


class WithIndex:
    def __index__(self):
        return 3


def junk_values():
    """several values per non-numeric kind, including everything float() would happily coerce:
    number-like strings and bytes, numpy strings, Decimal / Fraction, objects with __float__ / __index__"""
    from decimal import Decimal
    from fractions import Fraction
    return {
        "str": ["sigma", "2", "1.5", "-3", " 4 ", "1e3", "nan", "inf", ""],
        "bytes": [b"4", b"1.5", b"x", bytearray(b"4")],
        "npstr": [np.str_("2"), np.bytes_(b"3"), np.str_("x")],
        "none": [None],
        "list": [[1.0, 2.0], [2.0], []],
        "complex": [1 + 2j, 2 + 0j],
        "dict": [{}, {1: 2}],
        "tuple": [(1.0,), (2,)],
        "decimal": [Decimal("1.5"), Decimal(2)],
        "fraction": [Fraction(1, 2), Fraction(3)],
        "floatable": [WithFloat(), WithIndex()],
    }


def junk_kinds():
    if STRICT_NUMBER_OBJECTS:
        return JUNK_KINDS
    return [k for k in JUNK_KINDS if k not in ("decimal", "fraction", "floatable")]


def rand_junk(rng):
    k = str(rng.choice(junk_kinds()))
    return ["junk", k, int(rng.integers(0, len(junk_values()[k])))]


def mk_junk(k, idx=0):
    vs = junk_values()[k]
    return vs[int(idx) % len(vs)]


def junk_of(t):
    return mk_junk(t[1], t[2] if len(t) > 2 else 0)


def rand_scalar(rng):
    t = str(rng.choice(["int", "float", "bool", "f64", "fsub", "isub"], p=[0.3, 0.25, 0.1, 0.2, 0.08, 0.07]))
    if t in ("int", "isub"):
        v = int(rng.choice([0, 1, -1, 2, -2, 3, -3, 5, -5, 4, 10 ** 6], p=[0.16, 0.1, 0.14, 0.1, 0.1, 0.1, 0.1, 0.05, 0.05, 0.08, 0.02]))
        if rng.random() < 0.04:
            v = BIG_INTS[int(rng.integers(0, len(BIG_INTS)))]
    elif t == "bool":
        v = bool(rng.integers(0, 2))
    else:
        u = rng.random()
        if u < 0.1:
            v = 0.0
        elif u < 0.13:
            v = float(rng.choice([1e6, -1e-6]))
        elif u < 0.2:
            v = float(rng.choice([0.5, -0.5, 1.0, -1.0, 2.5, -1.5]))
        else:
            v = float(np.round(rng.normal() * 2.0, 6))
    return ["const", t, v]


def gen_const(rng, d):
    if d <= 0 or rng.random() < 0.8:
        return rand_scalar(rng)
    k = str(rng.choice(["neg", "add", "sub", "mul"]))
    if k == "neg":
        return ["neg", gen_const(rng, d - 1)]
    return [k, gen_const(rng, d - 1), gen_const(rng, d - 1)]


def gen_lin(rng, d, nleaf):
    """an accepted tree that denotes an observable (contains a leaf)"""
    if d <= 0 or rng.random() < 0.12:
        return ["leaf", int(rng.integers(0, nleaf))]
    k = str(rng.choice(["neg", "add", "sub", "mul"], p=[0.15, 0.25, 0.3, 0.3]))
    if k == "neg":
        return ["neg", gen_lin(rng, d - 1, nleaf)]
    if k == "mul":
        c = gen_const(rng, min(d - 1, 2))
        o = gen_lin(rng, d - 1, nleaf)
        return ["mul", c, o] if rng.random() < 0.5 else ["mul", o, c]
    o = gen_lin(rng, d - 1, nleaf)
    u = rng.random()
    other = gen_lin(rng, d - 1, nleaf) if u < 0.5 else gen_const(rng, min(d - 1, 2))
    return [k, o, other] if rng.random() < 0.5 else [k, other, o]


def obs_positions(t, path=()):
    """paths of the sub-trees that denote observables (contain a leaf)"""
    out = []
    if contains_leaf(t):
        out.append(path)
    if t[0] == "neg":
        out += obs_positions(t[1], path + (1,))
    elif t[0] in OPS:
        out += obs_positions(t[1], path + (1,)) + obs_positions(t[2], path + (2,))
    return out


def replace_at(t, path, new):
    if not path:
        return new
    t = list(t)
    t[path[0]] = replace_at(t[path[0]], path[1:], new)
    return t


def gen_defect(rng, d, nleaf):
    base = gen_lin(rng, d, nleaf)
    pos = obs_positions(base)
    # positions deep enough to leave room for the defect node
    cand = [p for p in pos if len(p) <= d - 1] or [()]
    p = cand[int(rng.integers(0, len(cand)))]
    room = max(0, d - len(p) - 1)
    which = str(rng.choice(["obsobs", "junk"], p=[0.45, 0.55]))
    if which == "obsobs":
        node = ["mul", gen_lin(rng, min(room, 2), nleaf), gen_lin(rng, min(room, 2), nleaf)]
        tagd = "obs*obs"
    else:
        j = rand_junk(rng)
        jk = j[1]
        op = str(rng.choice(["add", "sub", "mul"]))
        sib = gen_lin(rng, min(room, 2), nleaf)
        node = [op, j, sib] if rng.random() < 0.5 else [op, sib, j]
        tagd = "junk:" + jk + (":left" if node[1][0] == "junk" else ":right") + ":" + op
    return replace_at(base, p, node), tagd, len(p)


def gen_random(rng, d, nleaf):
    """undirected grammar; a junk operand only next to a sibling that contains a leaf"""
    if d <= 0 or rng.random() < 0.15:
        return ["leaf", int(rng.integers(0, nleaf))] if rng.random() < 0.6 else rand_scalar(rng)
    u = rng.random()
    if u < 0.12:
        return ["neg", gen_random(rng, d - 1, nleaf)]
    op = str(rng.choice(["add", "sub", "mul"], p=[0.35, 0.35, 0.3]))
    if u < 0.2:
        sib = with_leaf(rng, d - 1, nleaf)
        j = rand_junk(rng)
        return [op, j, sib] if rng.random() < 0.5 else [op, sib, j]
    return [op, gen_random(rng, d - 1, nleaf), gen_random(rng, d - 1, nleaf)]


def with_leaf(rng, d, nleaf):
    t = gen_random(rng, d, nleaf)
    if contains_leaf(t):
        return t
    return ["leaf", int(rng.integers(0, nleaf))]


def contains_leaf(t):
    if t[0] == "leaf":
        return True
    if t[0] in ("const", "junk"):
        return False
    return any(contains_leaf(c) for c in t[1:])


def depth(t):
    return 0 if t[0] in ("leaf", "const", "junk") else 1 + max(depth(c) for c in t[1:])


def n_ops(t):
    return 0 if t[0] in ("leaf", "const", "junk") else 1 + sum(n_ops(c) for c in t[1:])


def n_consts(t):
    if t[0] == "const":
        return 1
    if t[0] in ("leaf", "junk"):
        return 0
    return sum(n_consts(c) for c in t[1:])


def consts_of(t):
    """the ["const", type, value] nodes of a tree"""
    if t[0] == "const":
        return [tuple(t)]
    if t[0] in ("leaf", "junk", "var"):
        return []
    out = []
    for c in t[1:]:
        out += consts_of(c)
    return out


def leaves_of(t):
    if t[0] == "leaf":
        return {t[1]}
    if t[0] in ("const", "junk"):
        return set()
    s = set()
    for c in t[1:]:
        s |= leaves_of(c)
    return s


def must_reject(t):
    """the property's syntactic predicate, written independently of the model:
    an operator applied to a non-numeric operand, or a product of two sub-trees that both contain a leaf"""
    if t[0] in ("leaf", "const", "junk"):
        return False
    kids = t[1:]
    if any(c[0] == "junk" for c in kids):
        return True
    if any(must_reject(c) for c in kids):
        return True
    return t[0] == "mul" and contains_leaf(kids[0]) and contains_leaf(kids[1])


def show(t, names, iops=None, path=()):
    """the expression; a node built with the augmented-assignment form is written with  += / -= / *= """
    k = t[0]
    if k == "leaf":
        return names[t[1]]
    if k == "var":
        return "v%d" % t[1]
    if k == "const":
        return {"int": "%d", "bool": "%s", "f64": "np.float64(%r)", "float": "%r", "fsub": "FSub(%r)", "isub": "ISub(%d)"}[t[1]] % (t[2],)
    if k == "junk":
        return repr(junk_of(t))
    if k == "neg":
        return "-(" + show(t[1], names, iops, path + (1,)) + ")"
    sym = SYM[k] + ("=" if iops and path in iops else "")
    return "(" + show(t[1], names, iops, path + (1,)) + " " + sym + " " + show(t[2], names, iops, path + (2,)) + ")"


def binary_paths(t, path=()):
    """paths of the binary operator nodes whose left operand is not a non-numeric value"""
    if t[0] in ("leaf", "const", "junk", "var"):
        return []
    if t[0] == "neg":
        return binary_paths(t[1], path + (1,))
    here = [path] if t[1][0] != "junk" else []
    return here + binary_paths(t[1], path + (1,)) + binary_paths(t[2], path + (2,))


def choose_iops(rng, t, p=0.25):
    return sorted(q for q in binary_paths(t) if rng.random() < p)


def as_iops(x):
    return frozenset(tuple(int(i) for i in q) for q in (x or []))


def enc_tree(t):
    k = t[0]
    if k == "leaf":
        return [0, t[1]]
    if k == "const":
        return [1, float(mk_scalar(t[1], t[2]))]
    if k == "junk":
        return [2]
    if k == "neg":
        return [3, enc_tree(t[1])]
    return [{"add": 4, "sub": 5, "mul": 6}[k], enc_tree(t[1]), enc_tree(t[2])]


def real_eval(t, leaves, env=None, keep=None, iops=None, path=()):
    """bottom-up evaluation with the real Python operators on the real objects (left operand first).
    ["var", j] is the OBJECT built earlier for definition j (shared sub-object).  When `keep` is a list, every
    intermediate result (sub-tree, object) of an operator node is appended to it, so that the sub-objects can be
    evaluated again after their parents were built."""
    k = t[0]
    if k == "leaf":
        return leaves[t[1]]
    if k == "var":
        return env[t[1]]
    if k == "const":
        return mk_scalar(t[1], t[2])
    if k == "junk":
        return junk_of(t)
    if k == "neg":
        r = operator.neg(real_eval(t[1], leaves, env, keep, iops, path + (1,)))
    else:
        a = real_eval(t[1], leaves, env, keep, iops, path + (1,))
        b = real_eval(t[2], leaves, env, keep, iops, path + (2,))
        if iops and path in iops:
            r = IOPS[k](a, b)          # a += b / a -= b / a *= b  (the value of the augmented assignment)
        else:
            r = OPS[k](a, b)
    if keep is not None:
        keep.append((t, r))
    return r


def expand(t, defs):
    """substitute the definitions for ["var", j] nodes: the expression that the shared object must denote"""
    if t[0] == "var":
        return expand(defs[t[1]], defs)
    if t[0] in ("leaf", "const", "junk"):
        return t
    return [t[0]] + [expand(c, defs) for c in t[1:]]


def interp(t, vals):
    """reference semantics: numpy arithmetic on the leaves' own per-sample values; also a magnitude bound"""
    k = t[0]
    if k == "leaf":
        v = vals[t[1]]
        return v, np.abs(v)
    if k == "const":
        q = float(mk_scalar(t[1], t[2]))
        return q, abs(q)
    if k == "neg":
        v, m = interp(t[1], vals)
        return -v, m
    (a, ma), (b, mb) = interp(t[1], vals), interp(t[2], vals)
    if k == "add":
        return a + b, ma + mb
    if k == "sub":
        return a - b, ma + mb
    return a * b, ma * mb


# ------------------------------------------------------------------------------------ real objects
def ser_obj(x, ids):
    """canonical serialisation of a built object from its real fields .left / .right"""
    from qucumber.observables.observable import SumObservable, ProdObservable, ObservableBase
    if isinstance(x, SumObservable):
        return [1, ser_obj(x.left, ids), ser_obj(x.right, ids)]
    if isinstance(x, ProdObservable):
        return [2, ser_obj(x.left, ids), ser_obj(x.right, ids)]
    if isinstance(x, ObservableBase):
        return [0, ids.get(id(x), -1)]
    if isinstance(x, (int, float)):
        return [3, float(x)]
    return [9, type(x).__name__]


def canon_model_shape(s):
    """model: [0 i] | [1 l r] | [2 c o] | [3 q]  ->  same layout as ser_obj (ProdObservable.left is the scalar)"""
    tag = int(s[0])
    if tag == 0:
        return [0, int(s[1])]
    if tag == 1:
        return [1, canon_model_shape(s[1]), canon_model_shape(s[2])]
    if tag == 2:
        return [2, [3, float(s[1])], canon_model_shape(s[2])]
    return [3, float(s[1])]


def shape_eq(a, b):
    if a[0] != b[0] or len(a) != len(b):
        return False
    if a[0] == 3:
        return a[1] == b[1] or math.isclose(a[1], b[1], rel_tol=1e-12, abs_tol=0.0)
    if a[0] in (0, 9):
        return a[1] == b[1]
    return all(shape_eq(x, y) for x, y in zip(a[1:], b[1:]))


class SubCtx:
    """a per-group generator context (own PRNG, shared histogram) so that a group can be regenerated alone"""
    def __init__(self, ctx, key):
        self.rng = np.random.Generator(np.random.PCG64(key))
        self._ctx = ctx

    def count(self, k, n=1):
        self._ctx.count(k, n)


def leaf_values(leaves, state, samples):
    """the leaves' own per-sample values on (state, samples) - the inputs of the reference interpreter"""
    return [np.asarray(o.apply(state, samples.clone()).detach().numpy(), dtype=float).copy() for o in leaves]


def make_state(sub, kind, nv, nh, na):
    if kind == "positive":
        return gen.make_positive(sub, nv, nh)[0]
    if kind == "complex":
        return gen.make_complex(sub, nv, nh)[0]
    return gen.make_dm(sub, nv, nh, na)[0]


LEAF_SPECS_SAME_NAME = [("Z", False), ("Z", True), ("SWAP", [0]), ("SWAP", [1]), ("X", False), ("X", True)]
# ^ pairs of DIFFERENT observables that carry the same .name ("SigmaZ", "SWAP", "SigmaX")


def make_group(ctx, gkey, forced=None):
    """state + batch + leaf observables + the leaves' own apply values, all determined by gkey;
    plus a second state (same type and sizes, other parameters) and a second batch of another length"""
    import torch
    from qucumber.observables import SigmaX, SigmaY, SigmaZ, NeighbourInteraction, SWAP
    sub = SubCtx(ctx, gkey)
    rng = sub.rng
    torch.manual_seed(int(rng.integers(0, 2 ** 31 - 1)))
    kind = str(rng.choice(["positive", "complex", "dm"]))
    nv = int(rng.integers(2, 5))
    if forced is not None:
        nv = max(nv, 3)
    nh = int(rng.integers(1, 4))
    na = int(rng.integers(1, 3))
    state = make_state(sub, kind, nv, nh, na)
    nmax = 12 if ctx.thorough else 8
    n = int(rng.integers(2, nmax + 1))
    samples = torch.tensor(rng.integers(0, 2, size=(n, nv)), dtype=torch.double)
    nleaf = int(rng.integers(2, 6))
    leaves, names = [], []
    for w, arg in (forced or []):
        if w in ("X", "Y", "Z"):
            leaves.append({"X": SigmaX, "Y": SigmaY, "Z": SigmaZ}[w](absolute=bool(arg)))
            names.append("Sigma%s(%s)" % (w, "abs" if arg else ""))
        else:
            leaves.append(SWAP(list(arg)))
            names.append("SWAP(%s)" % (list(arg),))
    for _ in range(0 if forced is not None else nleaf):
        w = str(rng.choice(["X", "Y", "Z", "NN", "SWAP"], p=[0.25, 0.15, 0.2, 0.2, 0.2]))
        if w in ("X", "Y", "Z"):
            ab = bool(rng.random() < 0.2)
            o = {"X": SigmaX, "Y": SigmaY, "Z": SigmaZ}[w](absolute=ab)
            names.append("Sigma%s(%s)" % (w, "abs" if ab else ""))
        elif w == "NN":
            per = bool(rng.integers(0, 2))
            c = int(rng.integers(1, nv))
            o = NeighbourInteraction(periodic_bcs=per, c=c)
            names.append("NN(%s,%d)" % ("per" if per else "open", c))
        else:
            k = int(rng.integers(1, nv))
            A = sorted(int(a) for a in rng.choice(nv, size=k, replace=False))
            form = str(rng.choice(["list", "int"])) if k == 1 else "list"
            o = SWAP(A[0] if form == "int" else A)
            names.append("SWAP(%s)" % (A,))
        leaves.append(o)
    vals = leaf_values(leaves, state, samples)
    # second state / second batch (another length, 1 allowed: apply only)
    state2 = make_state(sub, kind, nv, nh, na)
    n2 = int(rng.integers(1, nmax + 1))
    if n2 == n:
        n2 = n + 1
    samples2 = torch.tensor(rng.integers(0, 2, size=(n2, nv)), dtype=torch.double)
    alts = [("state2,batch1", state2, samples), ("state1,batch2", state, samples2), ("state2,batch2", state2, samples2)]
    alts = [{"label": lab, "state": st, "samples": sm, "n": int(sm.shape[0]), "vals": leaf_values(leaves, st, sm)}
            for lab, st, sm in alts]
    return {"kind": kind, "nv": nv, "nh": nh, "n": n, "state": state, "samples": samples,
            "leaves": leaves, "names": names, "vals": vals, "ids": {id(o): i for i, o in enumerate(leaves)},
            "alts": alts, "perturb_seed": int(rng.integers(0, 2 ** 31 - 1))}


def finite_group(g):
    return all(np.all(np.isfinite(v)) for v in g["vals"]) and all(np.all(np.isfinite(v)) for a in g["alts"] for v in a["vals"])


# ------------------------------------------------------------------------------------ evaluation of an accepted composite
def one_pass(ref):
    n = len(ref)
    mean = float(np.mean(ref))
    var = float(np.sum((ref - mean) ** 2) / (n - 1)) if n > 1 else float("nan")
    se = math.sqrt(var / n) if n > 1 and var >= 0 else float("nan")
    return mean, var, se


def stats_ok(st, ref, scale):
    n = len(ref)
    mean, var, se = one_pass(ref)
    good = (isinstance(st, dict) and all(k in st for k in ("mean", "variance", "std_error", "num_samples"))
            and int(st["num_samples"]) == n
            and abs(float(st["mean"]) - mean) <= 1e-9 * scale
            and abs(float(st["variance"]) - var) <= 1e-8 * scale * scale
            and abs(float(st["std_error"]) - se) <= 1e-8 * scale)
    return bool(good), {"mean": mean, "variance": var, "std_error": se, "num_samples": n}


def eval_on(ctx, obj, tree, case, state, samples, vals, label, with_model=True, with_stats=True):
    """apply + statistics_from_samples of the built composite on (state, samples) vs the interpreter over the
    leaves' own values on the same (state, samples); optionally vs the model.  Returns False when skipped."""
    import torch
    case = dict(case, evaluated_on=label)
    n = int(samples.shape[0])
    ref, mag = interp(tree, vals)
    ref = np.broadcast_to(np.asarray(ref, dtype=float), (n,)).copy()
    scale = float(max(1.0, np.max(mag)))
    if not np.all(np.isfinite(ref)) or scale > 1e150:
        ctx.count("skipped_overflow")
        return False
    ctx.count("evaluated_on:" + label)
    ok, out = ctx.call("apply of an accepted composite", case, lambda: obj.apply(state, samples.clone()))
    if not ok:
        return True
    is_batch = isinstance(out, torch.Tensor) and tuple(out.shape) == (n,)
    ctx.require("apply returns one value per sample", is_batch, case, {"type": type(out).__name__, "shape": list(getattr(out, "shape", []))})
    if not is_batch:
        return True
    got = out.detach().numpy().astype(float)
    tol = 1e-9 * np.abs(ref) + 1e-9 * scale
    ctx.require("apply == the same arithmetic on the leaves' per-sample values", bool(np.all(np.abs(got - ref) <= tol)), case,
                {"impl": got.tolist(), "interpreter": ref.tolist()})
    mapply = mstats = mpw = None
    if with_model:
        r = ctx.get_model().call("c16_eval", enc_tree(tree), [v.tolist() for v in vals], n)
        if int(r[0]) == 0:
            mapply, mstats, mpw = r[5], r[6], r[7]
            if len(mapply) == 2 and int(mapply[0]) == 1:
                ctx.agree("apply values", got, mapply[1], case, rtol=1e-9, atol=1e-9, scale=scale)
                ctx.agree("model apply vs model pointwise evaluation (theorem build_apply_is_eval)", mapply[1], mpw, case,
                          rtol=1e-9, atol=1e-9, scale=scale)
            else:
                ctx.agree_exact("model apply returns a batch", True, False, case)
    if not with_stats:
        return True
    if n < 2:
        ctx.count("batch_of_one:apply_only")     # the sample variance of one value is undefined
        return True
    ok, st = ctx.call("statistics_from_samples of an accepted composite", case,
                      lambda: obj.statistics_from_samples(state, samples.clone()))
    if ok:
        good, want = stats_ok(st, ref, scale)
        ctx.require("statistics == one-pass statistics of the combined per-sample values", good, case,
                    {"impl": {k: float(v) for k, v in st.items()} if isinstance(st, dict) else repr(st), "one_pass": want})
        if good and mstats is not None and len(mstats) == 4:
            ctx.agree("statistics mean", st["mean"], mstats[0], case, rtol=1e-9, atol=1e-9, scale=scale)
            ctx.agree("statistics variance", st["variance"], mstats[1], case, rtol=1e-8, atol=1e-8, scale=scale * scale)
            ctx.agree("statistics std_error", st["std_error"], mstats[2], case, rtol=1e-8, atol=1e-8, scale=scale)
            ctx.agree_exact("statistics num_samples", int(st["num_samples"]), int(mstats[3]), case)
    return True


# ------------------------------------------------------------------------------------ one case
def run_tree(ctx, g, gkey, tkey, stream, maxd, tree=None, extra=None, alt_index=None, iops=None):
    """build the tree with real operators, compare with the oracle and with the model.
    Returns (tree, obj, case) for an accepted composite (so the group can evaluate it again later), else None."""
    from qucumber.observables.observable import ObservableBase
    m = ctx.get_model()
    nleaf = len(g["leaves"])
    rng = np.random.Generator(np.random.PCG64(tkey))
    info = dict(extra or {})
    if tree is None:
        d = int(rng.integers(1, maxd + 1))
        if stream == "linear":
            tree = gen_lin(rng, d, nleaf)
        elif stream == "defect":
            tree, tagd, dpos = gen_defect(rng, max(d, 1), nleaf)
            info["defect"] = tagd
            info["defect_depth"] = dpos
        else:
            tree = gen_random(rng, d, nleaf)
        if iops is None:
            # one tree in three has some of its binary nodes built with the augmented-assignment form
            irng = np.random.Generator(np.random.PCG64(tuple(tkey) + (77,)))
            iops = choose_iops(irng, tree, p=0.35) if irng.random() < 0.34 else []
    iops = as_iops(iops)
    expr = show(tree, g["names"], iops)
    case = {"stream": stream, "gkey": list(gkey), "tkey": list(tkey), "maxd": maxd, "state": g["kind"], "nv": g["nv"],
            "n": g["n"], "leaves": g["names"], "expr": expr, "tree": tree, "iops": sorted(list(q) for q in iops), **info}
    if iops:
        ctx.count("trees with in-place operator forms (+=, -=, *=)")
        ctx.count("in-place operator nodes", len(iops))
    if any(t2 == "const" and isinstance(v2, int) and abs(v2) >= 2 ** 63 for (t2, _, v2) in consts_of(tree)):
        ctx.count("trees with an int scalar beyond 64 bits")
    want_reject = must_reject(tree)
    vary = any(np.ptp(g["vals"][i]) > 0 for i in leaves_of(tree))
    if want_reject:
        nontriv = info.get("defect_depth", 1) >= 1 or stream == "random"
    else:
        nontriv = n_ops(tree) >= 2 and n_consts(tree) >= 1 and vary and contains_leaf(tree)
    ctx.case({"expr": expr, "state": g["kind"], "nv": g["nv"], "n": g["n"]}, nontrivial=bool(nontriv))
    ctx.count("stream:" + stream)
    ctx.count("depth:%d" % depth(tree))
    ctx.count("state:" + g["kind"])
    if "defect" in info:
        ctx.count("defect:" + info["defect"].split(":")[0] + (":" + info["defect"].split(":")[1] if ":" in info["defect"] else ""))

    # ---- implementation: real operators on real objects.  "rejected" = any exception while building
    # (the property does not name an exception class; the class only goes into the histogram)
    subobjs = []
    try:
        obj = real_eval(tree, g["leaves"], keep=subobjs, iops=iops)
        if isinstance(obj, ObservableBase):
            status = "obs"
        elif isinstance(obj, (int, float)):
            status = "scalar"
        else:
            status = "other:" + type(obj).__name__
        errkind = None
    except Exception as e:
        obj, status, errkind = None, "rejected", type(e).__name__
        ctx.count("rejected_with:" + errkind)
    ctx.count("impl:" + status.split(":")[0])

    # ---- oracle 1: rejected exactly when the syntactic predicate says so
    ctx.require("rejected exactly the non-linear / non-numeric constructions", (status == "rejected") == want_reject, case,
                {"impl": status, "errkind": errkind, "predicate_rejects": want_reject})

    # ---- model verdict
    r = m.call("c16_eval", enc_tree(tree), [v.tolist() for v in g["vals"]], g["n"])
    mstat, mrej, mkind, mwf, mshape = r[0], r[1], r[2], r[3], r[4]
    mstatus = {0: "obs", 1: "scalar", 2: "junkvalue", 3: "rejected", 4: "rejected"}[int(mstat)]
    ctx.agree_exact("accept/reject verdict", status, mstatus, case)
    ctx.agree_exact("model predicate vs harness predicate", bool(mrej), want_reject, case)
    if status == "rejected" and mstatus == "rejected":
        ctx.count("errkind_same" if errkind == {3: "TypeError", 4: "ValueError"}[int(mstat)] else "errkind_differs")
    if status == "scalar":
        ref, _ = interp(tree, g["vals"])
        ctx.require("constant expression folds to its value", math.isclose(float(obj), float(ref), rel_tol=1e-9, abs_tol=1e-12), case,
                    {"impl": float(obj), "ref": float(ref)})
        if mstatus == "scalar":
            ctx.agree("folded scalar", float(obj), float(mshape[1]), case)
        ctx.traces += 1
        return None
    if status != "obs":
        ctx.traces += 1
        return None

    # ---- accepted: layout (informational), apply, statistics
    shape = ser_obj(obj, g["ids"])
    if mstatus == "obs":
        ms = canon_model_shape(mshape)
        ctx.count("layout==model" if shape_eq(shape, ms) else "layout!=model (informational: .left/.right layout is not part of the property)")
        ctx.agree_exact("built object well formed", True, bool(mwf), case)
    if want_reject:
        return None                                             # already reported above; nothing to evaluate against
    if not eval_on(ctx, obj, tree, case, g["state"], g["samples"], g["vals"], "state1,batch1"):
        return None
    # a second (state, batch): another state and / or another batch of another length
    if alt_index is None:
        alt_index = int(tkey[-1]) % len(g["alts"])
    a = g["alts"][alt_index]
    eval_on(ctx, obj, tree, case, a["state"], a["samples"], a["vals"], a["label"])
    # ... and the first pair once more: the answer must not have been replaced by the second call's
    if int(tkey[-1]) % 4 == 0:
        eval_on(ctx, obj, tree, case, g["state"], g["samples"], g["vals"], "state1,batch1 (again)", with_model=False)
    subobject_pass(ctx, g, subobjs[:-1], case, rng)
    ctx.traces += 1
    return (tree, obj, case)


def subobject_pass(ctx, g, subobjs, case, rng, defs=None, limit=8):
    """every operand object that was built on the way (sub-tree, object) must STILL evaluate to its own
    sub-expression after its parents were built from it (an operator must not mutate its operands)"""
    from qucumber.observables.observable import ObservableBase
    cands = [(t, o) for t, o in subobjs if isinstance(o, ObservableBase)]
    if len(cands) > limit:
        # the operands nearest to the root (built last) always, a random subset of the others
        last, rest = cands[-3:], cands[:-3]
        pick = sorted(int(i) for i in rng.choice(len(rest), size=limit - 3, replace=False))
        cands = [rest[i] for i in pick] + last
    for t, o in cands:
        te = expand(t, defs) if defs is not None else t
        if must_reject(te):
            continue
        ctx.count("subobject_reevaluated")
        eval_on(ctx, o, te, dict(case, mode=case.get("mode", "subobject"), sub_expr=show(te, g["names"])),
                g["state"], g["samples"], g["vals"], "operand object, after its parent was built", with_model=False,
                with_stats=False)


# ------------------------------------------------------------------------------------ shared sub-objects (DAGs)
FIXED_DAGS = [   # leaf 0 = a, leaf 1 = b;  ["var", j] = the object of definition j
    # s = a + 1; t = s + b; u = s * 2; w = s - b     (s, t, u, w all evaluated afterwards)
    [["add", ["leaf", 0], ["const", "int", 1]], ["add", ["var", 0], ["leaf", 1]], ["mul", ["var", 0], ["const", "int", 2]],
     ["sub", ["var", 0], ["leaf", 1]]],
    # p = 2 * a; q = -p; r = p * 3; w = 3 * p; x = p - 1.5
    [["mul", ["const", "int", 2], ["leaf", 0]], ["neg", ["var", 0]], ["mul", ["var", 0], ["const", "int", 3]],
     ["mul", ["const", "float", 3.0], ["var", 0]], ["sub", ["var", 0], ["const", "float", 1.5]]],
    # d = a - b; e = d + d; f = 2 - d; h = e - f
    [["sub", ["leaf", 0], ["leaf", 1]], ["add", ["var", 0], ["var", 0]], ["sub", ["const", "int", 2], ["var", 0]],
     ["sub", ["var", 1], ["var", 2]]],
    # m = -a; n = m * 0.5; o = -(m); k = n + m
    [["neg", ["leaf", 0]], ["mul", ["var", 0], ["const", "float", 0.5]], ["neg", ["var", 0]], ["add", ["var", 1], ["var", 0]]],
]


def gen_dag(rng, maxd, nleaf):
    """3..5 definitions; every later one uses at least one earlier OBJECT (linear, hence all accepted)"""
    k = int(rng.integers(3, 6))
    defs = [gen_lin(rng, int(rng.integers(1, 3)), nleaf)]
    if defs[0][0] == "leaf":
        defs[0] = ["add", defs[0], rand_scalar(rng)]

    def to_vars(t, nv):
        if t[0] == "leaf" and t[1] >= nleaf:
            return ["var", t[1] - nleaf]
        if t[0] in ("leaf", "const", "junk"):
            return t
        return [t[0]] + [to_vars(c, nv) for c in t[1:]]

    def has_var(t):
        return t[0] == "var" or (t[0] not in ("leaf", "const", "junk") and any(has_var(c) for c in t[1:]))
    for j in range(1, k):
        t = to_vars(gen_lin(rng, int(rng.integers(1, max(2, min(maxd, 3)) + 1)), nleaf + 2 * j), j)
        # leaf indices nleaf .. nleaf+2j-1 map to the j earlier definitions (each twice as likely as a leaf)
        def fold(t):
            if t[0] == "var":
                return ["var", t[1] % j]
            if t[0] in ("leaf", "const", "junk"):
                return t
            return [t[0]] + [fold(c) for c in t[1:]]
        t = fold(t)
        if not has_var(t):
            v = ["var", int(rng.integers(0, j))]
            op = str(rng.choice(["add", "sub", "mul", "neg"]))
            if op == "neg":
                t = ["sub", ["neg", v], t]
            elif op == "mul":
                t = ["add", ["mul", v, rand_scalar(rng)] if rng.random() < 0.5 else ["mul", rand_scalar(rng), v], t]
            else:
                t = [op, v, t] if rng.random() < 0.5 else [op, t, v]
        defs.append(t)
    return defs


def show_dag(defs, names, dag_iops=None):
    dag_iops = dag_iops or {}
    return "; ".join("v%d = %s" % (j, show(t, list(names), as_iops(dag_iops.get(str(j))))) for j, t in enumerate(defs))


def run_dag(ctx, g, gkey, tkey, maxd, defs=None, extra=None, dag_iops=None):
    """several composites that SHARE sub-objects, built in order with the real operators; afterwards every definition's
    object and every operand object is evaluated against its own (expanded) expression.  Returns the kept composites."""
    from qucumber.observables.observable import ObservableBase
    rng = np.random.Generator(np.random.PCG64(tkey))
    if defs is None:
        defs = gen_dag(rng, maxd, len(g["leaves"]))
        if dag_iops is None:
            irng = np.random.Generator(np.random.PCG64(tuple(tkey) + (77,)))
            dag_iops = {str(j): choose_iops(irng, t, p=0.4) for j, t in enumerate(defs)} if irng.random() < 0.5 else {}
    dag_iops = {str(j): sorted(list(q) for q in as_iops(v)) for j, v in (dag_iops or {}).items() if v}
    expr = show_dag(defs, g["names"], dag_iops)
    case = {"stream": "dag", "mode": "dag", "gkey": list(gkey), "tkey": list(tkey), "maxd": maxd, "state": g["kind"],
            "nv": g["nv"], "n": g["n"], "leaves": g["names"], "expr": expr, "dag": defs, "dag_iops": dag_iops, **(extra or {})}
    if dag_iops:
        ctx.count("shared-object programs with in-place operator forms")
    ctx.case({"expr": expr, "state": g["kind"], "nv": g["nv"], "n": g["n"]}, nontrivial=True)
    ctx.count("stream:dag")
    env, subobjs = [], []
    for j, t in enumerate(defs):
        te = expand(t, defs)
        try:
            o = real_eval(t, g["leaves"], env=env, keep=subobjs, iops=as_iops(dag_iops.get(str(j))))
            status = "obs" if isinstance(o, ObservableBase) else "other:" + type(o).__name__
        except Exception as e:
            o, status = None, "rejected"
            ctx.count("rejected_with:" + type(e).__name__)
        ctx.require("rejected exactly the non-linear / non-numeric constructions", (status == "rejected") == must_reject(te),
                    dict(case, definition=j), {"impl": status, "predicate_rejects": must_reject(te)})
        if status != "obs":
            return []
        env.append(o)
        # evaluated once right away (apply only) and again below, after later definitions were built from it
        eval_on(ctx, o, te, dict(case, definition=j, def_expr=show(te, g["names"])), g["state"], g["samples"], g["vals"],
                "definition %d, right after it was built" % j, with_model=False, with_stats=False)
    kept = []
    # all definitions were built: now every shared object must denote its own expression
    for j, t in enumerate(defs):
        te = expand(t, defs)
        cj = dict(case, definition=j, def_expr=show(te, g["names"]))
        if not eval_on(ctx, env[j], te, cj, g["state"], g["samples"], g["vals"], "definition %d, after all were built" % j):
            continue
        a = g["alts"][(int(tkey[-1]) + j) % len(g["alts"])]
        eval_on(ctx, env[j], te, cj, a["state"], a["samples"], a["vals"], a["label"], with_model=False)
        kept.append((te, env[j], cj))
    subobject_pass(ctx, g, subobjs, case, rng, defs=defs, limit=10)
    ctx.traces += 1
    return kept


# ------------------------------------------------------------------------------------ in-place perturbation pass
def perturb_params(state, seed):
    """add noise to every parameter of the state IN PLACE (same objects); returns what is needed to restore.
    The aux bias of the phase network of a density matrix stays 0 (documented contract)."""
    import torch
    gtor = torch.Generator().manual_seed(int(seed))
    saved = []
    for net in state.networks:
        rbm = getattr(state, net)
        for name, p in rbm.named_parameters():
            if net == "rbm_ph" and "aux_bias" in name:
                continue
            saved.append((p, p.data.clone()))
            p.data.add_(0.4 * torch.randn(p.data.shape, generator=gtor, dtype=p.data.dtype))
    return saved


def restore_params(saved):
    for p, old in saved:
        p.data.copy_(old)


def perturbed_pass(ctx, g, kept):
    """every composite built in this group is applied again to the SAME state object and the SAME batch after the
    state's parameters changed in place: its value must follow the state (no stale / cached answer)"""
    if not kept:
        return
    saved = perturb_params(g["state"], g["perturb_seed"])
    try:
        vals = leaf_values(g["leaves"], g["state"], g["samples"])
        if not all(np.all(np.isfinite(v)) for v in vals):
            ctx.count("skipped_nonfinite_leaf(perturbed)")
            return
        changed = any(not np.array_equal(x, y) for x, y in zip(vals, g["vals"]))
        ctx.count("perturbation_changes_a_leaf" if changed else "perturbation_changes_no_leaf")
        for tree, obj, case in kept:
            eval_on(ctx, obj, tree, dict(case, mode="perturbed", perturb_seed=g["perturb_seed"]),
                    g["state"], g["samples"], vals, "state1 perturbed in place,batch1", with_model=False)
    finally:
        restore_params(saved)


# ------------------------------------------------------------------------------------ statistics(...) / sample(...)
class RecordingSampler:
    """instance-level wrapper around nn_state.sample: passes every call through (positional or keyword) and
    records a copy of each returned batch of chain states (the random outcome is recorded, never predicted)"""
    def __init__(self, state):
        self.state, self.log = state, []
        self.orig = state.sample

    def __enter__(self):
        def rec(*a, **k):
            out = self.orig(*a, **k)
            self.log.append(out.detach().clone())
            return out
        self.state.sample = rec
        return self

    def __exit__(self, *exc):
        try:
            del self.state.sample
        except AttributeError:
            pass
        return False


def sampling_case(ctx, g, tree, obj, case, skey):
    """Observable.statistics / Observable.sample of a composite: = one-pass statistics / the arithmetic of the
    interpreter's values on the chain states that nn_state.sample actually returned"""
    import torch
    rng = np.random.Generator(np.random.PCG64(skey))
    state, leaves = g["state"], g["leaves"]
    num_samples = int(rng.integers(4, 11))
    num_chains = int(rng.choice([0, 2, 3, 4]))
    burn_in = int(rng.integers(0, 3))
    steps = int(rng.integers(1, 3))
    form = str(rng.choice(["plain", "initial_state", "sample"], p=[0.5, 0.2, 0.3]))
    case = dict(case, mode="sampling", skey=list(skey), form=form, num_samples=num_samples, num_chains=num_chains,
                burn_in=burn_in, steps=steps)
    torch.manual_seed(int(rng.integers(0, 2 ** 31 - 1)))
    ctx.count("sampling_form:" + form)
    with RecordingSampler(state) as rec:
        if form == "sample":
            ok, out = ctx.call("Observable.sample of an accepted composite", case,
                               lambda: obj.sample(state, k=burn_in + 1, num_samples=num_samples))
        elif form == "initial_state":
            init = torch.tensor(rng.integers(0, 2, size=(max(2, num_chains), g["nv"])), dtype=torch.double)
            ok, out = ctx.call("Observable.statistics of an accepted composite", case,
                               lambda: obj.statistics(state, num_samples, burn_in=burn_in, steps=steps, initial_state=init))
        else:
            ok, out = ctx.call("Observable.statistics of an accepted composite", case,
                               lambda: obj.statistics(state, num_samples, num_chains=num_chains, burn_in=burn_in, steps=steps))
    if not ok:
        return
    if not rec.log:
        ctx.require("statistics / sample draws its samples from the state", False, case, "nn_state.sample was never called")
        return
    chunks = [leaf_values(leaves, state, b) for b in rec.log]
    vals = [np.concatenate([c[i] for c in chunks]) for i in range(len(leaves))]
    if form == "sample":
        vals = [c for c in chunks[-1]]
    n = len(vals[0])
    ref, mag = interp(tree, vals)
    ref = np.broadcast_to(np.asarray(ref, dtype=float), (n,)).copy()
    scale = float(max(1.0, np.max(mag)))
    if not np.all(np.isfinite(ref)) or scale > 1e150:
        ctx.count("skipped_overflow")
        return
    if form == "sample":
        good = isinstance(out, torch.Tensor) and tuple(out.shape) == (n,) and \
            bool(np.all(np.abs(out.detach().numpy().astype(float) - ref) <= 1e-9 * np.abs(ref) + 1e-9 * scale))
        ctx.require("sample == the same arithmetic on the leaves' values of the drawn samples", good, case,
                    {"impl": out.tolist() if isinstance(out, torch.Tensor) else repr(out), "interpreter": ref.tolist()})
        ctx.require("sample draws the requested number of samples", n == num_samples, case, {"drawn": n})
    else:
        good, want = stats_ok(out, ref, scale)
        if not good and len(chunks) >= 2:
            # a leading sample() call may only INITIALISE the chains (its output is the next call's start state, not a
            # draw): the drawn samples are then all recorded batches but the first
            vals2 = [np.concatenate([c[i] for c in chunks[1:]]) for i in range(len(leaves))]
            ref2, mag2 = interp(tree, vals2)
            ref2 = np.broadcast_to(np.asarray(ref2, dtype=float), (len(vals2[0]),)).copy()
            good2, _ = stats_ok(out, ref2, scale)
            if good2:
                ctx.count("statistics:leading_initialisation_call")
                good, vals, n, ref = True, vals2, len(vals2[0]), ref2
        ctx.require("statistics(...) == one-pass statistics of the combined per-sample values of all drawn samples", good, case,
                    {"impl": {k: float(v) for k, v in out.items()} if isinstance(out, dict) else repr(out), "one_pass": want,
                     "draws": [int(b.shape[0]) for b in rec.log]})
        if good:
            ms = ctx.get_model().call("c16_eval", enc_tree(tree), [v.tolist() for v in vals], n)
            if int(ms[0]) == 0 and len(ms[6]) == 4:
                ctx.agree("statistics(...) mean", out["mean"], ms[6][0], case, rtol=1e-9, atol=1e-9, scale=scale)
                ctx.agree("statistics(...) variance", out["variance"], ms[6][1], case, rtol=1e-8, atol=1e-8, scale=scale * scale)
    ctx.traces += 1


# ------------------------------------------------------------------------------------ direct constructor calls
def direct_ctor_cases(ctx, g, gkey):
    """SumObservable / ProdObservable called directly: non-numeric operands and observable*observable are rejected,
    observable with a scalar is accepted.  (scalar, scalar) is not constrained by the property: not demanded.)"""
    from qucumber.observables.observable import SumObservable, ProdObservable
    m = ctx.get_model()
    a, b = g["leaves"][0], g["leaves"][1]
    base = [("leaf0", a, [0, 0]), ("leaf1", b, [0, 1]), ("int", 3, [3, 3.0]), ("float", -2.5, [3, -2.5]),
            ("bool", True, [3, 1.0]), ("f64", np.float64(0.5), [3, 0.5]), ("fsub", FSub(1.5), [3, 1.5])]
    jv = junk_values()
    junks = [("junk:%s:%d" % (k, i), v, [2]) for k in junk_kinds() for i, v in enumerate(jv[k])]
    pairs = [(x, y) for x in base for y in base]
    for j in junks:                                   # every non-numeric value next to an observable and next to a scalar
        pairs += [(j, base[0]), (base[0], j), (j, base[2]), (base[3], j)]
    pairs += [(junks[0], junks[1]), (junks[1], junks[0])]
    for cname, ctor, code in (("SumObservable", SumObservable, 0), ("ProdObservable", ProdObservable, 1)):
        for (n1, v1, e1), (n2, v2, e2) in pairs:
            has_obs = n1.startswith("leaf") or n2.startswith("leaf")
            junk = n1.startswith("junk") or n2.startswith("junk")
            if not has_obs and not junk:
                ctx.count("ctor(scalar,scalar): not constrained by the property, skipped")
                continue
            case = {"stream": "ctor", "gkey": list(gkey), "ctor": cname, "o1": n1, "o2": n2}
            both_obs = n1.startswith("leaf") and n2.startswith("leaf")
            want = junk or (cname == "ProdObservable" and both_obs)
            ctx.case({"ctor": cname, "o1": n1, "o2": n2}, nontrivial=False)
            ctx.count("stream:ctor")
            try:
                obj = ctor(v1, v2)
                status = "obs"
            except Exception as e:
                obj, status = None, "rejected"
                ctx.count("rejected_with:" + type(e).__name__)
            ctx.require("constructor rejects exactly non-numeric operands and observable*observable",
                        (status == "rejected") == want, case, {"impl": status, "must_reject": want})
            r = m.call("c16_ctor", code, e1, e2)
            mstatus = "obs" if int(r[0]) == 0 else "rejected"
            ctx.agree_exact("constructor verdict", status, mstatus, case)
            if status == "obs" and mstatus == "obs":
                ctx.count("ctor layout==model" if shape_eq(ser_obj(obj, g["ids"]), canon_model_shape(r[1]))
                          else "ctor layout!=model (informational)")


# ------------------------------------------------------------------------------------ driver
def plan(ctx):
    if ctx.thorough:
        return {"groups": 500, "lin": 12, "defect": 7, "rand": 6, "dag": 3, "maxd": 6, "sampling": 3}
    return {"groups": 80, "lin": 7, "defect": 4, "rand": 4, "dag": 2, "maxd": 4, "sampling": 2}


FIXED = [  # the forms named in the property / design, always run (leaf 0 = a, leaf 1 = b)
    ["sub", ["leaf", 0], ["leaf", 1]], ["sub", ["leaf", 0], ["const", "int", 3]], ["sub", ["const", "int", 3], ["leaf", 0]],
    ["neg", ["leaf", 0]], ["mul", ["leaf", 0], ["const", "float", 2.5]], ["mul", ["const", "float", 2.5], ["leaf", 0]],
    ["add", ["leaf", 0], ["const", "int", 0]], ["add", ["const", "f64", -1.25], ["leaf", 0]],
    ["add", ["leaf", 0], ["const", "f64", 0.75]], ["sub", ["leaf", 1], ["const", "f64", 0.75]],
    ["add", ["leaf", 0], ["const", "fsub", 0.5]], ["sub", ["const", "isub", 2], ["leaf", 1]],
    ["sub", ["leaf", 0], ["const", "bool", True]], ["mul", ["const", "bool", True], ["leaf", 1]],
    ["mul", ["leaf", 0], ["const", "f64", -0.5]], ["sub", ["const", "f64", 2.0], ["leaf", 1]],
    ["mul", ["leaf", 0], ["const", "int", 0]], ["neg", ["neg", ["leaf", 1]]],
    ["add", ["sub", ["neg", ["leaf", 1]], ["mul", ["const", "int", 3], ["leaf", 0]]], ["const", "int", 1]],
    ["mul", ["leaf", 0], ["leaf", 1]], ["mul", ["leaf", 0], ["leaf", 0]],
    ["mul", ["add", ["leaf", 0], ["const", "int", 1]], ["sub", ["const", "int", 2], ["leaf", 1]]],
    ["add", ["leaf", 0], ["junk", "str", 0]], ["add", ["junk", "none", 0], ["leaf", 0]], ["sub", ["leaf", 0], ["junk", "list", 0]],
    ["sub", ["junk", "complex", 0], ["leaf", 0]], ["mul", ["leaf", 0], ["junk", "dict", 0]], ["mul", ["junk", "tuple", 0], ["leaf", 0]],
    ["mul", ["mul", ["const", "int", 2], ["const", "int", 3]], ["leaf", 0]],
    ["sub", ["const", "int", 2], ["const", "float", 0.5]],
    # operands that float() would coerce: must be rejected like any other non-numeric operand
    ["mul", ["junk", "str", 1], ["leaf", 0]], ["add", ["leaf", 0], ["junk", "str", 2]], ["mul", ["leaf", 0], ["junk", "bytes", 0]],
    ["sub", ["leaf", 0], ["junk", "str", 3]], ["sub", ["junk", "str", 5], ["leaf", 1]], ["add", ["junk", "bytes", 1], ["leaf", 0]],
    ["mul", ["leaf", 1], ["junk", "npstr", 0]], ["add", ["leaf", 1], ["junk", "npstr", 1]], ["mul", ["junk", "bytes", 3], ["leaf", 0]],
    ["add", ["leaf", 0], ["junk", "decimal", 0]], ["mul", ["junk", "fraction", 0], ["leaf", 0]], ["sub", ["leaf", 0], ["junk", "floatable", 0]],
    ["mul", ["leaf", 0], ["junk", "floatable", 1]], ["add", ["junk", "str", 6], ["leaf", 0]], ["mul", ["leaf", 0], ["junk", "complex", 1]],
    # chains of the same operator class (operand objects are re-evaluated after the parent was built)
    ["add", ["add", ["add", ["leaf", 0], ["const", "int", 1]], ["leaf", 1]], ["const", "float", 0.5]],
    ["sub", ["sub", ["leaf", 0], ["leaf", 1]], ["sub", ["leaf", 1], ["const", "int", 2]]],
    ["mul", ["mul", ["const", "int", 2], ["leaf", 0]], ["const", "int", 3]],
    ["mul", ["const", "float", -0.5], ["mul", ["leaf", 1], ["const", "int", 4]]],
    ["neg", ["mul", ["const", "int", 2], ["leaf", 0]]], ["neg", ["neg", ["neg", ["leaf", 0]]]],
    ["sub", ["neg", ["add", ["leaf", 0], ["leaf", 1]]], ["mul", ["neg", ["leaf", 0]], ["const", "int", 2]]],
]


def C(t, v):
    return ["const", t, v]


L0, L1 = ["leaf", 0], ["leaf", 1]
FIXED_INPLACE = [   # (tree, paths of the nodes written as augmented assignments);  a = leaf 0, b = leaf 1
    (["sub", L0, L1], [[]]), (["sub", L0, C("int", 3)], [[]]), (["sub", L0, C("float", 1.5)], [[]]), (["add", L0, L1], [[]]),
    (["add", L0, C("float", 0.5)], [[]]), (["add", L0, C("int", 0)], [[]]), (["mul", L0, C("int", 2)], [[]]),
    (["mul", L0, C("float", -0.5)], [[]]), (["mul", L1, C("f64", 2.5)], [[]]), (["sub", L1, C("f64", 0.75)], [[]]),
    # a scalar variable extended by an observable:  c = 3; c -= a   (Python falls back to a.__rsub__)
    (["sub", C("int", 3), L0], [[]]), (["add", C("float", 1.5), L0], [[]]), (["mul", C("int", 2), L1], [[]]),
    (["sub", C("f64", 2.0), L1], [[]]),
    # H = -b; H -= 3 * a; H += 1; H *= 2      and      G = 2 * a; G -= 1.5
    (["mul", ["add", ["sub", ["neg", L1], ["mul", C("int", 3), L0]], C("int", 1)], C("int", 2)], [[], [1], [1, 1]]),
    (["sub", ["mul", C("int", 2), L0], C("float", 1.5)], [[]]),
    (["sub", ["sub", ["sub", L0, L1], C("int", 1)], ["mul", C("float", 0.5), L1]], [[], [1], [1, 1]]),
    (["add", ["sub", L0, L1], ["sub", L1, C("int", 2)]], [[], [2]]),
    (["sub", ["neg", L0], ["neg", L1]], [[]]),
    (["mul", ["sub", L0, L1], C("int", -3)], [[], [1]]),
    # the left operand is itself a composite (it is re-evaluated afterwards: an in-place form must not change the OBJECT
    # it extends, other composites may share it)
    (["mul", ["mul", C("int", 2), L0], C("int", 3)], [[]]), (["mul", ["neg", L1], C("float", 2.5)], [[]]),
    (["add", ["add", L0, C("int", 1)], L1], [[]]), (["sub", ["mul", L0, C("float", 0.5)], C("int", 1)], [[]]),
    (["mul", ["sub", L0, C("int", 1)], C("int", 2)], [[]]), (["add", ["mul", C("int", 2), L0], ["mul", C("int", 3), L1]], [[]]),
    # in-place forms of the rejected constructions
    (["mul", L0, L1], [[]]), (["mul", L0, L0], [[]]), (["add", L0, ["junk", "str", 0]], [[]]), (["sub", L0, ["junk", "none", 0]], [[]]),
    (["mul", L0, ["junk", "str", 1]], [[]]), (["sub", L0, ["junk", "list", 0]], [[]]), (["mul", L0, ["junk", "complex", 0]], [[]]),
    (["sub", ["sub", L0, C("int", 1)], ["mul", L0, L1]], [[], [2]]),
]
FIXED_BIG = [    # Python ints beyond 64 bits (and their float neighbours) as factors and addends, either side
    ["mul", C("int", 10 ** 20), L0], ["mul", L0, C("int", -10 ** 30)], ["mul", C("int", 2 ** 63), L1], ["mul", L1, C("int", -2 ** 63 - 1)],
    ["mul", C("isub", 2 ** 64 + 1), L0], ["add", L0, C("int", 10 ** 20)], ["sub", C("int", 10 ** 20), L0], ["sub", L0, C("int", -10 ** 30)],
    ["neg", ["mul", C("int", 10 ** 20), L0]], ["sub", ["mul", C("int", 10 ** 20), L0], ["mul", C("int", 10 ** 20), L1]],
    ["mul", C("int", 3), ["mul", C("int", 10 ** 19), L0]], ["mul", ["mul", C("int", 10 ** 10), C("int", 10 ** 10)], L0],
    ["mul", C("float", 1e20), L0], ["mul", L0, C("f64", -1e30)], ["add", ["mul", C("int", 10 ** 38), L0], L1],
]
FIXED_DAGS_INPLACE = [   # (definitions, {definition index: in-place paths})
    # H = -b; H -= 3 * a; H += 1; H *= 2   (every intermediate H is a definition: all must keep their own value)
    ([["neg", L1], ["sub", ["var", 0], ["mul", C("int", 3), L0]], ["add", ["var", 1], C("int", 1)], ["mul", ["var", 2], C("int", 2)]],
     {"1": [[]], "2": [[]], "3": [[]]}),
    # G = 2 * a; K = G; G -= 1.5; K += b; M = G - K
    ([["mul", C("int", 2), L0], ["sub", ["var", 0], C("float", 1.5)], ["add", ["var", 0], L1], ["sub", ["var", 1], ["var", 2]]],
     {"1": [[]], "2": [[]]}),
    # p = 2 * a; q = p; q *= 3; r = p - 1; w = -p; w *= 2; x = q + p
    ([["mul", C("int", 2), L0], ["mul", ["var", 0], C("int", 3)], ["sub", ["var", 0], C("int", 1)], ["mul", ["neg", ["var", 0]], C("int", 2)],
      ["add", ["var", 1], ["var", 0]]], {"1": [[]], "3": [[]]}),
    # s = a + 1; t = s; t -= b; u = s; u *= 2; w = s; w += s
    ([["add", L0, C("int", 1)], ["sub", ["var", 0], L1], ["mul", ["var", 0], C("int", 2)], ["add", ["var", 0], ["var", 0]]],
     {"1": [[]], "2": [[]], "3": [[]]}),
]
SYSTEM_TREES = [     # over LEAF_SPECS_SAME_NAME: Z, |Z|, SWAP[0], SWAP[1], X, |X|  (leaves 0..5)
    ["add", ["mul", C("int", 2), ["leaf", 0]], C("int", 1)], ["mul", C("int", 3), ["leaf", 1]], ["sub", ["leaf", 2], C("int", 1)],
    ["mul", C("float", 0.5), ["leaf", 3]], ["sub", ["leaf", 4], ["leaf", 5]], ["add", ["leaf", 0], ["leaf", 1]],
    ["sub", ["mul", C("int", 2), ["leaf", 2]], ["leaf", 3]], ["neg", ["leaf", 5]], ["add", ["leaf", 1], ["mul", C("float", -1.5), ["leaf", 0]]],
    ["sub", ["add", ["leaf", 0], ["leaf", 4]], ["add", ["leaf", 1], ["leaf", 5]]],
]


def distinct_values(g, i, j):
    return not np.array_equal(g["vals"][i], g["vals"][j])


def system_pass(ctx, g, kept, gkey, sampling=True):
    """the library's container for several observables: System(*composites) must report for every composite the statistics
    of ITS combined per-sample value (statistics_from_samples on the group's batch and on another one; statistics(...) on
    the recorded chains).  Composites whose .name collides with an earlier one are left out (a System is keyed by name)."""
    import torch
    from qucumber.observables import System
    rng = np.random.Generator(np.random.PCG64(tuple(gkey) + (555,)))
    picked, names = [], set()
    order = [int(i) for i in rng.permutation(len(kept))]
    for i in order:
        tree, obj, case = kept[i]
        if case.get("mode") == "dag" and "definition" not in case:
            continue
        try:
            nm = obj.name
        except Exception:
            continue
        if nm in names:
            ctx.count("system: composite left out (same .name as another one)")
            continue
        ref, mag = interp(tree, g["vals"])
        if not np.all(np.isfinite(ref)) or float(np.max(mag)) > 1e150:
            continue
        names.add(nm)
        picked.append((tree, obj, case))
        if len(picked) >= 6:
            break
    if not picked:
        return
    lv = set()
    for tree, _, _ in picked:
        lv |= leaves_of(tree)
    lnames = {}
    for i in lv:
        lnames.setdefault(getattr(g["leaves"][i], "name", None), []).append(i)
    clash = any(len(v) > 1 and any(distinct_values(g, v[0], j) for j in v[1:]) for v in lnames.values())
    ctx.count("system: leaves of the same .name with different values in one System" if clash else "system: leaf names distinct")
    base = {"stream": "system", "mode": "system", "gkey": list(gkey), "state": g["kind"], "nv": g["nv"], "n": g["n"],
            "leaves": g["names"], "composites": [c.get("def_expr") or c.get("expr") for _, _, c in picked],
            "group": picked[0][2].get("group")}
    ctx.case({"system": base["composites"], "state": g["kind"], "nv": g["nv"], "n": g["n"]}, nontrivial=len(picked) >= 2)
    ctx.count("stream:system")
    ok, sysobj = ctx.call("System(*composites)", base, lambda: System(*[o for _, o, _ in picked]))
    if not ok:
        return
    for label, state, samples, vals in [("state1,batch1", g["state"], g["samples"], g["vals"])] + \
            [(a["label"], a["state"], a["samples"], a["vals"]) for a in g["alts"][1:2]]:
        if int(samples.shape[0]) < 2:
            continue
        case = dict(base, evaluated_on=label)
        ok, res = ctx.call("System.statistics_from_samples", case, lambda: sysobj.statistics_from_samples(state, samples.clone()))
        if not ok:
            continue
        for tree, obj, c in picked:
            ref, mag = interp(tree, vals)
            ref = np.broadcast_to(np.asarray(ref, dtype=float), (int(samples.shape[0]),)).copy()
            scale = float(max(1.0, np.max(mag)))
            st = res.get(obj.name) if isinstance(res, dict) else None
            good, want = stats_ok(st, ref, scale)
            ctx.require("System reports for a composite the statistics of its combined per-sample value", good,
                        dict(case, composite=c.get("def_expr") or c.get("expr"), tree=tree, iops=c.get("iops", [])),
                        {"impl": {k: float(v) for k, v in st.items()} if isinstance(st, dict) else repr(st), "one_pass": want})
    if not sampling:
        ctx.traces += 1
        return
    num_samples = int(rng.integers(4, 11))
    num_chains = int(rng.choice([0, 2, 3, 4]))
    burn_in, steps = int(rng.integers(0, 3)), int(rng.integers(1, 3))
    case = dict(base, form="System.statistics", num_samples=num_samples, num_chains=num_chains, burn_in=burn_in, steps=steps)
    torch.manual_seed(int(rng.integers(0, 2 ** 31 - 1)))
    state = g["state"]
    with RecordingSampler(state) as rec:
        ok, res = ctx.call("System.statistics with composites", case,
                           lambda: sysobj.statistics(state, num_samples, num_chains=num_chains, burn_in=burn_in, steps=steps))
    if not ok or not rec.log:
        return
    chunks = [leaf_values(g["leaves"], state, b) for b in rec.log]
    for skip in (0, 1):         # a leading sample() call may only initialise the chains (see sampling_case)
        if skip and len(chunks) < 2:
            break
        vals = [np.concatenate([c[i] for c in chunks[skip:]]) for i in range(len(g["leaves"]))]
        allgood, bad = True, None
        for tree, obj, c in picked:
            ref, mag = interp(tree, vals)
            ref = np.broadcast_to(np.asarray(ref, dtype=float), (len(vals[0]),)).copy()
            scale = float(max(1.0, np.max(mag)))
            if not np.all(np.isfinite(ref)):
                continue
            st = res.get(obj.name) if isinstance(res, dict) else None
            good, want = stats_ok(st, ref, scale)
            if not good:
                allgood = False
                bad = bad or (tree, c, st, want)
        if allgood:
            break
    if not allgood:
        tree, c, st, want = bad
        ctx.require("System.statistics(...) reports for a composite the one-pass statistics of its combined per-sample values", False,
                    dict(case, composite=c.get("def_expr") or c.get("expr"), tree=tree),
                    {"impl": {k: float(v) for k, v in st.items()} if isinstance(st, dict) else repr(st), "one_pass": want,
                     "draws": [int(b.shape[0]) for b in rec.log]})
    ctx.traces += 1


def run_system_group(ctx, gkey, P):
    """fixed: composites over pairs of different leaves that carry the same .name, evaluated alone and through a System"""
    gkey = tuple(gkey)
    g = make_group(ctx, gkey, forced=LEAF_SPECS_SAME_NAME)
    if not finite_group(g):
        ctx.count("skipped_nonfinite_leaf")
        return
    for i, j in ((0, 1), (2, 3), (4, 5)):
        ctx.count("system group: same-name leaves %s" % ("differ on the batch" if distinct_values(g, i, j) else "coincide on the batch"))
    grp = {"gkey": list(gkey), "P": P, "system_group": True}
    kept = []
    for t, tree in enumerate(SYSTEM_TREES):
        k = run_tree(ctx, g, gkey, gkey + (t,), "fixed-system", P["maxd"], tree=tree, extra={"group": grp})
        if k:
            kept.append(k)
    for a in range(0, len(kept), 5):
        system_pass(ctx, g, kept[a:a + 6], gkey + (a,))
    # one System holding a single composite that contains both same-name leaves
    for k in kept:
        if leaves_of(k[0]) >= {0, 1}:
            system_pass(ctx, g, [k], gkey + (99,), sampling=False)


def run_group(ctx, gkey, P, fixed=None, ctor=False):
    """one group: build all trees, evaluate each accepted composite on two (state, batch) pairs, then the
    in-place perturbation pass over all of them, then statistics(...) / sample(...) on a few"""
    gkey = tuple(gkey)
    g = make_group(ctx, gkey)
    if not finite_group(g):
        ctx.count("skipped_nonfinite_leaf")
        return
    # the leaves are deterministic: a second application gives the same values (assumption of the oracle)
    again = leaf_values(g["leaves"], g["state"], g["samples"])
    ctx.require("leaf apply is deterministic", all(np.array_equal(x, y) for x, y in zip(again, g["vals"])),
                {"stream": "leaf", "gkey": list(gkey)})
    grp = {"gkey": list(gkey), "P": P, "fixed": fixed is not None, "ctor": bool(ctor)}
    kept = []
    t = 0
    if fixed is not None:
        for tree in fixed:
            k = run_tree(ctx, g, gkey, gkey + (t,), "fixed", P["maxd"], tree=tree, extra={"group": grp})
            if k:
                kept.append(k)
            t += 1
        for tree, iops in FIXED_INPLACE:
            k = run_tree(ctx, g, gkey, gkey + (t,), "fixed-inplace", P["maxd"], tree=tree, extra={"group": grp}, iops=iops)
            if k:
                kept.append(k)
            t += 1
        for tree in FIXED_BIG:
            k = run_tree(ctx, g, gkey, gkey + (t,), "fixed-bigint", P["maxd"], tree=tree, extra={"group": grp})
            if k:
                kept.append(k)
            t += 1
        for defs in FIXED_DAGS:
            kept += run_dag(ctx, g, gkey, gkey + (t,), P["maxd"], defs=defs, extra={"group": grp})
            t += 1
        for defs, di in FIXED_DAGS_INPLACE:
            kept += run_dag(ctx, g, gkey, gkey + (t,), P["maxd"], defs=defs, extra={"group": grp}, dag_iops=di)
            t += 1
    else:
        for stream, cnt in (("linear", P["lin"]), ("defect", P["defect"]), ("random", P["rand"])):
            for _ in range(cnt):
                k = run_tree(ctx, g, gkey, gkey + (t,), stream, P["maxd"], extra={"group": grp})
                if k:
                    kept.append(k)
                t += 1
        for _ in range(P.get("dag", 2)):
            kept += run_dag(ctx, g, gkey, gkey + (t,), P["maxd"], extra={"group": grp})
            t += 1
    # the leaf observables themselves were used as operands many times: they must not have been changed by that
    after = leaf_values(g["leaves"], g["state"], g["samples"])
    ctx.require("a leaf observable still evaluates as before after being used as an operand",
                all(np.array_equal(x, y) for x, y in zip(after, g["vals"])),
                {"stream": "leaf", "mode": "leaf_after", "gkey": list(gkey), "group": grp, "leaves": g["names"]})
    perturbed_pass(ctx, g, kept)
    # statistics(...) / sample(...): prefer composites with several operators
    cand = sorted(kept, key=lambda k: -min(n_ops(k[0]), 3))[:P.get("sampling", 2)]
    for j, (tree, obj, case) in enumerate(cand):
        sampling_case(ctx, g, tree, obj, case, gkey + (900 + j,))
    system_pass(ctx, g, kept, gkey, sampling=(fixed is not None or int(gkey[-1]) % 4 == 0))
    if ctor:
        direct_ctor_cases(ctx, g, gkey)


def run(ctx):
    P = plan(ctx)
    run_group(ctx, (ctx.seed, 16, 7, 0), P, fixed=FIXED, ctor=True)
    for j in range(2):
        run_system_group(ctx, (ctx.seed, 16, 8, j), P)
    for gi in range(P["groups"]):
        run_group(ctx, (ctx.seed, 16, 0, gi), P, ctor=(gi % 20 == 10))


def search(ctx, broken, budget):
    """wider oracle sweep when the proof or the correspondence broke"""
    t0 = time.time()
    n0 = len(ctx.failures)
    P = {"groups": 0, "lin": 12, "defect": 6, "rand": 6, "dag": 3, "maxd": 6 if ctx.thorough else 4, "sampling": 2}
    gi = 0
    while time.time() - t0 < budget:
        run_group(ctx, (ctx.seed, 16, 1, gi), P, ctor=(gi == 0))
        gi += 1
        if len(ctx.failures) > n0:
            return ctx.failures[n0]
    return None


def shrink(ctx, rec):
    """replace the failing tree by its smallest failing sub-tree / simplification (same group).  Only for failures
    of the plain per-tree evaluation; perturbed / sampling failures are replayed through their whole group."""
    case = rec.get("case", {})
    if "tree" not in case or "gkey" not in case or case.get("mode") in ("perturbed", "sampling", "dag", "subobject", "system") \
            or case.get("iops") or (case.get("group") or {}).get("system_group"):
        return rec
    gkey = tuple(case["gkey"])
    g = make_group(ctx, gkey)
    best = rec
    tree = case["tree"]
    improved = True
    rounds = 0
    while improved and rounds < 40:
        improved = False
        rounds += 1
        cands = []
        if tree[0] == "neg":
            cands = [tree[1]]
        elif tree[0] in OPS:
            cands = [tree[1], tree[2]]
            for idx in (1, 2):
                if tree[idx][0] not in ("leaf", "const", "junk"):
                    for sub in tree[idx][1:]:
                        cands.append(replace_at(tree, (idx,), sub))
        for c in cands:
            n0 = len(ctx.failures)
            k0 = len(ctx.known_hits)
            try:
                run_tree(ctx, g, gkey, tuple(case.get("tkey", gkey)), "shrink", case.get("maxd", 4), tree=c)
            except Exception:
                continue
            if len(ctx.failures) > n0:
                new = ctx.failures[n0]
                del ctx.failures[n0:]
                best, tree, improved = new, c, True
                break
            del ctx.known_hits[k0:]
    return best


def replay(ctx, rec):
    case = rec.get("failing", {}).get("case", {})
    grp = case.get("group")
    if case.get("mode") == "dag" and "dag" in case:
        gkey = tuple(case["gkey"])
        g = make_group(ctx, gkey)
        print("replay of shared-object program", case.get("expr"), "on", case.get("state"), "nv", case.get("nv"), "n", case.get("n"))
        kept = run_dag(ctx, g, gkey, tuple(case.get("tkey", gkey)), case.get("maxd", 4), defs=case["dag"],
                       dag_iops=case.get("dag_iops") or {})
        if case.get("perturb_seed") is not None:
            perturbed_pass(ctx, g, kept)
        return
    if grp and grp.get("system_group"):
        print("replay of the same-name-leaves System group", grp["gkey"])
        run_system_group(ctx, tuple(grp["gkey"]), grp["P"])
        return
    if case.get("mode") in ("perturbed", "sampling", "leaf_after", "system") and grp:
        print("replay of group", grp["gkey"], "(", case.get("mode"), "failure of", case.get("expr") or case.get("composite"), ")")
        run_group(ctx, tuple(grp["gkey"]), grp["P"], fixed=FIXED if grp.get("fixed") else None, ctor=False)
        return
    if case.get("stream") in ("ctor", "leaf") or "tree" not in case:
        gkey = tuple(case.get("gkey", (ctx.seed, 16, 7, 0)))
        g = make_group(ctx, gkey)
        direct_ctor_cases(ctx, g, gkey)
        return
    gkey = tuple(case["gkey"])
    g = make_group(ctx, gkey)
    print("replay of", case.get("expr"), "on", case.get("state"), "nv", case.get("nv"), "n", case.get("n"))
    run_tree(ctx, g, gkey, tuple(case.get("tkey", gkey)), case.get("stream", "replay"), case.get("maxd", 4), tree=case["tree"],
             iops=case.get("iops") or [])
