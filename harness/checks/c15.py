"""C15 — the complex-tensor kernel (qucumber/utils/cplx.py) agrees with complex arithmetic.

Oracle (independent of the code): every public function of cplx.py is evaluated on operands decoded to numpy
complex128 (z = t[0] + 1j*t[1]) and compared with numpy's complex arithmetic (np.kron, np.vdot, np.einsum on
complex arrays, np.conj(np.swapaxes), x / y ...): scalars, vectors, matrices, rank-3/4 batches, size-1 and empty
dimensions, every broadcast combination, float64 operands and the float32 constant cplx.I, out= buffers (fresh:
result correct, returned object is out, operands untouched; out is x / out is y: RuntimeError), malformed operands
(error kind).  The view-aliasing case scalar_mult(x, y, out=x[:]) is reported through
ctx.require("out= view aliasing an operand is rejected", ...) and matches the open known finding F-C15-out-view.

Correspondence: every function of the extracted Coq model Cplx.v (ocaml/reg_c15.ml entry points c15_*), ranks 0..4,
values within the default tolerances, result tags / error kinds / returned-object identity / storage contents
after an out= call exactly.

Every case is a self-contained dict {"fn": ..., operands as nested lists, options}; eval_case(ctx, case) re-runs
it (this is what replay does).  Every returned tensor is kept (hold()) and compared bit-for-bit with a snapshot after the
next call and once more 24 calls later; a failure record of that kind carries the later call under "later"."""
import time
import numpy as np
import gen
import common

RULE = ("table of per-function generators over cplx.py (make_complex, numpy, real, imag, scalar_mult, elementwise_mult, "
        "scalar_mult(out=), matmul, inner_prod, outer_prod, einsum, kronecker_prod, conj, conjugate, absolute_value, "
        "elementwise_division, scalar_divide, inverse, sigmoid, norm_sqr, norm): operand shapes = fixed covering list "
        "(ranks 0..4, size-1 dims, non-square, broadcast pairs, empty dims vs numpy only) + random shapes with dims in "
        "{1,2,3,4} (thorough: all dim combinations for matmul/kron/outer), values from the mixture in harness/gen.py "
        "(normal | uniform | sparse large magnitudes up to 30 | exact zeros), divisors forced away from 0, the float32 "
        "constant cplx.I as operand, out= modes fresh (contiguous and strided buffers)/x/y/view-of-x/view-of-y/wrong shape, "
        "malformed operands per function (any exception counts as rejection); every third valid case has its operands in "
        "a non-contiguous layout (strided slice, real/imag interleaved, transposed storage, stride-0 expansion); a wide "
        "stream 1e-100..1e100 (hard requirement) and an extreme stream 1e+-155..1e+-300 / sigmoid |x| > 700 (reported as "
        "'extreme magnitudes: ...', open known finding); sigmoid with broadcasting real/imaginary arguments; "
        "round-2 classes, fixed cases FIRST + random streams: (a) every function twice in a row on different operands of the "
        "same shapes, and EVERY result of the run is kept and re-verified bit-for-bit after the next call and again 24 calls "
        "later (a result living in a reused buffer); (b) einsum equation forms: implicit output, upper-case labels (incl. P/Q/R), "
        "'...' anywhere, blanks, repeated labels inside an operand, empty output, rank-0 operands - 39 fixed + random equations "
        "(numpy's complex einsum is the reference); (c) sigmoid next to the poles z = i(2k+1)pi, |z - pole| = 0.3 .. 1e-10 in 8 "
        "directions, k = -3..2, alone and mixed with ordinary entries (tolerance 1e-9 + 64 eps / |1+e^z| relative); "
        "(d) make_complex(ndarray) on views: all / first / last axis reversed (negative strides), strided, transposed, Fortran, "
        "0-d views, .real of a complex base, read-only, dtypes complex128/float64 (+int64/complex64); a case is "
        "(function, options, operand values); non-trivial := every complex operand has a non-zero imaginary part and, "
        "for shaped functions, the shapes are non-square / the operands differ (so transposition, argument order and "
        "conjugation side are observable)")
ASSUMPTIONS = ["torch.mul/matmul/dot/ger/einsum/cat/transpose and numpy complex128 arithmetic implement the real/complex "
               "operations up to rounding (oracle tolerance 1e-9 relative to the magnitude of the summands)",
               "magnitudes: ordinary stream |value| <= ~180, wide stream 1e-100..1e100 (hard requirement, native result "
               "finite), extreme stream 1e+-155..1e+-300 and sigmoid |x| up to 745 (reported as 'extreme magnitudes: ...', "
               "an open known finding: |z|^2 overflows / underflows inside the kernel)",
               "divisors are non-zero (|z| >= 0.05 in the ordinary stream); sigmoid arguments with |1 + e^z| < 1e-12 are "
               "skipped / not compared (the quotient is not resolved by double precision there); next to a pole the comparison "
               "allows the rounding error 64 eps / |1+e^z| that any complex128 evaluation of e^z/(1+e^z) has",
               "a returned tensor is a value: it must not change when the kernel is called again (results are re-verified "
               "after later calls); results that are views of an OPERAND (real, imag) are allowed",
               "the error CLASS raised for malformed operands is not part of the property (any exception counts); the "
               "model's ValueErr/RuntimeErr are compared with the implementation only as raises / returns",
               "empty dimensions, batched matmul, other einsum equations and the extreme stream are compared with numpy "
               "only (not with the model); sigmoid is compared with the model for |x| <= 300 (the model divides naively)"]
EXTREME_WHAT = "extreme magnitudes: result equals native complex arithmetic"
WRONG_SHAPE_WHAT = "out= buffer of the wrong shape is rejected"

KNOWN_WHAT = "out= view aliasing an operand is rejected"
KIND_NAME = {0: "no error", 1: "ValueError", 2: "RuntimeError"}
KIND_CODE = {"ValueError": 1, "RuntimeError": 2}
EQS = ["ab,cd->acbd", "ib,ibg->bg", "b,bg->g", "ijb,ijbg->bg"]


# --------------------------------------------------------------------------- small helpers
def T(a):
    """complex ndarray -> tensor in the library's layout [2, ...] (built without the code under test)."""
    import torch
    a = np.asarray(a, dtype=np.complex128)
    return torch.tensor(np.stack([a.real, a.imag]), dtype=torch.double)


def R(a):
    import torch
    return torch.tensor(np.asarray(a, dtype=np.float64), dtype=torch.double)


def Z(t):
    """decode a library complex tensor to numpy complex128"""
    return t[0].detach().cpu().numpy().astype(np.float64) + 1j * t[1].detach().cpu().numpy().astype(np.float64)


def put(case, key, t):
    case[key] = t.tolist()
    case[key + "_shape"] = list(t.shape)
    return case


def relayout(t, layout):
    """same values and shape, different memory layout: 's' strided slice of a larger buffer, 'i' real/imag interleaved
    (the complex axis has stride 1, as in numpy complex arrays), 't' first two tensor axes stored transposed,
    'e' stride-0 expansion of the first tensor axis (only when the values are constant along it)"""
    import torch
    if not layout or t.numel() == 0 or t.dim() == 0:
        return t
    if layout == "s":
        big = torch.full(tuple(t.shape[:-1]) + (2 * t.shape[-1] + 1,), 99.0, dtype=t.dtype)
        v = big[..., 1::2]
        v.copy_(t)
        return v
    if layout == "i" and t.dim() >= 2:
        return t.movedim(0, -1).contiguous().movedim(-1, 0)
    if layout == "t" and t.dim() >= 3:
        return t.transpose(1, 2).contiguous().transpose(1, 2)
    if layout == "e" and t.dim() >= 2 and bool((t == t[:, :1]).all()):
        return t[:, :1].expand(*t.shape)
    return t


def mk(case, key):
    """rebuild the operand tensor of a case (exact: doubles survive tolist / json), in the recorded memory layout"""
    import torch
    shp = case.get(key + "_shape")
    t = torch.tensor(common.flat(case[key]), dtype=torch.double)
    if shp is None:
        shp = common.shape_of(case[key])
    return relayout(t.reshape([int(s) for s in shp]), case.get(key + "_layout"))


def ekind(e):
    if isinstance(e, ValueError):
        return 1
    if isinstance(e, RuntimeError):
        return 2
    return type(e).__name__


def kname(k):
    return KIND_NAME.get(k, str(k))


_LAST = [None]       # the value returned by the most recent successful implementation call (see hold())


def impl(f):
    try:
        v = f()
        _LAST[0] = v
        return 0, v
    except common.ModelError:
        raise
    except Exception as e:      # the error kind is data here
        return ekind(e), e


# ----- results are VALUES: what a call returned must not be changed by later calls of the kernel (a result living in a
# cached / shared work buffer would be overwritten by the next call on operands of the same shape)
HELD_WHAT = "the value returned by an earlier call is not changed by later kernel calls"
HELD_WINDOW = 24


def _same(a, b):
    if isinstance(a, np.ndarray) or isinstance(a, np.generic):
        a, b = np.asarray(a), np.asarray(b)
        return a.shape == b.shape and bool(np.array_equal(a, b, equal_nan=True))
    return a.shape == b.shape and bool(((a == b) | ((a != a) & (b != b))).all())


def _snapshot(v):
    import torch
    if isinstance(v, torch.Tensor):
        return v.detach().clone()
    if isinstance(v, (np.ndarray, np.generic)):
        return np.array(v, copy=True)
    return None


def _check_held(ctx, entry, later, calls_ago):
    val, snap, case = entry
    if _same(val, snap):
        return True
    c = dict(case, held_result_changed=True, calls_ago=int(calls_ago),
             later_call={"fn": later.get("fn"), "shapes": [later.get("x_shape"), later.get("y_shape")]})
    if calls_ago == 1:
        c["later"] = later                       # self-contained: replay runs the two calls one after the other
    try:
        d = np.asarray(val.detach() if hasattr(val, "detach") else val, dtype=float) - np.asarray(snap, dtype=float)
        detail = "the tensor returned by %s changed by up to %.3g after %d later call(s) (last: %s)" % (
            case.get("fn"), float(np.nanmax(np.abs(d))) if d.size else 0.0, calls_ago, later.get("fn"))
    except Exception:
        detail = "the returned object changed after a later call"
    ctx.require(HELD_WHAT, False, c, detail)
    entry[1] = _snapshot(val)                    # report a change once
    return False


def hold(ctx, case, val):
    """called after every case: re-verify the newest earlier result now, and every result once more when it leaves the
    window of HELD_WINDOW calls; then keep this call's result"""
    ring = ctx.__dict__.setdefault("_c15_ring", [])
    if ring:
        _check_held(ctx, ring[-1], case, 1)
    if len(ring) >= HELD_WINDOW:
        _check_held(ctx, ring.pop(0), case, HELD_WINDOW)
    snap = _snapshot(val)
    if snap is not None:
        ring.append([val, snap, {k: v for k, v in case.items() if k != "later"}])
        ctx.count("held results re-verified after later calls")


def flush_held(ctx):
    ring = ctx.__dict__.setdefault("_c15_ring", [])
    for i, e in enumerate(ring):
        _check_held(ctx, e, {"fn": "(end of the generator)"}, len(ring) - i + 1)
    del ring[:]


def okc(got, want, scale, rtol=1e-9):
    got = np.asarray(got)
    want = np.asarray(want)
    if got.shape != want.shape:
        return False, "shape %s, expected %s" % (list(got.shape), list(want.shape))
    if want.size == 0:
        return True, ""
    atol = rtol * float(scale)
    if np.allclose(got, want, rtol=rtol, atol=atol):
        return True, ""
    d = np.abs(got - want)
    i = int(np.argmax(np.where(np.isnan(d), np.inf, d)))
    return False, "max |diff| %.3g at flat index %d: got %r, expected %r (atol %.3g)" % (
        float(d.flat[i]), i, complex(got.flat[i]) if np.iscomplexobj(got) else float(got.flat[i]),
        complex(want.flat[i]) if np.iscomplexobj(want) else float(want.flat[i]), atol)


def decode(val, rk):
    import torch
    if rk == "n":
        if not isinstance(val, (np.ndarray, np.generic)):       # a complex scalar decodes to a numpy scalar
            raise TypeError("not a numpy array: %r" % type(val))
        return np.asarray(val)
    if not isinstance(val, torch.Tensor):
        raise TypeError("not a tensor: %r" % type(val))
    if rk == "r":
        return val.detach().cpu().numpy().astype(np.float64)
    if val.dim() < 1 or val.shape[0] != 2:
        raise TypeError("not a complex tensor: shape %s" % list(val.shape))
    return Z(val)


def amax(a):
    a = np.asarray(a)
    return float(np.abs(a).max()) if a.size else 0.0


def modelable(*ts):
    """the wire has no empty dimensions and ranks 0..4"""
    for t in ts:
        if t.numel() == 0 or t.dim() > 5:
            return False
    return True


def req_value(ctx, case, fn, kind, val, want, scale, rk="c", rtol=1e-9):
    if kind != 0:
        ctx.require("%s raised %s on valid operands" % (fn, kname(kind)), False, case, repr(val)[:300])
        return False
    try:
        got = decode(val, rk)
    except Exception as e:
        ctx.require("%s returns a tensor of the documented form" % fn, False, case, repr(e)[:300])
        return False
    ok, detail = okc(got, want, scale, rtol)
    ctx.require("%s == numpy complex128 reference" % fn, ok, case, detail)
    return ok


def req_error(ctx, case, fn, kind, val, expect=None):
    """the property only says 'rejected with an error': ANY exception counts, a returned value does not"""
    return ctx.require("%s rejects malformed operands with an error" % fn, kind != 0, case,
                       "returned a value instead of raising: " + repr(val)[:200])


def corr_kind(ctx, case, fn, kind, tag):
    """raises vs returns (the exception class is not compared: it is not part of the property)"""
    if kind != 0 and int(tag) != 0 and kind in (1, 2) and kind != int(tag):
        ctx.count("err:class differs from the model's (not compared)")
    return ctx.agree_exact(fn + ": raises (1) / returns (0)", int(kind != 0), int(int(tag) != 0), case)


def corr_value(ctx, case, fn, val, mval, scale, **tol):
    ishape = list(val.shape) if hasattr(val, "shape") else common.shape_of(val)
    if ctx.agree_exact(fn + ": result shape", [int(s) for s in ishape], common.shape_of(mval), case):
        ctx.agree(fn + ": value", val, mval, case, scale=max(1.0, float(scale)), **tol)


def corr_res(ctx, case, fn, kind, val, mres, scale, **tol):
    if corr_kind(ctx, case, fn, kind, mres[0]) and kind == 0:
        corr_value(ctx, case, fn, val, mres[1], scale, **tol)


def unchanged(ctx, case, fn, pairs):
    import torch
    ok = all(torch.equal(a, b) for a, b in pairs)
    ctx.require("%s leaves its operands unchanged" % fn, ok, case)


# --------------------------------------------------------------------------- reference semantics (numpy complex128)
def ref_sigmoid(x, y):
    """e^z / (1 + e^z) evaluated without overflow: 1 / (1 + e^-z) for re z >= 0"""
    z = np.asarray(x, dtype=np.float64) + 1j * np.asarray(y, dtype=np.float64)
    with np.errstate(all="ignore"):
        pos = 1.0 / (1.0 + np.exp(-np.where(z.real >= 0, z, 0)))
        ez = np.exp(np.where(z.real < 0, z, 0))
        neg = ez / (1.0 + ez)
    return np.where(z.real >= 0, pos, neg)


def ref_norm(X):
    X = np.asarray(X).reshape(-1)
    m = amax(X)
    if m == 0.0 or not np.isfinite(m):
        return m
    return m * float(np.sqrt(np.sum(np.abs(X / m) ** 2)))


def _bprod(X, Y):
    return amax(np.abs(X) * np.abs(Y))


def _ref_inner(X, Y):
    return np.vdot(X, Y) if X.ndim == 1 else np.conj(X) * Y        # conj on the LEFT argument


def _ref_conjugate(X):
    return np.conj(X) if X.ndim < 2 else np.conj(np.swapaxes(X, 0, 1))


BIN = {
    # fn: (call, reference, magnitude of the summands, model entry point)
    "scalar_mult": (lambda c, x, y: c.scalar_mult(x, y), lambda X, Y: X * Y, _bprod, "c15_scalar_mult"),
    "elementwise_mult": (lambda c, x, y: c.elementwise_mult(x, y), lambda X, Y: X * Y, _bprod, "c15_elementwise_mult"),
    "matmul": (lambda c, x, y: c.matmul(x, y), lambda X, Y: X @ Y,
               lambda X, Y: amax(np.abs(X) @ np.abs(Y)), "c15_matmul"),
    "inner_prod": (lambda c, x, y: c.inner_prod(x, y), _ref_inner,
                   lambda X, Y: float(np.sum(np.abs(X) * np.abs(Y))) if X.ndim == 1 else _bprod(X, Y), "c15_inner_prod"),
    "outer_prod": (lambda c, x, y: c.outer_prod(x, y), lambda X, Y: np.outer(X, np.conj(Y)),
                   lambda X, Y: amax(X) * amax(Y), "c15_outer_prod"),
    "kronecker_prod": (lambda c, x, y: c.kronecker_prod(x, y), lambda X, Y: np.kron(X, Y),
                       lambda X, Y: amax(X) * amax(Y), "c15_kronecker_prod"),
    "elementwise_division": (lambda c, x, y: c.elementwise_division(x, y), lambda X, Y: X / Y,
                             lambda X, Y: amax(X / Y), "c15_elementwise_division"),
    "scalar_divide": (lambda c, x, y: c.scalar_divide(x, y), lambda X, Y: X / Y,
                      lambda X, Y: amax(X / Y), "c15_scalar_divide"),
}

UN = {
    # fn: (call, reference, scale, result kind c|r|n, model entry point, model returns res?)
    "numpy": (lambda c, x: c.numpy(x), lambda X: X, lambda X: 0.0, "n", None, False),
    "real": (lambda c, x: c.real(x), lambda X: X.real, lambda X: 0.0, "r", "c15_real", False),
    "imag": (lambda c, x: c.imag(x), lambda X: X.imag, lambda X: 0.0, "r", "c15_imag", False),
    "conj": (lambda c, x: c.conj(x), np.conj, lambda X: 0.0, "c", "c15_conj", False),
    "conjugate": (lambda c, x: c.conjugate(x), _ref_conjugate, lambda X: 0.0, "c", "c15_conjugate", False),
    "absolute_value": (lambda c, x: c.absolute_value(x), np.abs, amax, "r", "c15_absolute_value", False),
    "inverse": (lambda c, x: c.inverse(x), lambda X: 1.0 / X, lambda X: amax(1.0 / X), "c", "c15_inverse", False),
    "norm_sqr": (lambda c, x: c.norm_sqr(x), lambda X: np.sum(np.abs(X) ** 2), lambda X: float(np.sum(np.abs(X) ** 2)),
                 "r", "c15_norm_sqr", True),
    "norm": (lambda c, x: c.norm(x), lambda X: np.sqrt(np.sum(np.abs(X) ** 2)),
             lambda X: float(np.sqrt(np.sum(np.abs(X) ** 2))), "r", "c15_norm", True),
}


# --------------------------------------------------------------------------- evaluators (one per family)
def eval_bin(ctx, cplx, case, corr):
    import torch
    fn = case["fn"]
    call, ref, bound, mname = BIN[fn]
    x = cplx.I if case.get("x_is_I") else mk(case, "x")
    y = cplx.I if case.get("y_is_I") else mk(case, "y")
    x0, y0 = x.clone(), y.clone()
    kind, val = impl(lambda: call(cplx, x, y))
    expect = case.get("expect")
    f32 = (x.dtype == torch.float32)
    scale = 1.0
    if expect:
        if not case.get("soft"):
            req_error(ctx, case, fn, kind, val, expect)
    else:
        X, Y = Z(x0), Z(y0)
        want = ref(X, Y)
        scale = bound(X, Y)
        if kind != 0 and case.get("value_or_reject"):
            ctx.count("%s: undocumented broadcast form rejected (allowed)" % fn)
        else:
            req_value(ctx, case, fn, kind, val, want, scale, rtol=(1e-5 if f32 else 1e-9))
    unchanged(ctx, case, fn, [(x, x0), (y, y0)])
    ctx.count("err:" + kname(kind))
    if kind != 0 and case.get("value_or_reject"):
        return
    if not corr or not modelable(x0, y0):
        return
    if fn == "matmul" and not (x0.dim() == 3 and y0.dim() in (2, 3)):
        return                                           # batched products: numpy only
    m = ctx.get_model()
    tol = {"rtol": 1e-5, "atol": 1e-6} if f32 else {}
    corr_res(ctx, case, fn, kind, val, m.call(mname, x0, y0), scale, **tol)
    if fn == "matmul" and kind == 0 and y0.dim() == 3 and x0.shape[2] == y0.shape[1]:
        # the generic complexification combinator applied to the real matmul gives the same matrix
        r = m.call("c15_complexify_matmul", int(y0.shape[2]), x0[0], x0[1], y0[0], y0[1])
        corr_value(ctx, case, "complexify(matmul)", val, r, scale)


def eval_un(ctx, cplx, case, corr):
    fn = case["fn"]
    call, ref, bound, rk, mname, mres = UN[fn]
    x = mk(case, "x")
    x0 = x.clone()
    kind, val = impl(lambda: call(cplx, x))
    expect = case.get("expect")
    scale = 1.0
    if expect:
        if not case.get("soft"):
            req_error(ctx, case, fn, kind, val, expect)
    else:
        X = Z(x0)
        want = ref(X)
        scale = bound(X)
        req_value(ctx, case, fn, kind, val, want, scale, rk=rk)
    unchanged(ctx, case, fn, [(x, x0)])
    ctx.count("err:" + kname(kind))
    if not corr or mname is None or not modelable(x0):
        return
    r = ctx.get_model().call(mname, x0)
    if mres:
        corr_res(ctx, case, fn, kind, val, r, scale)
    elif kind == 0:
        corr_value(ctx, case, fn, val, r, scale)
    else:
        ctx.agree_exact(fn + ": raises (1) / returns (0) (model: total function)", int(kind != 0), 0, case)


NP_VIEWS = ["rev", "rev0", "revlast", "step2", "T", "F", "0d", "part", "readonly"]


def np_view(arr, how):
    """an ndarray with the values, dtype and shape of `arr` in another memory layout (mostly VIEWS of a larger / flipped
    base array): rev = every axis reversed, rev0 / revlast = first / last axis reversed (negative strides), step2 = every
    second entry of a larger buffer, T = transposed storage, F = Fortran order, 0d = a 0-d view into a matrix,
    part = the .real of a complex base (float64 input, stride 16) / a field of a wider base, readonly = not writeable"""
    arr = np.asarray(arr)
    nd = arr.ndim
    if how == "rev" and nd >= 1:
        ix = (slice(None, None, -1),) * nd
        return arr[ix].copy()[ix]
    if how == "rev0" and nd >= 1:
        return arr[::-1].copy()[::-1]
    if how == "revlast" and nd >= 1:
        return arr[..., ::-1].copy()[..., ::-1]
    if how == "step2" and nd >= 1:
        base = np.full(arr.shape[:-1] + (2 * arr.shape[-1] + 1,), 99, dtype=arr.dtype)
        base[..., 1::2] = arr
        return base[..., 1::2]
    if how == "T" and nd >= 2:
        return np.swapaxes(np.swapaxes(arr, 0, 1).copy(), 0, 1)
    if how == "F" and nd >= 2:
        return np.asfortranarray(arr)
    if how == "0d" and nd == 0:
        base = np.array([[9, arr[()], 9], [9, 9, 9]], dtype=arr.dtype)
        return base[0, 1, ...]
    if how == "part":
        if arr.dtype == np.float64:
            return np.asarray(arr + 7j, dtype=np.complex128).reshape(arr.shape).real   # a float64 view with stride 16 into a complex base
        base = np.stack([arr, arr + 1], axis=-1)
        return base[..., 0]
    if how == "readonly":
        v = arr.copy()
        v.setflags(write=False)
        return v
    return arr


def eval_make_complex(ctx, cplx, case, corr):
    import torch
    form = case["form"]
    x = mk(case, "x")
    y = mk(case, "y") if "y" in case else None
    x0 = x.clone()
    if form == "pair":
        kind, val = impl(lambda: cplx.make_complex(x, y))
    elif form == "single":
        kind, val = impl(lambda: cplx.make_complex(x))
    else:
        npd = case.get("np_dtype", "complex128")
        if npd in ("complex128", "complex64"):
            arr = np.asarray(x.numpy().astype(np.float64) + 1j * y.numpy().astype(np.float64))   # 0-d stays an ndarray
            arr = np.asarray(arr.astype(npd))
        else:                                             # a REAL array: x + 0i  (x.real is x, x.imag is 0)
            arr = np.asarray(x.numpy().astype(np.float64).astype(npd))
        if case.get("transposed") and arr.ndim >= 2:
            arr = np.swapaxes(arr, 0, 1)                  # a non-contiguous numpy view as input
        if case.get("np_view"):
            shp0 = arr.shape
            arr = np_view(arr, case["np_view"])
            assert isinstance(arr, np.ndarray) and arr.shape == shp0
            ctx.count("make_complex(ndarray view):%s%s" % (case["np_view"], "" if arr.flags.c_contiguous else " (non-contiguous)"))
            if any(st < 0 for st in arr.strides):
                ctx.count("make_complex(ndarray view): negative strides")
            if arr.ndim == 0:
                ctx.count("make_complex(ndarray view): 0-d")
        arr_before = arr.copy()
        kind, val = impl(lambda: cplx.make_complex(arr))
        ctx.count("make_complex(ndarray):" + npd)
    expect = case.get("expect")
    if expect:
        req_error(ctx, case, "make_complex", kind, val, expect)
    elif form == "numpy":
        want = arr_before.astype(np.complex128)
        in_quantifier = case.get("np_dtype", "complex128") in ("complex128", "float64")
        if kind != 0 and not in_quantifier:
            ctx.count("make_complex(ndarray of a non-float64 dtype) rejected (allowed: outside 'float64 operands')")
        else:
            req_value(ctx, case, "make_complex", kind, val, want, 0.0,
                      rtol=(1e-6 if case.get("np_dtype") == "complex64" else 1e-9))
        ctx.require("make_complex leaves the numpy input unchanged", bool(np.array_equal(arr, arr_before)), case)
        if kind == 0 and isinstance(val, torch.Tensor) and arr.size and arr.flags.writeable:
            # the result is a value: a later write to the caller's array must not change it
            snap = val.clone()
            arr += np.asarray(1, dtype=arr.dtype)
            ctx.require("make_complex(ndarray) result does not alias the input array", bool(torch.equal(val, snap)), case,
                        "writing to the input array afterwards changed the returned tensor")
            arr[...] = arr_before
    else:
        want = x0.numpy() + 1j * (y.numpy() if y is not None else np.zeros_like(x0.numpy()))
        req_value(ctx, case, "make_complex", kind, val, want, 0.0)
    ctx.count("err:" + kname(kind))
    if not corr or not modelable(x0) or (y is not None and not modelable(y)):
        return
    m = ctx.get_model()
    if form == "single":
        if kind == 0:
            corr_value(ctx, case, "make_complex(x)", val, m.call("c15_make_complex_real", x0), 1.0)
        return
    if form == "numpy":
        if kind != 0 and case.get("np_dtype", "complex128") not in ("complex128", "float64"):
            return
        tol = {"rtol": 1e-5, "atol": 1e-6} if case.get("np_dtype") == "complex64" else {}
        a64 = arr_before.astype(np.complex128)
        corr_res(ctx, case, "make_complex(ndarray)", kind, val, m.call("c15_make_complex", a64.real, a64.imag), 1.0, **tol)
    else:
        corr_res(ctx, case, "make_complex", kind, val, m.call("c15_make_complex", x0, y), 1.0)


POLE_CUTOFF = 1e-12         # |1 + e^z| below this: the quotient is not resolved by double precision (skipped, counted)


def sigmoid_den(x, y):
    """|1 + e^z| elementwise: the conditioning of e^z / (1 + e^z) (the sum cancels next to a pole z = i(2k+1)pi)"""
    z = np.asarray(x, dtype=np.float64) + 1j * np.asarray(y, dtype=np.float64)
    with np.errstate(all="ignore"):
        den = np.abs(1.0 + np.exp(z))
    return np.where(np.isnan(den), np.inf, den)


def sigmoid_ok(got, want, den):
    """elementwise: |got - want| <= 1e-9 max(1, |want|) + (64 eps / |1+e^z|) |want|  -- the second term is the rounding
    error ANY complex128 evaluation of the quotient has next to a pole; entries with |1+e^z| < POLE_CUTOFF are not compared"""
    got, want = np.asarray(got), np.asarray(want)
    if got.shape != want.shape:
        return False, "shape %s, expected %s" % (list(got.shape), list(want.shape))
    if want.size == 0:
        return True, ""
    with np.errstate(all="ignore"):
        tol = 1e-9 * np.maximum(1.0, np.abs(want)) + (64 * 2.3e-16 / np.maximum(den, 1e-300)) * np.abs(want)
        d = np.abs(got - want)
        bad = ~(d <= tol) & (den >= POLE_CUTOFF)
    if not bool(np.any(bad)):
        return True, ""
    i = int(np.argmax(np.where(bad, np.where(np.isnan(d), np.inf, d / np.maximum(tol, 1e-300)), -1.0)))
    return False, "flat index %d: got %r, e^z/(1+e^z) = %r (|diff| %.3g > tol %.3g; |1+e^z| = %.3g)" % (
        i, complex(got.flat[i]), complex(want.flat[i]), float(d.flat[i]), float(tol.flat[i]), float(den.flat[i]))


def eval_sigmoid(ctx, cplx, case, corr):
    x, y = mk(case, "x"), mk(case, "y")
    x0, y0 = x.clone(), y.clone()
    kind, val = impl(lambda: cplx.sigmoid(x, y))
    expect = case.get("expect")
    minden = float("inf")
    if expect:
        if not case.get("soft"):
            req_error(ctx, case, "sigmoid", kind, val, expect)
    else:
        want = ref_sigmoid(x0.numpy(), y0.numpy())
        den = np.broadcast_to(sigmoid_den(x0.numpy(), y0.numpy()), want.shape)
        minden = float(den.min()) if den.size else float("inf")
        if den.size:
            ctx.count("sigmoid: min |1+e^z| in 1e%d.." % int(np.floor(np.log10(max(minden, 1e-300)))) if minden < 1e-2
                      else "sigmoid: min |1+e^z| >= 1e-2")
        if kind != 0:
            ctx.require("sigmoid raised %s on valid operands" % kname(kind), False, case, repr(val)[:300])
        else:
            try:
                ok, detail = sigmoid_ok(decode(val, "c"), want, den)
                ctx.require("sigmoid == numpy complex128 reference", ok, case, detail)
            except Exception as e:
                ctx.require("sigmoid returns a tensor of the documented form", False, case, repr(e)[:300])
    unchanged(ctx, case, "sigmoid", [(x, x0), (y, y0)])
    ctx.count("err:" + kname(kind))
    if corr and modelable(x0, y0) and amax(x0.numpy()) > 300.0:
        ctx.count("sigmoid: |x| > 300, not compared with the model (naive division in the model)")
    elif corr and modelable(x0, y0) and minden < POLE_CUTOFF:
        ctx.count("sigmoid: an entry within the pole cutoff, not compared with the model")
    elif corr and modelable(x0, y0):
        scale = max(1.0, amax(Z(val))) if kind == 0 else 1.0
        # next to a pole both sides carry the rounding error eps / |1+e^z| relative to the MODULUS of the value (the
        # components are compared separately, so it enters as an absolute tolerance on the scale of the largest entry)
        tol = {"rtol": max(1e-7, 1e-12 / minden), "atol": max(1e-9, 1.5e-14 / minden)} if minden < 1e-4 else {}
        corr_res(ctx, case, "sigmoid", kind, val, ctx.get_model().call("c15_sigmoid", x0, y0), scale, **tol)


def eval_einsum(ctx, cplx, case, corr):
    import torch
    eq, rp, ip = case["eq"], bool(case["real_part"]), bool(case["imag_part"])
    x, y = mk(case, "x"), mk(case, "y")
    x0, y0 = x.clone(), y.clone()
    kind, val = impl(lambda: cplx.einsum(eq, x, y, real_part=rp, imag_part=ip))
    expect = case.get("expect")
    fn = "einsum"
    scale = 1.0
    if expect:
        req_error(ctx, case, fn, kind, val, expect)
    else:
        X, Y = Z(x0), Z(y0)
        want = np.einsum(eq, X, Y)
        scale = amax(np.einsum(eq, np.abs(X), np.abs(Y)))
        if rp and ip:
            req_value(ctx, case, fn, kind, val, want, scale)
        elif rp:
            req_value(ctx, case, "einsum(real_part only)", kind, val, want.real, scale, rk="r")
        elif ip:
            req_value(ctx, case, "einsum(imag_part only)", kind, val, want.imag, scale, rk="r")
        else:
            ctx.count("einsum: no part requested (documented to return None; not a property clause)")
    unchanged(ctx, case, fn, [(x, x0), (y, y0)])
    ctx.count("err:" + kname(kind))
    if not corr or eq not in EQS or not modelable(x0, y0):
        return
    k = EQS.index(eq)
    if (x0.dim(), y0.dim()) != [(3, 3), (3, 4), (2, 3), (4, 5)][k]:
        return
    dims = [[], list(y0.shape[2:4]), list(y0.shape[2:3]), list(y0.shape[2:5])][k]
    r = ctx.get_model().call("c15_einsum", k, rp, ip, [int(d) for d in dims], x0, y0)
    if not corr_kind(ctx, case, fn, kind, r[0]) or kind != 0:
        return
    if not rp and not ip:
        return                  # no part requested: what is returned then (None today) is not a property clause
    itag = 3 if (rp and ip) else (1 if rp else 2)
    if not ctx.agree_exact("einsum: which parts are returned (3 both, 1 real, 2 imag, 0 None)", itag, int(r[1]), case):
        return
    if itag == 3:
        corr_value(ctx, case, fn, val, [r[2], r[3]], scale)
    elif itag in (1, 2):
        corr_value(ctx, case, fn, val, r[2], scale)


def eval_out(ctx, cplx, case, corr):
    """scalar_mult(x, y, out=...): fresh buffer | out is x | out is y | out = x[:] | out = y[:]"""
    import torch
    mode = case["out"]
    x, y = mk(case, "x"), mk(case, "y")
    x0, y0 = x.clone(), y.clone()
    X, Y = Z(x0), Z(y0)
    want = X * Y
    scale = _bprod(X, Y)
    m = ctx.get_model() if (corr and modelable(x0, y0)) else None
    if mode == "wrong_shape":
        out = mk(case, "out0")
        out0 = out.clone()
        assert tuple(out.shape[1:]) != tuple(want.shape)
        kind, val = impl(lambda: cplx.scalar_mult(x, y, out=out))
        ctx.require(WRONG_SHAPE_WHAT, kind != 0, case,
                    "accepted (no error): returned a tensor of shape %s for a product of shape %s" % (
                        list(val.shape) if hasattr(val, "shape") else type(val).__name__, list(want.shape)))
        unchanged(ctx, case, "scalar_mult(out=wrong shape)", [(x, x0), (y, y0)])
        if kind != 0:
            ctx.require("a rejected out= buffer is left untouched", bool(torch.equal(out, out0)), case)
        if m is not None and modelable(out0):
            r = m.call("c15_scalar_mult_out", [x0, y0, out0], [0, 0], [1, 1], [2, 2])
            if corr_kind(ctx, case, "scalar_mult(out=wrong shape)", kind, r[0]) and kind == 0:
                rid = 2 if val is out else -1
                ctx.agree_exact("scalar_mult(out=wrong shape): identity of the returned object", rid, int(r[1]), case)
                corr_value(ctx, case, "scalar_mult(out=wrong shape): storage of out after the call", out, r[2][2],
                           max(scale, amax(Z(out0)), 1.0))
    elif mode == "fresh":
        out = relayout(torch.full((2,) + tuple(want.shape), float(case.get("fill", 0.0)), dtype=torch.double),
                       case.get("out_layout"))
        out0 = out.clone()
        kind, val = impl(lambda: cplx.scalar_mult(x, y, out=out))
        if req_value(ctx, case, "scalar_mult(out=fresh buffer)", kind, val, want, scale):
            ctx.require("scalar_mult(out=buf) returns buf itself", val is out, case)
        if kind == 0:
            ok, detail = okc(Z(out), want, scale)
            ctx.require("scalar_mult(out=buf) writes the product into buf", ok, case, detail)
        unchanged(ctx, case, "scalar_mult(out=fresh buffer)", [(x, x0), (y, y0)])
        if m is not None:
            r = m.call("c15_scalar_mult_out", [x0, y0, out0], [0, 0], [1, 1], [2, 2])
            if corr_kind(ctx, case, "scalar_mult(out=fresh)", kind, r[0]) and kind == 0:
                rid = 2 if val is out else (0 if val is x else (1 if val is y else -1))
                ctx.agree_exact("scalar_mult(out=fresh): identity of the returned object", rid, int(r[1]), case)
                for nm, t, s in (("x", x, r[2][0]), ("y", y, r[2][1]), ("out", out, r[2][2])):
                    corr_value(ctx, case, "scalar_mult(out=fresh): storage of %s after the call" % nm, t, s, scale)
    elif mode in ("x", "y"):
        out = x if mode == "x" else y
        kind, val = impl(lambda: cplx.scalar_mult(x, y, out=out))
        ctx.require("scalar_mult(out is %s) is rejected with an error" % mode, kind != 0, case,
                    "returned a value (an operand was overwritten)")
        if kind != 0:
            unchanged(ctx, case, "scalar_mult(out is operand)", [(x, x0), (y, y0)])
        if m is not None:
            r = m.call("c15_scalar_mult_out", [x0, y0], [0, 0], [1, 1], [0, 0] if mode == "x" else [1, 1])
            corr_kind(ctx, case, "scalar_mult(out is %s)" % mode, kind, r[0])
    else:
        op = x if mode == "view_x" else y
        out = op[:]                                   # a different object sharing op's memory
        assert out is not op and out.data_ptr() == op.data_ptr()
        kind, val = impl(lambda: cplx.scalar_mult(x, y, out=out))
        if kind != 0:
            ok, detail = True, ""
        else:
            try:
                ok, detail = okc(decode(val, "c"), want, scale)
            except Exception as e:
                ok, detail = False, repr(e)
            detail = "accepted (no error) and returned a wrong product: " + detail
        ctx.require(KNOWN_WHAT, ok, case, detail)
        if m is not None:
            # today's behaviour (whatever it is) must be the model's: a future fix shows up here
            r = m.call("c15_scalar_mult_out", [x0, y0], [0, 0], [1, 1], [2, 0] if mode == "view_x" else [2, 1])
            if corr_kind(ctx, case, "scalar_mult(out=view of operand)", kind, r[0]) and kind == 0:
                sc = max(scale, amax(Z(val)), 1.0)
                corr_value(ctx, case, "scalar_mult(out=view): storage of x after the call", x, r[2][0], sc)
                corr_value(ctx, case, "scalar_mult(out=view): storage of y after the call", y, r[2][1], sc)
                corr_value(ctx, case, "scalar_mult(out=view): returned value", val,
                           r[2][0] if mode == "view_x" else r[2][1], sc)
    ctx.count("err:" + kname(kind))
    ctx.count("out:" + mode)


EXTREME = {
    # fn: (call on tensors, native reference on numpy complex128)
    "absolute_value": (lambda c, x, y: c.absolute_value(x), lambda X, Y: np.abs(X), "r"),
    "inverse": (lambda c, x, y: c.inverse(x), lambda X, Y: 1.0 / X, "c"),
    "elementwise_division": (lambda c, x, y: c.elementwise_division(x, y), lambda X, Y: X / Y, "c"),
    "scalar_divide": (lambda c, x, y: c.scalar_divide(x, y), lambda X, Y: X / Y, "c"),
    "norm": (lambda c, x, y: c.norm(x), lambda X, Y: ref_norm(X), "r"),
}


def eval_extreme(ctx, cplx, case):
    """operands outside 1e-150..1e150 (sigmoid: |x| > 700) whose NATIVE result is finite: the property ('all finite
    operand values') demands the native value; today |z|^2 overflows / underflows inside the kernel"""
    fn = case["fn"]
    x = mk(case, "x")
    y = mk(case, "y") if "y" in case else None
    with np.errstate(all="ignore"):
        if fn == "sigmoid":
            kind, val = impl(lambda: cplx.sigmoid(x, y))
            want, rk = ref_sigmoid(x.numpy(), y.numpy()), "c"
        else:
            call, ref, rk = EXTREME[fn]
            kind, val = impl(lambda: call(cplx, x, y))
            want = np.asarray(ref(Z(x), Z(y) if y is not None else None))
    ctx.count("extreme:" + fn)
    if not bool(np.all(np.isfinite(want))):
        ctx.count("extreme: native result not finite (nothing demanded)")
        return
    if kind != 0:
        ok, detail = False, "raised " + kname(kind)
    else:
        try:
            got = decode(val, rk)
            with np.errstate(all="ignore"):
                ok = got.shape == want.shape and bool(np.all(np.abs(got - want) <= 1e-9 * np.abs(want) + 1e-300))
            detail = "" if ok else "got %r, native %r" % (got.reshape(-1)[:3].tolist(), want.reshape(-1)[:3].tolist())
        except Exception as e:
            ok, detail = False, repr(e)[:200]
    ctx.require(EXTREME_WHAT, ok, case, detail)


def eval_case(ctx, case, corr=True, shape_flag=True):
    """Run one self-contained case: implementation call, numpy oracle, model correspondence."""
    from qucumber.utils import cplx
    fn = case["fn"]
    x = np.asarray(common.flat(case.get("x", [])))
    shapes = [case.get("x_shape"), case.get("y_shape")]
    cplx_ops = fn not in ("make_complex", "sigmoid")
    nontriv = bool(shape_flag) and not case.get("expect")
    if nontriv and cplx_ops:
        for k in ("x", "y"):
            if k in case and not case.get(k + "_is_I"):
                t = np.asarray(common.flat(case[k]))
                nontriv = nontriv and t.size > 0 and bool(np.any(t[t.size // 2:] != 0))
    elif nontriv:
        nontriv = "y" in case and bool(np.any(np.asarray(common.flat(case["y"])) != 0))
    opts = {k: case[k] for k in ("form", "out", "eq", "real_part", "imag_part", "expect", "x_is_I", "y_is_I", "transposed",
                                 "x_layout", "y_layout", "out_layout", "out_shape", "extreme_magnitude", "wide_magnitude", "np_dtype",
                                 "value_or_reject", "degenerate", "np_view", "near_pole", "pair")
            if k in case}
    for k in ("x_layout", "y_layout", "out_layout"):
        if case.get(k):
            ctx.count("layout:" + case[k])
    ctx.case({"fn": fn, "shapes": shapes, "opts": opts, "h": float(x.sum()) if x.size else 0.0}, nontrivial=nontriv)
    ctx.count("fn:" + fn)
    ctx.count("rank:%d" % max(0, len(shapes[0] or []) - (1 if cplx_ops else 0)))
    _LAST[0] = None
    if case.get("extreme_magnitude"):
        eval_extreme(ctx, cplx, case)
    elif fn == "make_complex":
        eval_make_complex(ctx, cplx, case, corr)
    elif fn == "sigmoid":
        eval_sigmoid(ctx, cplx, case, corr)
    elif fn == "einsum":
        eval_einsum(ctx, cplx, case, corr)
    elif fn == "scalar_mult" and "out" in case:
        eval_out(ctx, cplx, case, corr)
    elif fn in BIN:
        eval_bin(ctx, cplx, case, corr)
    elif fn in UN:
        eval_un(ctx, cplx, case, corr)
    else:
        raise KeyError("unknown function in case: %r" % fn)
    hold(ctx, case, _LAST[0])
    ctx.traces += 1


# --------------------------------------------------------------------------- operand generators
def rv(ctx, shape, kind=None):
    shape = tuple(int(s) for s in shape)
    if int(np.prod(shape)) == 0:
        return np.zeros(shape)
    return np.asarray(gen.rand_values(ctx, shape, kind), dtype=np.float64).reshape(shape)


def rc(ctx, shape, nz=False, kind=None):
    a = rv(ctx, shape, kind) + 1j * rv(ctx, shape, kind)
    if nz:                                  # divisors: |z| away from 0
        a = np.where(np.abs(a) < 0.05, a + (0.5 - 0.25j), a)
    return np.asarray(a, dtype=np.complex128).reshape(tuple(shape))


def rshape(ctx, rank):
    return tuple(int(d) for d in ctx.rng.integers(1, 5, size=rank))


def ccase(fn, x, y=None, **kw):
    case = {"fn": fn}
    put(case, "x", T(x))
    if y is not None:
        put(case, "y", T(y))
    case.update(kw)
    return case


ELEM_SHAPES = [(), (1,), (3,), (4,), (2, 3), (3, 1), (1, 4), (2, 2), (2, 3, 2), (1, 2, 3), (3, 1, 2),
               (2, 2, 3, 2), (1, 3, 1, 2), (2, 1, 2, 1)]
EMPTY_SHAPES = [(0,), (2, 0), (0, 3)]
BCAST_PAIRS = [((), ()), ((), (3,)), ((3,), ()), ((), (2, 3)), ((2, 3), ()), ((), (2, 3, 2)), ((2, 2, 3, 2), ()),
               ((3,), (3,)), ((2, 3), (2, 3)), ((2, 3, 2), (2, 3, 2)), ((2, 2, 3, 2), (2, 2, 3, 2)),
               ((3,), (2, 3)), ((2, 3), (3,)), ((1,), (4,)), ((4,), (1,)), ((1, 3), (2, 1)), ((2, 1), (2, 3)),
               ((2, 3), (1, 3)), ((3, 2), (4, 3, 2)), ((2, 1, 3), (4, 1)), ((2,), (3, 1, 2, 2)), ((1, 2, 1, 3), (2, 1, 2, 1)),
               ((1, 1), (1,)), ((1,), ())]
BAD_BCAST = [((3,), (4,)), ((2, 3), (3, 2)), ((2, 3), (2,)), ((2, 3, 4), (2, 4)), ((2, 2, 3, 2), (3, 3, 2))]


def elem_shapes(ctx, n_random):
    out = list(ELEM_SHAPES)
    for _ in range(n_random):
        out.append(rshape(ctx, int(ctx.rng.integers(0, 5))))
    return out


def rand_bcast_pair(ctx):
    """two shapes torch broadcasts together: trailing dims of a common result shape, some squeezed to 1"""
    rng = ctx.rng
    res = rshape(ctx, int(rng.integers(0, 5)))
    shapes = []
    full = int(rng.integers(0, 2))
    for i in range(2):
        r = len(res) if i == full else int(rng.integers(0, len(res) + 1))
        s = res[len(res) - r:]
        shapes.append(tuple(1 if rng.random() < 0.25 else d for d in s))
    return shapes[0], shapes[1]


def g_make_complex(ctx, n):
    for shp in elem_shapes(ctx, 4 * n):
        for d in range(n):
            x, y = rv(ctx, shp), rv(ctx, shp)
            c = put(put({"fn": "make_complex", "form": "pair"}, "x", R(x)), "y", R(y))
            yield c, True
            yield put({"fn": "make_complex", "form": "single"}, "x", R(x)), True
            c = put(put({"fn": "make_complex", "form": "numpy"}, "x", R(x)), "y", R(y))
            yield c, True
            if len(shp) >= 2 and d == 0:
                c = put(put({"fn": "make_complex", "form": "numpy", "transposed": True}, "x", R(x)), "y", R(y))
                yield c, shp[0] != shp[1]
    for shp in EMPTY_SHAPES:
        c = put(put({"fn": "make_complex", "form": "pair"}, "x", R(np.zeros(shp))), "y", R(np.zeros(shp)))
        yield c, False
    for sx, sy in [((3,), (4,)), ((2, 3), (3, 2)), ((3,), (1, 3)), ((), (2,)), ((2, 3, 2), (2, 3, 1)), ((2, 2), (4,))]:
        c = put(put({"fn": "make_complex", "form": "pair", "expect": "RuntimeError"}, "x", R(rv(ctx, sx))), "y", R(rv(ctx, sy)))
        yield c, False


def g_unary(fns, nz=False):
    def g(ctx, n):
        for fn in fns:
            for shp in elem_shapes(ctx, 4 * n):
                for d in range(n):
                    flag = True
                    if fn == "conjugate":
                        flag = len(shp) >= 2 and shp[0] != shp[1]
                    yield ccase(fn, rc(ctx, shp, nz=nz)), flag
            if not nz:
                for shp in EMPTY_SHAPES:
                    yield ccase(fn, np.zeros(shp, dtype=complex)), False
    return g


def g_norms(ctx, n):
    for fn in ("norm_sqr", "norm"):
        for shp in [(), (1,), (2,), (3,), (5,), (8,)] + [(int(k),) for k in ctx.rng.integers(1, 12, size=2 * n)]:
            for d in range(2 * n):
                yield ccase(fn, rc(ctx, shp)), True
        yield ccase(fn, np.zeros((0,), dtype=complex)), False
        for shp in [(2, 3), (2, 2, 2)]:        # not a vector: inner_prod's ValueError (correspondence only)
            yield ccase(fn, rc(ctx, shp), expect="ValueError", soft=True), False


def g_mult(ctx, n):
    for fn in ("scalar_mult", "elementwise_mult"):
        pairs = list(BCAST_PAIRS) + [rand_bcast_pair(ctx) for _ in range(12 * n)]
        for sx, sy in pairs:
            for d in range(n):
                yield ccase(fn, rc(ctx, sx), rc(ctx, sy)), True
        for sx, sy in [((0,), (0,)), ((2, 0), ()), ((0, 3), (3,))]:
            yield ccase(fn, np.zeros(sx, dtype=complex), rc(ctx, sy) if 0 not in sy else np.zeros(sy, dtype=complex)), False
        for sx, sy in BAD_BCAST:
            yield ccase(fn, rc(ctx, sx), rc(ctx, sy), expect="RuntimeError"), False
    # the library's float32 imaginary unit as an operand
    for shp in [(), (3,), (2, 3), (2, 1, 2)]:
        for d in range(n):
            c = ccase("scalar_mult", rc(ctx, shp))
            c["y_is_I"] = True
            put(c, "y", T(np.array(1j)))
            yield c, True
    c = {"fn": "scalar_mult", "x_is_I": True, "y_is_I": True}
    put(put(c, "x", T(np.array(1j))), "y", T(np.array(1j)))
    yield c, True
    for shp in [(), (3,)]:
        c = ccase("scalar_mult", np.array(1j), rc(ctx, shp, kind="uniform"))
        c["x_is_I"] = True
        yield c, True


def g_out(ctx, n):
    pairs = [((), ()), ((3,), (3,)), ((3,), ()), ((), (3,)), ((2, 3), (2, 3)), ((2, 3), (3,)), ((2, 1), (1, 3)),
             ((2, 3, 2), ()), ((2, 2, 3, 2), (3, 2))] + [rand_bcast_pair(ctx) for _ in range(4 * n)]
    for sx, sy in pairs:
        for d in range(n):
            yield ccase("scalar_mult", rc(ctx, sx), rc(ctx, sy), out="fresh", fill=[0.0, 3.25][d % 2]), True
        yield ccase("scalar_mult", rc(ctx, sx), rc(ctx, sy), out="x"), True
        yield ccase("scalar_mult", rc(ctx, sx), rc(ctx, sy), out="y"), True
    # non-contiguous fresh buffers
    for sx, sy in [((3,), (3,)), ((2, 3), (2, 3)), ((2, 3), (3,)), ((2, 2, 3), ())]:
        for lay in ("s", "i", "t"):
            yield ccase("scalar_mult", rc(ctx, sx), rc(ctx, sy), out="fresh", fill=1.5, out_layout=lay), True
    # buffers whose shape is not the broadcast shape (more / fewer entries, same count in another shape, other rank)
    wrong = [((3,), (3,), (2,)), ((3,), (3,), (4,)), ((3,), (3,), (3, 1)), ((3,), (3,), ()), ((), (), (2,)),
             ((2, 3), (2, 3), (3, 2)), ((2, 3), (3,), (3,)), ((2, 3), (2, 3), (2, 2)), ((2, 3), (2, 3), (6,)),
             ((), (2, 2), (2, 3)), ((2, 1), (1, 3), (2, 1)), ((2, 2, 2), (2, 2, 2), (2, 2)), ((4,), (), (1, 2, 3))]
    for sx, sy, so in wrong:
        for d in range(max(1, n // 4)):
            c = ccase("scalar_mult", rc(ctx, sx), rc(ctx, sy), out="wrong_shape", out_wrong_shape=True, out_shape=list(so))
            put(c, "out0", T(rc(ctx, so)))
            yield c, True
    # the known finding: out is a VIEW of an operand (the aliased operand has the shape of the result)
    vx = [((3,), (3,)), ((), ()), ((4,), ()), ((2, 3), (2, 3)), ((2, 3), (3,)), ((2, 2, 2), (1, 2))]
    for sx, sy in vx + [(rshape(ctx, int(ctx.rng.integers(0, 4))),) * 2 for _ in range(2 * n)]:
        for d in range(n):
            kind = ["normal", "uniform"][d % 2]
            yield ccase("scalar_mult", rc(ctx, sx, kind=kind), rc(ctx, sy, kind=kind), out="view_x",
                        out_is_view_of_operand=True, operand="x"), True
            yield ccase("scalar_mult", rc(ctx, sy, kind=kind), rc(ctx, sx, kind=kind), out="view_y",
                        out_is_view_of_operand=True, operand="y"), True


def dims_product(ctx, k, quick_list):
    if ctx.thorough:
        import itertools
        return list(itertools.product([1, 2, 3, 4], repeat=k))
    return quick_list


def g_matmul(ctx, n):
    mm = dims_product(ctx, 3, [(1, 1, 1), (2, 2, 2), (2, 3, 4), (3, 2, 1), (1, 4, 2), (4, 1, 3), (3, 3, 2), (2, 4, 4), (1, 3, 1)])
    for (a, k, b) in mm:
        for d in range(n if not ctx.thorough else 2):
            yield ccase("matmul", rc(ctx, (a, k)), rc(ctx, (k, b))), not (a == k == b)
    for (a, k) in dims_product(ctx, 2, [(1, 1), (2, 3), (3, 2), (4, 1), (1, 4), (3, 3)]):
        for d in range(n):
            yield ccase("matmul", rc(ctx, (a, k)), rc(ctx, (k,))), a != k
    for sx, sy in [((2, 2, 3), (2, 3, 4)), ((3, 2, 3), (3, 2)), ((2, 3, 1, 2), (2, 3, 2, 2)), ((2, 2, 3), (3,)), ((2, 0), (0, 3)), ((0, 2), (2, 2))]:
        X = rc(ctx, sx) if 0 not in sx else np.zeros(sx, dtype=complex)
        Y = rc(ctx, sy) if 0 not in sy else np.zeros(sy, dtype=complex)
        yield ccase("matmul", X, Y), True
    for sx, sy in [((2, 3), (2, 3)), ((2, 3), (2,)), ((3, 2), (3, 3)), ((1, 2), (1, 2))]:
        yield ccase("matmul", rc(ctx, sx), rc(ctx, sy), expect="RuntimeError"), False


def g_inner(ctx, n):
    for k in [1, 2, 3, 4, 7] + [int(v) for v in ctx.rng.integers(1, 10, size=2 * n)]:
        for d in range(2 * n):
            yield ccase("inner_prod", rc(ctx, (k,)), rc(ctx, (k,))), True
    for d in range(4 * n):
        yield ccase("inner_prod", rc(ctx, ()), rc(ctx, ())), True
    yield ccase("inner_prod", np.zeros((0,), dtype=complex), np.zeros((0,), dtype=complex)), False
    for sx, sy in [((3,), ()), ((), (3,)), ((2, 2), (2, 2)), ((3,), (3, 1)), ((2, 3), (3,)), ((2, 2, 2), (2, 2, 2)), ((1,), ())]:
        yield ccase("inner_prod", rc(ctx, sx), rc(ctx, sy), expect="ValueError"), False
    for sx, sy in [((3,), (4,)), ((2,), (1,)), ((1,), (5,))]:
        yield ccase("inner_prod", rc(ctx, sx), rc(ctx, sy), expect="RuntimeError"), False


def g_outer(ctx, n):
    for (a, b) in dims_product(ctx, 2, [(1, 1), (2, 3), (3, 2), (4, 1), (1, 4), (3, 3), (2, 2)]) + [(5, 2), (2, 7)]:
        for d in range(2 * n):
            yield ccase("outer_prod", rc(ctx, (a,)), rc(ctx, (b,))), a != b
    yield ccase("outer_prod", np.zeros((0,), dtype=complex), rc(ctx, (2,))), False
    for sx, sy in [((), (3,)), ((3,), ()), ((2, 2), (2,)), ((2,), (2, 2)), ((2, 3), (2, 3)), ((), ())]:
        yield ccase("outer_prod", rc(ctx, sx), rc(ctx, sy), expect="ValueError"), False


def g_kron(ctx, n):
    q = [(1, 1, 1, 1), (2, 2, 2, 2), (2, 3, 3, 2), (1, 3, 2, 1), (3, 1, 1, 4), (2, 3, 4, 1), (4, 2, 2, 3), (1, 4, 3, 3),
         (3, 2, 2, 2), (2, 2, 3, 4)]
    for (a, b, c, d_) in dims_product(ctx, 4, q):
        for d in range(1 if ctx.thorough else n):
            yield ccase("kronecker_prod", rc(ctx, (a, b)), rc(ctx, (c, d_))), not (a == b and c == d_)
    for sx, sy in [((3,), (3,)), ((2, 2), (2,)), ((), (2, 2)), ((2, 2, 2), (2, 2)), ((2, 2), (2, 2, 2)), ((), ())]:
        yield ccase("kronecker_prod", rc(ctx, sx), rc(ctx, sy), expect="ValueError"), False


def g_einsum(ctx, n):
    rng = ctx.rng

    def dims(k):
        return [int(v) for v in rng.integers(1, 5, size=k)]
    sw = [(True, True), (True, False), (False, True), (False, False)]
    for rep in range(3 * n):
        for k, eq in enumerate(EQS):
            if k == 0:
                a, b, c, d = dims(4)
                sx, sy = (a, b), (c, d)
            elif k == 1:
                i, b, g = dims(3)
                sx, sy = (i, b), (i, b, g)
            elif k == 2:
                b, g = dims(2)
                sx, sy = (b,), (b, g)
            else:
                i, j, b, g = dims(4)
                sx, sy = (i, j, b), (i, j, b, g)
            X, Y = rc(ctx, sx), rc(ctx, sy)
            for (rp, ip) in (sw if rep % 2 == 0 else [sw[0], sw[1 + rep % 3]]):
                yield ccase("einsum", X, Y, eq=eq, real_part=rp, imag_part=ip), True
    # other equations: numpy only
    for eq, sx, sy in [("ij,jk->ik", (2, 3), (3, 4)), ("i,i->", (4,), (4,)), ("ab,ab->ab", (2, 3), (2, 3)),
                       ("bij,bjk->bik", (2, 2, 3), (2, 3, 2)), ("ij,kj->ik", (2, 3), (4, 3)), ("i,j->ji", (2,), (3,))]:
        for d in range(n):
            yield ccase("einsum", rc(ctx, sx), rc(ctx, sy), eq=eq, real_part=True, imag_part=True), True
        yield ccase("einsum", rc(ctx, sx), rc(ctx, sy), eq=eq, real_part=bool(d % 2), imag_part=not bool(d % 2)), True
    # mismatched dimensions (neither of size 1: torch.einsum broadcasts size-1 dims)
    for eq, sx, sy in [("ib,ibg->bg", (2, 3), (3, 3, 2)), ("ib,ibg->bg", (2, 3), (2, 4, 2)), ("b,bg->g", (3,), (2, 2)),
                       ("ijb,ijbg->bg", (2, 2, 3), (2, 3, 3, 2)), ("ijb,ijbg->bg", (2, 2, 3), (2, 2, 2, 2))]:
        yield ccase("einsum", rc(ctx, sx), rc(ctx, sy), eq=eq, real_part=True, imag_part=True, expect="RuntimeError"), False


def g_division(ctx, n):
    for shp in elem_shapes(ctx, 4 * n):
        for d in range(n):
            yield ccase("elementwise_division", rc(ctx, shp), rc(ctx, shp, nz=True)), True
            yield ccase("scalar_divide", rc(ctx, shp), rc(ctx, shp, nz=True)), True
            yield ccase("scalar_divide", rc(ctx, shp), rc(ctx, (), nz=True)), True
    for sx, sy in [((3,), (4,)), ((2, 3), (3,)), ((3,), ()), ((2, 3), (3, 2)), ((2, 1), (2, 3)), ((), (1,))]:
        yield ccase("elementwise_division", rc(ctx, sx), rc(ctx, sy, nz=True), expect="ValueError"), False
    yield ccase("scalar_divide", rc(ctx, (3,)), rc(ctx, (4,), nz=True), expect="RuntimeError"), False


def g_sigmoid(ctx, n):
    for shp in elem_shapes(ctx, 2 * n):
        for d in range(n):
            x = rv(ctx, shp) * [1.0, 6.0, 20.0][d % 3]            # |x| up to ~600, no clipping
            y = rv(ctx, shp)
            if x.size and float(np.min(sigmoid_den(x, y))) < POLE_CUTOFF:
                ctx.count("skipped:sigmoid-within-1e-12-of-a-pole")
                continue
            yield put(put({"fn": "sigmoid"}, "x", R(x)), "y", R(y)), True
    # numpy broadcasts the real against the imaginary argument
    for sx, sy in BCAST_PAIRS + [rand_bcast_pair(ctx) for _ in range(2 * n)]:
        x, y = rv(ctx, sx, kind="uniform"), rv(ctx, sy, kind="uniform")
        if x.size and y.size and float(np.min(sigmoid_den(x, y))) < POLE_CUTOFF:
            ctx.count("skipped:sigmoid-within-1e-12-of-a-pole")
            continue
        yield put(put({"fn": "sigmoid"}, "x", R(x)), "y", R(y)), sx != sy
    for c, flag in g_poles(ctx, n, fixed=False):
        yield c, flag
    for sx, sy in BAD_BCAST:
        c = put(put({"fn": "sigmoid", "expect": "error"}, "x", R(rv(ctx, sx))), "y", R(rv(ctx, sy)))
        yield c, False


def big(ctx, shape, lo, hi):
    """complex values with |re|, |im| = 10^(+-e), e uniform in [lo, hi], both signs of the exponent and of the value"""
    rng = ctx.rng
    shape = tuple(shape)

    def part():
        e = rng.uniform(lo, hi, size=shape) * rng.choice([-1.0, 1.0], size=shape)
        return rng.uniform(1.0, 9.99, size=shape) * rng.choice([-1.0, 1.0], size=shape) * np.power(10.0, e)
    return np.asarray(part() + 1j * part(), dtype=np.complex128).reshape(shape)


def g_wide(ctx, n):
    """hard requirement: magnitudes 1e-100..1e100 (1e-70..1e70 for quotients), native results finite"""
    for shp in [(), (3,), (2, 3), (2, 1, 2)]:
        for d in range(n):
            for fn in ("absolute_value", "inverse", "conj", "conjugate"):
                yield ccase(fn, big(ctx, shp, 0, 100), wide_magnitude=True), True
            yield ccase("elementwise_division", big(ctx, shp, 0, 70), big(ctx, shp, 0, 70), wide_magnitude=True), True
            yield ccase("scalar_divide", big(ctx, shp, 0, 70), big(ctx, (), 0, 70), wide_magnitude=True), True
            yield ccase("scalar_mult", big(ctx, shp, 0, 100), big(ctx, shp, 0, 100) * 1e-50, wide_magnitude=True), True
    for k in (1, 3, 5):
        for d in range(n):
            for fn in ("norm", "norm_sqr"):
                yield ccase(fn, big(ctx, (k,), 0, 100), wide_magnitude=True), True
            yield ccase("inner_prod", big(ctx, (k,), 0, 70), big(ctx, (k,), 0, 70), wide_magnitude=True), True
            yield ccase("matmul", big(ctx, (2, k), 0, 70), big(ctx, (k, 3), 0, 70), wide_magnitude=True), True
    for d in range(2 * n):
        x = ctx.rng.uniform(300.0, 690.0, size=(3,)) * ctx.rng.choice([-1.0, 1.0], size=(3,))
        yield put(put({"fn": "sigmoid", "wide_magnitude": True}, "x", R(x)), "y", R(rv(ctx, (3,), kind="uniform"))), True


def g_extreme(ctx, n):
    """1e+-155 .. 1e+-300 (sigmoid: 700 < |x| <= 745): reported under EXTREME_WHAT (open known finding)"""
    def ext(shp):
        return big(ctx, shp, 155, 300)
    for shp in [(), (2,), (2, 2)]:
        for d in range(max(2, n // 2)):
            for fn in ("absolute_value", "inverse"):
                yield ccase(fn, ext(shp), extreme_magnitude=True), True
            yield ccase("elementwise_division", ext(shp), ext(shp), extreme_magnitude=True), True
            yield ccase("elementwise_division", rc(ctx, shp), ext(shp), extreme_magnitude=True), True
            yield ccase("scalar_divide", rc(ctx, shp), ext(()), extreme_magnitude=True), True
    for k in (1, 3):
        for d in range(max(2, n // 2)):
            yield ccase("norm", ext((k,)), extreme_magnitude=True), True
    for d in range(max(2, n // 2)):
        x = ctx.rng.uniform(710.0, 745.0, size=(2,)) * np.array([1.0, -1.0])
        c = put(put({"fn": "sigmoid", "extreme_magnitude": True}, "x", R(x)), "y", R(rv(ctx, (2,), kind="uniform")))
        yield c, True


def zc(shape):
    return np.zeros(tuple(shape), dtype=np.complex128)


# ----- red-team round 2 classes -----------------------------------------------------------------------------------
EINSUM_FORMS = [   # equation forms torch.einsum accepts besides 'lower-case labels -> explicit output'
    # implicit output (no '->': the labels that occur once, in sorted order)
    ("ij,jk", (2, 3), (3, 4)), ("i,j", (2,), (3,)), ("ba,ab", (2, 3), (3, 2)), ("ji,kj", (3, 2), (4, 3)), ("ki,j", (2, 3), (4,)),
    ("bi,bi", (2, 3), (2, 3)), ("i,i", (3,), (3,)),
    # upper-case labels (sorted before lower case), also the letters a rewrite might use for its own axes
    ("Ab,bC->AC", (2, 3), (3, 2)), ("PQ,QR->PR", (2, 3), (3, 4)), ("Pi,iQ->QP", (2, 3), (3, 4)), ("aB,c", (2, 3), (4,)),
    ("Ba,aB", (2, 3), (3, 2)), ("RI,IS->SR", (2, 3), (3, 2)), ("Zz,zX", (2, 3), (3, 4)),
    # ellipsis
    ("...ij,...jk->...ik", (2, 2, 3), (2, 3, 2)), ("...ij,...jk", (2, 2, 3), (2, 3, 2)), ("i...,i...->...", (3, 2), (3, 2)),
    ("...,...->...", (2, 3), (2, 3)), ("...i,i->...", (2, 2, 3), (3,)), ("i...j,j->i...", (2, 3, 2), (2,)), ("...,...", (2, 3), (2, 3)),
    ("a...,...b->b...a", (2, 3), (3, 4)), ("...ij,ij->...", (2, 2, 3), (2, 3)),
    # blanks
    ("ij , jk -> ik", (2, 3), (3, 4)), (" ij,jk->ik ", (2, 3), (3, 4)), ("i j,j k->i k", (2, 3), (3, 4)), ("ij, jk", (2, 3), (3, 4)),
    # repeated labels inside one operand (diagonal / trace), empty output, rank-0 operands
    ("ii,i->i", (3, 3), (3,)), ("ii,ij->j", (2, 2), (2, 3)), ("ii,jj->", (2, 2), (3, 3)), ("ii,jj", (2, 2), (3, 3)),
    (",", (), ()), (",->", (), ()), ("i,->i", (3,), ()), (",ij->ji", (), (2, 3)), ("ij,ij->", (2, 3), (2, 3)), ("ij,jk->", (2, 3), (3, 2)),
    ("ij,kl->jl", (2, 3), (3, 2)),
]
EINSUM_LABELS = list("abgijkxyzABIJPQRZ")


def rand_equation(ctx):
    """a random two-operand equation: labels of either case, optional '...' batch dimensions (same batch shape where
    present, anywhere in the operand), implicit or explicit output (any order, any subset), optional repeated label,
    optional blanks.  Returns (equation, x shape, y shape)."""
    rng = ctx.rng
    pool = [str(c) for c in rng.permutation(EINSUM_LABELS)[:6]]
    dim = {c: int(rng.integers(1, 4)) for c in pool}
    ops = []
    for i in range(2):
        r = int(rng.integers(0, 4))
        labs = [str(c) for c in rng.choice(pool, size=r, replace=False)]
        if r and rng.random() < 0.12:
            labs.insert(int(rng.integers(0, len(labs) + 1)), labs[0])           # diagonal
        ops.append(labs)
    batch = rshape(ctx, int(rng.integers(1, 3))) if rng.random() < 0.3 else None
    specs, shapes, has_e = [], [], False
    for labs in ops:
        shp = [dim[c] for c in labs]
        spec = list(labs)
        if batch is not None and rng.random() < 0.75:
            pos = int(rng.integers(0, len(labs) + 1))
            spec.insert(pos, "...")
            shp[pos:pos] = list(batch)
            has_e = True
        specs.append("".join(spec))
        shapes.append(tuple(shp))
    sep = ", " if rng.random() < 0.15 else ","
    eq = specs[0] + sep + specs[1]
    if rng.random() < 0.6:
        distinct = sorted(set(ops[0]) | set(ops[1]))
        outl = [c for c in distinct if rng.random() < 0.6]
        outl = [str(c) for c in rng.permutation(outl)] if outl else []
        if has_e:
            outl.insert(int(rng.integers(0, len(outl) + 1)), "...")
        eq += (" -> " if sep == ", " else "->") + "".join(outl)
        ctx.count("einsum form: explicit")
    else:
        ctx.count("einsum form: implicit")
    if has_e:
        ctx.count("einsum form: ellipsis")
    if any(c.isupper() for c in eq):
        ctx.count("einsum form: upper-case label")
    return eq, shapes[0], shapes[1]


def g_einsum_forms(ctx, n, fixed=True):
    sw = [(True, True), (True, False), (False, True)]
    if fixed:
        for j, (eq, sx, sy) in enumerate(EINSUM_FORMS):
            X, Y = rc(ctx, sx, kind="normal"), rc(ctx, sy, kind="normal")
            yield ccase("einsum", X, Y, eq=eq, real_part=True, imag_part=True), True
            rp, ip = sw[1 + j % 2]
            yield ccase("einsum", X, Y, eq=eq, real_part=rp, imag_part=ip), True
        return
    for d in range(10 * n):
        eq, sx, sy = rand_equation(ctx)
        X, Y = rc(ctx, sx), rc(ctx, sy)
        try:
            np.einsum(eq, X, Y)
        except Exception:
            ctx.count("einsum form: generated equation not accepted by numpy (dropped)")
            continue
        rp, ip = sw[d % 3] if d % 2 else sw[0]
        yield ccase("einsum", X, Y, eq=eq, real_part=rp, imag_part=ip), True


def g_poles(ctx, n, fixed=True):
    """sigmoid arguments NEXT TO (not at) a pole z = i(2k+1)pi: |z - pole| from 0.3 down to 1e-10, all directions.
    e^z / (1 + e^z) is finite there (up to ~1e10) and moderate in magnitude of the ARGUMENT"""
    rng = ctx.rng
    dirs = [(1.0, 0.0), (0.0, 1.0), (-1.0, 0.0), (0.0, -1.0), (0.6, 0.8), (-0.8, 0.6), (0.8, -0.6), (-0.6, -0.8)]
    radii = [0.3, 0.1, 1e-2, 2e-3, 1e-3, 5e-4, 1e-4, 3e-5, 1e-5, 1e-6, 1e-7, 1e-8, 1e-9, 1e-10]
    if fixed:
        for k in (0, -1, 1, 2):
            y0 = (2 * k + 1) * np.pi
            x = np.array([r * dx for r in radii for (dx, dy) in dirs])
            y = np.array([y0 + r * dy for r in radii for (dx, dy) in dirs])
            yield put(put({"fn": "sigmoid", "near_pole": True}, "x", R(x)), "y", R(y)), True
        for r in radii:                                # 0-d and single-entry arguments, one radius each
            dx, dy = dirs[int(rng.integers(0, len(dirs)))]
            k = int(rng.integers(-2, 2))
            for shp in [(), (1,)]:
                yield put(put({"fn": "sigmoid", "near_pole": True}, "x", R(np.full(shp, r * dx))), "y",
                          R(np.full(shp, (2 * k + 1) * np.pi + r * dy))), True
        return
    for d in range(3 * n):
        shp = rshape(ctx, int(rng.integers(0, 3)))
        x, y = rv(ctx, shp, kind="uniform"), rv(ctx, shp, kind="uniform")       # ordinary entries ...
        m = rng.random(size=shp) < 0.5                                          # ... some replaced by near-pole ones
        if not np.any(m):
            m = np.ones(shp, dtype=bool)
        r = np.power(10.0, rng.uniform(-10.0, -0.5, size=shp))
        phi = rng.uniform(0.0, 2 * np.pi, size=shp)
        k = rng.integers(-3, 3, size=shp)
        x = np.where(m, r * np.cos(phi), x)
        y = np.where(m, (2 * k + 1) * np.pi + r * np.sin(phi), y)
        if float(np.min(sigmoid_den(x, y))) < POLE_CUTOFF:
            ctx.count("skipped:sigmoid-within-1e-12-of-a-pole")
            continue
        yield put(put({"fn": "sigmoid", "near_pole": True}, "x", R(x)), "y", R(y)), True


def g_np_views(ctx, n, fixed=True):
    """make_complex(ndarray) on views / other memory layouts of the array (negative strides, 0-d views, ...)"""
    rng = ctx.rng
    if fixed:
        todo = [(npd, shp, v) for npd in ("complex128", "float64") for shp in [(), (1,), (4,), (3, 4), (2, 3, 2)] for v in NP_VIEWS]
        todo += [(npd, shp, v) for npd in ("int64", "complex64") for shp in [(), (3,), (2, 3)] for v in ("rev", "0d", "step2")]
    else:
        todo = [(["complex128", "float64", "complex128", "int64", "complex64"][d % 5], rshape(ctx, int(rng.integers(0, 4))),
                 NP_VIEWS[int(rng.integers(0, len(NP_VIEWS)))]) for d in range(6 * n)]
    for npd, shp, v in todo:
        if (v == "0d" and len(shp) != 0) or (v in ("rev", "rev0", "revlast", "step2") and len(shp) < 1) or \
                (v in ("T", "F") and len(shp) < 2):
            continue
        x, y = rv(ctx, shp, kind="uniform") * 3.0, rv(ctx, shp, kind="uniform")
        c = put(put({"fn": "make_complex", "form": "numpy", "np_dtype": npd, "np_view": v}, "x", R(x)), "y", R(y))
        yield c, npd.startswith("complex")


def same_shape_pairs(ctx):
    """every function twice in a row on DIFFERENT operands of the same shapes: the first result is re-verified after the
    second call (hold()): a result returned in a reused work buffer is reported with both calls in the record"""
    def two(mkcase):
        for j in range(2):
            c = mkcase()
            c["pair"] = j
            yield c, True
    for fn, sx, sy in [("scalar_mult", (2, 3), (2, 3)), ("elementwise_mult", (3,), (3,)), ("matmul", (2, 3), (3, 2)), ("matmul", (2, 3), (3,)),
                       ("inner_prod", (3,), (3,)), ("inner_prod", (), ()), ("outer_prod", (3,), (3,)), ("outer_prod", (2,), (4,)),
                       ("kronecker_prod", (2, 2), (2, 3)), ("elementwise_division", (2, 3), (2, 3)), ("scalar_divide", (3,), (3,)),
                       ("scalar_divide", (2, 2), ())]:
        nz = fn in ("elementwise_division", "scalar_divide")
        for r in two(lambda: ccase(fn, rc(ctx, sx, kind="normal"), rc(ctx, sy, nz=nz, kind="normal"))):
            yield r
    for fn in ("numpy", "real", "imag", "conj", "conjugate", "absolute_value", "inverse"):
        for shp in [(3,), (2, 3)]:
            for r in two(lambda: ccase(fn, rc(ctx, shp, nz=True, kind="normal"))):
                yield r
    for fn in ("norm", "norm_sqr"):
        for r in two(lambda: ccase(fn, rc(ctx, (3,), kind="normal"))):
            yield r
    for eq, sx, sy in [("ij,jk->ik", (2, 3), (3, 2)), ("ab,cd->acbd", (2, 2), (2, 2)), ("b,bg->g", (3,), (3, 2))]:
        for r in two(lambda: ccase("einsum", rc(ctx, sx, kind="normal"), rc(ctx, sy, kind="normal"), eq=eq, real_part=True, imag_part=True)):
            yield r
        for r in two(lambda: ccase("einsum", rc(ctx, sx, kind="normal"), rc(ctx, sy, kind="normal"), eq=eq, real_part=True, imag_part=False)):
            yield r
    for shp in [(3,), (2, 2)]:
        for r in two(lambda: put(put({"fn": "sigmoid"}, "x", R(rv(ctx, shp, kind="uniform"))), "y", R(rv(ctx, shp, kind="uniform")))):
            yield r
        for form in ("pair", "numpy"):
            for r in two(lambda: put(put({"fn": "make_complex", "form": form}, "x", R(rv(ctx, shp, kind="normal"))), "y",
                                     R(rv(ctx, shp, kind="normal")))):
                yield r
        for r in two(lambda: put({"fn": "make_complex", "form": "single"}, "x", R(rv(ctx, shp, kind="normal")))):
            yield r
        for r in two(lambda: ccase("scalar_mult", rc(ctx, shp, kind="normal"), rc(ctx, shp, kind="normal"), out="fresh", fill=0.0)):
            yield r


def g_redteam2(ctx, n):
    """fixed cases of the round-2 classes; always first"""
    for g in (same_shape_pairs(ctx), g_einsum_forms(ctx, n, fixed=True), g_poles(ctx, n, fixed=True), g_np_views(ctx, n, fixed=True)):
        for c, flag in g:
            yield c, flag


def g_redteam2_random(ctx, n):
    for g in (g_einsum_forms(ctx, n, fixed=False), g_np_views(ctx, n, fixed=False)):
        for c, flag in g:
            yield c, flag


def g_blindspots(ctx, n):
    """fixed cases that always run first (red-team classes): numpy inputs of other dtypes, broadcast batch dimensions
    of matmul, every broadcast pair through scalar_divide, all-zero / single-element / partly-zero operands"""
    # (1) make_complex(ndarray): real float64, int64, complex64, complex128; 0-d, vector, matrix
    for npd in ("float64", "complex128", "int64", "complex64"):
        for shp in [(), (1,), (3,), (2, 3)]:
            x, y = rv(ctx, shp, kind="uniform") * 3.0, rv(ctx, shp, kind="uniform")
            c = put(put({"fn": "make_complex", "form": "numpy", "np_dtype": npd}, "x", R(x)), "y", R(y))
            yield c, npd != "float64" and npd != "int64"
    # (2) matmul with broadcast batch dimensions (numpy's @ has torch.matmul's rule)
    bm = [((1, 2, 3), (4, 3, 2)), ((4, 2, 3), (1, 3, 2)), ((2, 3), (4, 3, 2)), ((4, 2, 3), (3, 2)), ((1, 2, 3), (1, 3, 2)),
          ((2, 1, 2, 3), (3, 3, 2)), ((3, 2, 3), (2, 1, 3, 4)), ((2, 2, 3), (3,)), ((1, 1, 1), (3, 1, 1)), ((5, 1, 4), (1, 4, 1))]
    for sx, sy in bm:
        yield ccase("matmul", rc(ctx, sx), rc(ctx, sy)), True
    # (3) scalar_divide on every broadcast pair scalar_mult accepts: the right quotient, or a rejection
    for sx, sy in BCAST_PAIRS:
        doc = (sx == sy) or sy == ()
        yield ccase("scalar_divide", rc(ctx, sx), rc(ctx, sy, nz=True), **({} if doc else {"value_or_reject": True})), True
    # (4) degenerate values: all-zero operands, single elements, exact zeros in some entries
    un = ["numpy", "real", "imag", "conj", "conjugate", "absolute_value"]
    for shp in [(), (1,), (3,), (2, 3), (1, 1), (2, 1, 2)]:
        for fn in un:
            yield ccase(fn, zc(shp), degenerate="zero"), False
        for fn in ("scalar_mult", "elementwise_mult"):
            yield ccase(fn, zc(shp), zc(shp), degenerate="zero"), False
            yield ccase(fn, zc(shp), rc(ctx, shp), degenerate="zero"), False
        for fn in ("elementwise_division", "scalar_divide"):
            yield ccase(fn, zc(shp), rc(ctx, shp, nz=True), degenerate="zero numerator"), False
        yield ccase("scalar_divide", zc(shp), rc(ctx, (), nz=True), degenerate="zero numerator"), False
        yield ccase("scalar_mult", zc(shp), zc(shp), out="fresh", fill=3.25, degenerate="zero"), False
        c = put(put({"fn": "make_complex", "form": "pair", "degenerate": "zero"}, "x", R(np.zeros(shp))), "y", R(np.zeros(shp)))
        yield c, False
        c = put(put({"fn": "make_complex", "form": "numpy", "degenerate": "zero"}, "x", R(np.zeros(shp))), "y", R(np.zeros(shp)))
        yield c, False
        yield put(put({"fn": "sigmoid", "degenerate": "zero"}, "x", R(np.zeros(shp))), "y", R(np.zeros(shp))), False
    for k in (1, 2, 3, 5):
        for fn in ("norm", "norm_sqr"):
            yield ccase(fn, zc((k,)), degenerate="zero"), False
        yield ccase("inner_prod", zc((k,)), zc((k,)), degenerate="zero"), False
        yield ccase("inner_prod", zc((k,)), rc(ctx, (k,)), degenerate="zero"), False
        yield ccase("outer_prod", zc((k,)), rc(ctx, (2,)), degenerate="zero"), False
        yield ccase("matmul", zc((2, k)), rc(ctx, (k, 3)), degenerate="zero"), False
        yield ccase("matmul", zc((2, k)), zc((k,)), degenerate="zero"), False
        yield ccase("kronecker_prod", zc((k, 2)), rc(ctx, (2, k)), degenerate="zero"), False
        yield ccase("einsum", zc((k,)), rc(ctx, (k, 2)), eq="b,bg->g", real_part=True, imag_part=True, degenerate="zero"), False
    for fn in ("norm", "norm_sqr"):
        yield ccase(fn, zc(()), degenerate="zero"), False
    yield ccase("inner_prod", zc(()), zc(()), degenerate="zero"), False
    # single elements and operands with exact zeros in some entries (zero real part, zero imaginary part, zero entry)
    for d in range(max(2, n // 2)):
        v = rc(ctx, (4,), kind="uniform")
        v[0] = 0.0
        v[1] = v[1].real
        v[2] = 1j * v[2].imag
        w = rc(ctx, (4,), nz=True, kind="uniform")
        for fn in ("absolute_value", "conj", "norm", "norm_sqr"):
            yield ccase(fn, v, degenerate="partly zero"), True
        for fn in ("scalar_mult", "inner_prod", "elementwise_division"):
            yield ccase(fn, v, w, degenerate="partly zero"), True
        yield ccase("inner_prod", w, v, degenerate="partly zero"), True
        yield ccase("outer_prod", v, w, degenerate="partly zero"), True
        yield ccase("matmul", v.reshape(2, 2), w.reshape(2, 2), degenerate="partly zero"), True
        yield ccase("kronecker_prod", v.reshape(1, 4), w.reshape(2, 2), degenerate="partly zero"), True
        for shp in [(1,), (1, 1)]:
            a, b = rc(ctx, shp, nz=True, kind="uniform"), rc(ctx, shp, nz=True, kind="uniform")
            for fn in ("scalar_mult", "elementwise_division", "scalar_divide"):
                yield ccase(fn, a, b, degenerate="single element"), True
            yield ccase("inverse", a, degenerate="single element"), True
            yield ccase("absolute_value", a, degenerate="single element"), True
        yield ccase("norm", rc(ctx, (1,)), degenerate="single element"), True
        yield ccase("matmul", rc(ctx, (1, 1)), rc(ctx, (1, 1)), degenerate="single element"), False
        yield ccase("kronecker_prod", rc(ctx, (1, 1)), rc(ctx, (1, 1)), degenerate="single element"), False


def g_batched(ctx, n):
    """random streams for the same classes: batch shapes of matmul with size-1 / missing batch dimensions on either side,
    scalar_divide over random broadcast pairs, numpy inputs of several dtypes, operands that are zero with probability"""
    rng = ctx.rng
    for d in range(6 * n):
        batch = rshape(ctx, int(rng.integers(1, 3)))
        a, k, b = (int(v) for v in rng.integers(1, 4, size=3))
        sides = []
        for i in range(2):
            r = int(rng.integers(0, len(batch) + 1))
            sides.append(tuple(1 if rng.random() < 0.35 else v for v in batch[len(batch) - r:]))
        if not sides[0] and not sides[1]:
            sides[int(rng.integers(0, 2))] = tuple(batch)
        yield ccase("matmul", rc(ctx, sides[0] + (a, k)), rc(ctx, sides[1] + (k, b))), True
    for d in range(6 * n):
        sx, sy = rand_bcast_pair(ctx)
        doc = (sx == sy) or sy == ()
        yield ccase("scalar_divide", rc(ctx, sx), rc(ctx, sy, nz=True), **({} if doc else {"value_or_reject": True})), True
    for d in range(3 * n):
        shp = rshape(ctx, int(rng.integers(0, 4)))
        npd = ["float64", "complex128", "int64", "complex64"][d % 4]
        c = put(put({"fn": "make_complex", "form": "numpy", "np_dtype": npd}, "x", R(rv(ctx, shp) * 2.0)), "y", R(rv(ctx, shp)))
        yield c, True
    for d in range(3 * n):
        shp = rshape(ctx, int(rng.integers(0, 3)))
        zx = zc(shp) if rng.random() < 0.5 else rc(ctx, shp, kind="zeros")
        fn = ["absolute_value", "conj", "scalar_mult", "elementwise_division", "norm"][d % 5]
        if fn == "norm":
            yield ccase(fn, zc((int(rng.integers(1, 6)),)), degenerate="zero"), False
        elif fn in ("scalar_mult", "elementwise_division"):
            yield ccase(fn, zx, rc(ctx, shp, nz=True), degenerate="zero"), False
        else:
            yield ccase(fn, zx, degenerate="zero"), False


GENERATORS = [
    ("round-2 classes (fixed, first): same-shape call pairs, einsum equation forms, sigmoid next to a pole, ndarray views", g_redteam2),
    ("blind-spot classes (fixed, first)", g_blindspots),
    ("blind-spot classes (random)", g_batched),
    ("round-2 classes (random): einsum equations, ndarray views", g_redteam2_random),
    ("make_complex", g_make_complex),
    ("numpy/real/imag", g_unary(["numpy", "real", "imag"])),
    ("conj/conjugate/absolute_value", g_unary(["conj", "conjugate", "absolute_value"])),
    ("inverse", g_unary(["inverse"], nz=True)),
    ("norms", g_norms),
    ("scalar_mult/elementwise_mult", g_mult),
    ("scalar_mult(out=)", g_out),
    ("matmul", g_matmul),
    ("inner_prod", g_inner),
    ("outer_prod", g_outer),
    ("kronecker_prod", g_kron),
    ("einsum", g_einsum),
    ("division", g_division),
    ("sigmoid", g_sigmoid),
    ("wide magnitudes", g_wide),
    ("extreme magnitudes", g_extreme),
]
LAYOUTS = ["s", "i", "t", "e"]


def add_layouts(ctx, case):
    """every third valid case gets its operands in a non-contiguous / strided / stride-0 memory layout"""
    if case.get("expect") or case.get("x_is_I") or case.get("y_is_I") or case.get("out") in ("x", "y", "view_x", "view_y"):
        return case
    if ctx.rng.random() < 0.34:
        for k in ("x", "y"):
            if k in case and ctx.rng.random() < 0.75:
                lay = LAYOUTS[int(ctx.rng.integers(0, len(LAYOUTS)))]
                if lay == "e":                       # make the values constant along the first tensor axis
                    shp = case.get(k + "_shape") or []
                    if len(shp) < 2 or shp[1] < 1:
                        continue
                    import torch
                    t = torch.tensor(common.flat(case[k]), dtype=torch.double).reshape([int(v) for v in shp])
                    if t.numel() == 0:
                        continue
                    put(case, k, t[:, :1].expand(*t.shape).contiguous())
                case[k + "_layout"] = lay
    return case



def run(ctx):
    n = 20 if ctx.thorough else 8
    t_all = time.time()
    for name, g in GENERATORS:
        t0 = time.time()
        for case, flag in g(ctx, n):
            eval_case(ctx, add_layouts(ctx, case), corr=True, shape_flag=flag)
        flush_held(ctx)
        ctx.extra.setdefault("wall_per_generator_s", {})[name] = round(time.time() - t0, 2)
    ctx.extra["run_wall_s"] = round(time.time() - t_all, 2)


def search(ctx, broken, budget_s):
    """Wider random sweep of the numpy oracle only (no model calls); known-finding hits are not failures."""
    t0 = time.time()
    n0 = len(ctx.failures)
    rounds = 0
    while time.time() - t0 < budget_s and rounds < 40:
        rounds += 1
        for name, g in GENERATORS:
            for case, flag in g(ctx, 3):
                if case.get("out_is_view_of_operand") or case.get("extreme_magnitude"):
                    continue
                eval_case(ctx, case, corr=False, shape_flag=flag)
                if len(ctx.failures) > n0:
                    return ctx.failures[n0]
                if time.time() - t0 > budget_s:
                    return None
    return None


def replay(ctx, rec):
    recs = [rec.get("failing") or {}] + list(rec.get("more") or [])
    done = 0
    for r in recs:
        case = r.get("case") if isinstance(r, dict) else None
        if isinstance(case, dict) and "fn" in case and "x" in case:
            n0 = len(ctx.failures)
            later = case.get("later")
            case = {k: v for k, v in case.items() if k not in ("later", "later_call", "held_result_changed", "calls_ago")}
            try:
                flush_held(ctx)
                eval_case(ctx, case, corr=True)
                if isinstance(later, dict) and "fn" in later:      # a result changed by the NEXT call: run that call too
                    eval_case(ctx, later, corr=False)
                flush_held(ctx)
            except KeyError:
                continue
            done += 1
            print("replay of %s %s: %s" % (case["fn"], [case.get("x_shape"), case.get("y_shape")],
                                           "still fails: " + ctx.failures[n0]["what"] if len(ctx.failures) > n0 else "passes now"))
    if not done:
        run(ctx)
