"""C18 — EarlyStopping (and the deprecated VarianceBasedEarlyStopping) halts exactly when its documented
convergence rule is met.

A case is a session: a real neural state, a real MetricEvaluator (scripted metric) or ObservableEvaluator
(scripted stub observable with mean and variance), a real EarlyStopping, both inside real `fit` runs, in
either callback order.  A Probe placed right before the evaluator records every EpochEnd epoch and the value
the monitored quantity evaluates to there.  The monitored values are plain Python floats, plain Python ints,
numpy float64 and numpy int64 scalars (the type is part of the case), including exact zeros.
  * oracle: an independent reference decision procedure implementing the DOCUMENTED rule (compare M_t with
    M_{t-p}: relative |(M_{t-p}-M_t)/M_{t-p}|, absolute |M_{t-p}-M_t|, variance |M_{t-p}-M_t|/sigma_{t-p};
    stop iff deviation < tolerance; checks only at multiples of the stopper's period and only when p earlier
    evaluations exist) run on the probe's record: no epoch before the last one may satisfy the rule, the
    run ends by a stop iff the last epoch satisfies it, last_epoch is that epoch, and `fit` never raises.
    Zero cases (M_{t-p} = 0 for `relative`, variance 0 for `variance`) are decided under IEEE semantics in
    float64: the deviation is inf or nan, which is never below the tolerance.
    Every decision is taken twice: by the documented formula evaluated in float64 (IEEE) and by the documented
    inequality evaluated in EXACT rational arithmetic (fractions.Fraction) on the doubles of the history.  A decision
    is demanded only where the two agree and the exact deviation is not within a factor 1 +- 1e-9 of the tolerance
    (guard band: a mathematically equal formula may round differently; for `relative` with two different values the
    band is also 1e-9*max(1,tol) absolute, because 1 - M_t/M_{t-p} is an equally documented spelling).  Equal values
    (deviation exactly 0) and exact ties are always demanded.  Where the float evaluation of the documented formula
    itself overflows / rounds a denormal so that it differs from the exact inequality (|M_{t-p}-M_t| = inf against
    tolerance inf, ...) nothing is demanded: such decisions are counted ("exact_vs_ieee"), the run then follows the
    implementation's choice.
  * regimes: besides ordinary magnitudes, a fixed list (run first) and a random stream of EXTREME sessions: values,
    variances and tolerances over the whole finite double range (denormals, 1e-300 .. 1e300, max double, exact zeros,
    equal values, opposite signs, values one ulp / 1e-12..1e-4 apart, two magnitudes in one history), tolerances
    0, 5e-324, float_info.min, 1e-300 .. 1e300, max double, inf and tolerances matched to a deviation of the history
    (factors 0.5, 1 -+ 1e-6, 2, 1e+-3), so that squared / cross-multiplied / re-associated spellings of the three
    tests (which overflow, underflow or meet a zero where the documented one does not) decide differently.
  * histories and stop sources: the evaluator may be cleared (clear_history(), the library's own reset) between two runs of a
    session (the reference history starts again; generated also so that the first check after the clearing at which the rule
    holds meets the history length of the last check before it); a session may have a SECOND EarlyStopping on the same
    evaluator (same or second scripted quantity, either list order) and / or another callback, listed before the stoppers,
    that asks for the stop at an epoch / batch end.  Then: the run ends at the first epoch at which ANY stopper's rule holds
    (or the other callback fires), every stopper's last_epoch is the latest epoch at which ITS rule held, and the stop flag,
    read after every callback of the list, never goes from True back to False inside a run.
  * call forms: periods of evaluator and stopper and the patience as Python int / numpy.int64 / numpy.int32, tolerance as float /
    int / numpy.float64; the evaluator an instance of the stock class or of a trivial user subclass (the documented parameter
    type is "an instance of MetricEvaluator or ObservableEvaluator").  Out of scope (ASSUMPTIONS): attributes of a live stopper
    re-assigned between runs.
  * correspondence: outcome, epochs run, last_epoch, evaluator record vs the extracted Coq model
    (Callbacks.es_fit / es_construct) executed at IEEE doubles (one model session per stretch between two clearings); with
    several stop sources the model's rule (Callbacks.es_rule) decides every check and the predicted outcome is compared.
  * constructor: the statement only says that the variance criterion is REFUSED for plain metrics and that the
    deprecated class behaves as the variance criterion.  Demanded: variance (any spelling the constructor would
    normalise) + MetricEvaluator raises (any exception class); the three documented names construct for the
    evaluator kinds they are documented for; VarianceBasedEarlyStopping constructs for an ObservableEvaluator and
    raises for a MetricEvaluator, and its runs equal those of EarlyStopping(criterion="variance").  Exception
    classes, non-evaluators, unknown names, case/white-space tolerance: histogram only ("info:...").
"""
import json, math, sys, time
from fractions import Fraction
import numpy as np
from checks import c17 as base

RULE = ("sessions = (evaluator kind metric/observable, callback order evaluator-first/stopper-first, evaluator period 1..4, "
        "stopper period 1..4, patience 1..5 given as int / numpy.int64 / float, criterion relative/absolute/variance (15% written with "
        "random case and white space), tolerance in {0, 1e-3, 0.05, 0.3, 2, inf}, scripted value sequence monotone-converging / "
        "oscillating / constant / containing zeros / plateaus / random, value type float / int / numpy.float64 / numpy.int64 (exact zeros "
        "in every type), variances positive or zero, one or two fit runs of up to 24 epochs without clearing); "
        "options: periods as int / numpy.int64 / numpy.int32, tolerance as float / int / numpy.float64, evaluator of a trivial user subclass "
        "(15%), evaluator.clear_history() before a later run (40% of the later runs; every 12th session built so that the first positive "
        "check after the clearing meets the history length of the last negative check before it), a second stopper on the same or a second "
        "quantity and / or a StopAt callback before the stoppers (20%); 27 fixed sessions of these kinds run first; "
        "plus the constructor table over 14 criterion spellings x 5 evaluator kinds (stock, user subclasses, non-evaluator), the deprecated "
        "class and numpy / int argument types; "
        "plus EXTREME sessions (28 fixed, run first; 1 in 4 of the random stream): float / numpy.float64 values = shape settle / halving / flip / "
        "zeros / two-scale / ulp-steps / near-equal (1e-12..1e-4) times a magnitude in {5e-324 .. 4e307}, variances in {0, 5e-324, 1e-310 .. max "
        "double} or the squared magnitude, tolerance in {0, 5e-324, float_info.min, 1e-300 .. 1e300, max double, inf} or matched to a deviation of "
        "the history; every decision also taken by an exact rational oracle of the documented inequality; "
        "a session is non-trivial when the rule was evaluated at least once with enough history (stop or not)")
ASSUMPTIONS = ["stoppers are immutable after construction: re-assigning patience / tolerance / period on a live EarlyStopping between runs is "
               "not generated (the statement quantifies over the configuration GIVEN to the constructor; the attributes are not documented as "
               "settable) -- red-team survivor C18_5 is out of scope",
               "user subclasses of MetricEvaluator / ObservableEvaluator are generated only in their trivial form (no method of the base class "
               "overridden): the documented parameter type is 'an instance of MetricEvaluator or ObservableEvaluator'"]

VTYPES = {"float": float, "int": lambda x: int(round(x)), "np.float64": np.float64, "np.int64": lambda x: np.int64(int(round(x)))}
PTYPES = {"int": int, "np.int64": np.int64, "float": float}

CRITS = ["relative", "absolute", "variance"]
SPELL = ["relative", "absolute", "variance", " Relative ", "ABSOLUTE\n", "\tVariance", "rel", "", "variances", "absolute x",
         "  VARIANCE  ", "Relative\t", "abs olute", "relative,"]
TOLS = [0.0, 1e-3, 0.05, 0.3, 2.0, float("inf")]
# the deprecated class's sixth parameter (documented: ignored): omitted / positional / keyword, several values
VNAMES = [None, ["kw", "std_error"], ["pos", "anything"], ["kw", None], ["pos", "variance"], ["pos", "std_error"], ["kw", "mean"]]


def ref_deviation(crit, prev, cur, pvar):
    with np.errstate(all="ignore"):
        prev, cur, pvar = np.float64(prev), np.float64(cur), np.float64(pvar)
        if crit == "relative":
            return abs((prev - cur) / prev)
        if crit == "absolute":
            return abs(prev - cur)
        return abs(prev - cur) / np.sqrt(pvar)


GUARD = Fraction(1, 10 ** 9)


def exact_rule(crit, prev, cur, pvar, tol):
    """the DOCUMENTED inequality `deviation < tolerance` decided in exact rational arithmetic on the doubles given
    (no overflow, no underflow, no rounding): returns (below, band) or None when an operand is not finite.
    A zero denominator (earlier value 0 for `relative`, variance 0 for `variance`) makes the documented quantity inf / nan:
    never below.  band: the deviation is within a factor 1 +- 1e-9 of the tolerance without being equal to it (for `relative`
    with two different values also: within 1e-9*max(1,tol) absolutely)."""
    if not (math.isfinite(prev) and math.isfinite(cur) and math.isfinite(pvar)) or math.isnan(tol):
        return None
    c = abs(Fraction(prev) - Fraction(cur))
    if crit == "relative":
        if prev == 0:
            return False, False
        lhs, unit = c, abs(Fraction(prev))                 # deviation = lhs / unit
    elif crit == "absolute":
        lhs, unit = c, Fraction(1)
    else:
        if not pvar > 0:
            return False, False
        lhs, unit = c * c, Fraction(pvar)                  # deviation^2 = lhs / unit
    if tol == math.inf:
        return True, False                                 # the exact deviation is finite
    if tol < 0:
        return False, False
    T = Fraction(tol)
    if crit == "variance":
        rhs = T * T * unit                                 # deviation < tol  <=>  lhs < rhs   (both sides >= 0)
        keep = (1 - GUARD) ** 2
    else:
        rhs = T * unit
        keep = 1 - GUARD
    band = lhs != rhs and min(lhs, rhs) >= keep * max(lhs, rhs)
    if crit == "relative" and lhs != 0 and lhs != rhs and abs(lhs - rhs) <= GUARD * max(1, T) * unit:
        band = True
    return lhs < rhs, band


def ref_should_stop(hist, p, tol, crit):
    """documented rule on a history of (value, variance) evaluations; returns (decision, soft):
    soft is None (the decision is demanded), "guard_band" or "exact_vs_ieee" (not demanded either way)"""
    if len(hist) < p + 1:
        return False, None
    cur, prev = hist[len(hist) - 1], hist[len(hist) - 1 - p]
    d = float(ref_deviation(crit, prev[0], cur[0], prev[1]))
    ieee = bool(d < tol)
    ex = exact_rule(crit, prev[0], cur[0], prev[1], tol)
    if ex is None:          # non-finite monitored values (not generated): IEEE semantics only
        return ieee, None
    if ex[1]:
        return ieee, "guard_band"
    if ex[0] != ieee:
        return ieee, "exact_vs_ieee"
    return ieee, None


class ScriptedSystem:
    """stands in for qucumber.observables.System inside a real ObservableEvaluator: the statistics of every (stub) observable
    exactly as scripted, without the chunk-merging arithmetic of System.statistics"""
    def __init__(self, real, n):
        self.observables = real.observables
        self.n = n

    def statistics(self, nn_state, **kwargs):
        return {name: obs.statistics_from_samples(nn_state, [None] * self.n) for name, obs in self.observables.items()}


def tol_bucket(tol):
    if tol == 0 or tol == math.inf:
        return repr(tol)
    for name, hi in (("denormal", sys.float_info.min), ("<1e-160", 1e-160), ("<1e-20", 1e-20), ("<1e-6", 1e-6), ("ordinary", 1e6), ("<1e20", 1e20),
                     ("<1e150", 1e150), ("<=max", math.inf)):
        if tol < hi:
            return name


def spell(rng, crit):
    s = crit
    r = rng.random()
    if r < 0.3:
        s = s.upper()
    elif r < 0.5:
        s = s.capitalize()
    if rng.random() < 0.4:
        s = [" ", "\t", "\n", "  "][int(rng.integers(4))] + s
    if rng.random() < 0.4:
        s = s + [" ", "\t", "\n", " \n"][int(rng.integers(4))]
    return s


ITYPES = {"int": int, "np.int64": np.int64, "np.int32": np.int32}       # how a period is handed over
_SUB = {}


def evaluator_classes(sub):
    """the stock evaluator classes, or trivial user subclasses of them (nothing of the base class is overridden)"""
    from qucumber.callbacks import MetricEvaluator, ObservableEvaluator
    if not sub:
        return MetricEvaluator, ObservableEvaluator
    if "sub" not in _SUB:
        class PlottingMetricEvaluator(MetricEvaluator):
            def summary(self):
                return {n: self[n] for n in self.names}

        class MyObservableEvaluator(ObservableEvaluator):
            pass
        _SUB["sub"] = (PlottingMetricEvaluator, MyObservableEvaluator)
    return _SUB["sub"]


def flag_probe_class():
    if "F" not in _SUB:
        from qucumber.callbacks import CallbackBase

        class FlagProbe(CallbackBase):
            """records the stop flag as it is when this callback's turn comes at the end of an epoch"""
            def __init__(self, log, pos):
                self.log, self.pos = log, pos

            def on_epoch_end(self, s, epoch):
                self.log.append((int(epoch), self.pos, bool(s.stop_training)))
        _SUB["F"] = FlagProbe
    return _SUB["F"]


def given_tol(tol, ttype):
    if ttype == "int" and math.isfinite(tol) and tol == int(tol):
        return int(tol)
    if ttype == "np.float64":
        return np.float64(tol)
    return tol


def session(ctx, spec):
    """one session = one evaluator, one stopper (optionally a second stopper and / or a StopAt callback: several stop sources),
    one or more fit runs on the same objects, optionally evaluator.clear_history() between two runs"""
    from qucumber.callbacks import EarlyStopping, VarianceBasedEarlyStopping
    import io, contextlib
    C = base.classes()
    MetricEvaluator, ObservableEvaluator = evaluator_classes(spec.get("subclass"))
    case = {"session": "early_stopping", "spec": spec}
    s, extra = base.make_state(spec)
    pe, ps, p, tol = spec["pe"], spec["ps"], spec["patience"], float(spec["tol"])
    crit = spec["crit"].strip().lower()
    clock = C["Clock"]()
    vals, vars_ = spec["values"], spec["variances"]
    second = spec.get("second")             # {"name": "q"|"r", "crit", "tol", "patience", "ps", "values", "variances"}
    stop_at = spec.get("stop_at")           # [fit index, epoch, "epoch"|"batch"]: another stop source, listed before the stoppers
    clear_before = spec.get("clear_before") or []       # fit indices before which evaluator.clear_history() is called
    multi = bool(second) or stop_at is not None
    names = ["q"] + (["r"] if second and second["name"] == "r" else [])
    scripts = {"q": (vals, vars_)}
    if "r" in names:
        scripts["r"] = (second["values"], second["variances"])
    kw = {"num_samples": 4, "num_chains": 4, "burn_in": 1, "steps": 1}
    conv = VTYPES[spec.get("vtype", "np.float64")]
    vconv = float if spec.get("vtype", "np.float64") in ("float", "int") else np.float64
    pegiven = ITYPES[spec.get("petype", "int")](pe)
    psgiven = ITYPES[spec.get("pstype", "int")](ps)
    tgiven = given_tol(tol, spec.get("ttype", "float"))
    if spec["ev"] == "metric":
        fns = {nm: (lambda vs: (lambda state, **k: conv(vs[clock.t % len(vs)])))(scripts[nm][0]) for nm in names}
        ok, ev = ctx.call("evaluator construction", case, lambda: MetricEvaluator(pegiven, dict(fns), verbose=bool(spec.get("verbose", False))))
        if not ok:
            return
        probe = C["Probe"](lambda st: {nm: (fns[nm](st), np.float64(0.0)) for nm in names})
        read = lambda: [float(x) for x in ev["q"]]
    else:
        obs = [C["StubObs"](nm, clock, [[scripts[nm][0][i % len(scripts[nm][0])], scripts[nm][1][i % len(scripts[nm][1])]]
                                        for i in range(len(scripts[nm][0]) * len(scripts[nm][1]))], conv=conv, vconv=vconv) for nm in names]
        ok, ev = ctx.call("evaluator construction", case, lambda: ObservableEvaluator(pegiven, obs, verbose=bool(spec.get("verbose", False)), **kw))
        if not ok:
            return
        wb = C["obs_wouldbe"](obs, kw)
        if spec.get("regime") == "extreme":
            # System.statistics merges chunk statistics with (mean difference)**2 and mean*n/n, variance*(n-1)/(n-1): that overflows
            # (OverflowError for Python floats, nan for numpy) or rounds for magnitudes the stopper itself handles.  The property is about
            # the stopper's decision on the evaluator's record, so here the real evaluator records the scripted statistics unmerged.
            if not hasattr(ev, "system"):
                ctx.count("info:extreme observable session skipped (evaluator has no .system to script)")
                return None
            ev.system = ScriptedSystem(ev.system, kw["num_samples"])
            wb = ev.system.statistics
        probe = C["Probe"](lambda st: (lambda d: {nm: (d[nm]["mean"], d[nm]["variance"]) for nm in names})(wb(st)))
        read = lambda: [float(x) for x in ev["q"].means]
    pgiven = PTYPES[spec.get("ptype", "int")](p)
    esform = spec.get("esform", 0)
    if spec.get("deprecated"):
        vn = spec.get("vname")          # None: argument omitted; else [mode, value] (documented: ignored)
        if vn is None:
            mk = lambda: VarianceBasedEarlyStopping(psgiven, tgiven, pgiven, ev, "q")
        elif vn[0] == "pos":
            mk = lambda: VarianceBasedEarlyStopping(psgiven, tgiven, pgiven, ev, "q", vn[1])
        else:
            mk = lambda: VarianceBasedEarlyStopping(period=psgiven, tolerance=tgiven, patience=pgiven, evaluator_callback=ev,
                                                    quantity_name="q", variance_name=vn[1])
        ctx.count("variance_name:%s" % ("omitted" if vn is None else "%s=%r" % (vn[0], vn[1])))
        ok, es = ctx.call("VarianceBasedEarlyStopping construction", case, mk)
    elif spec["crit"] in CRITS:
        if esform == 1:
            mk = lambda: EarlyStopping(psgiven, tgiven, pgiven, ev, "q", spec["crit"])
        elif esform == 2:
            mk = lambda: EarlyStopping(period=psgiven, tolerance=tgiven, patience=pgiven, evaluator_callback=ev, quantity_name="q",
                                       criterion=spec["crit"])
        elif esform == 3 and spec["crit"] == "relative":
            mk = lambda: EarlyStopping(psgiven, tgiven, pgiven, ev, "q")          # documented default criterion
        else:
            mk = lambda: EarlyStopping(psgiven, tgiven, pgiven, ev, "q", criterion=spec["crit"])
        ctx.count("stopper_call_form:%d" % esform)
        ok, es = ctx.call("EarlyStopping construction", case, mk)
    else:       # a spelling with other case / white space: whether it is accepted is not part of the property
        r = base.res(lambda: EarlyStopping(psgiven, tgiven, pgiven, ev, "q", criterion=spec["crit"]))
        base.info(ctx, "criterion written with other case / white space is accepted", r[0] == 0)
        ok, es = r[0] == 0, (r[1] if r[0] == 0 else None)
    if not ok:
        return
    # stop sources: the stoppers in list order (+ StopAt, placed before them)
    stoppers = [{"es": es, "name": "q", "crit": crit, "tol": tol, "p": p, "ps": ps, "want": None, "unknown": False, "mwant": None}]
    if second:
        ok, es2 = ctx.call("EarlyStopping construction", case,
                           lambda: EarlyStopping(ITYPES[second.get("pstype", "int")](second["ps"]), float(second["tol"]), second["patience"], ev,
                                                 second["name"], criterion=second["crit"]))
        if not ok:
            return
        stoppers.append({"es": es2, "name": second["name"], "crit": second["crit"], "tol": float(second["tol"]), "p": second["patience"],
                         "ps": second["ps"], "want": None, "unknown": False, "mwant": None})
        if spec.get("swap2"):
            stoppers.reverse()
    ev_first = spec["order"] == "ev_first"
    core = ([probe, ev] + [st["es"] for st in stoppers]) if ev_first else ([st["es"] for st in stoppers] + [probe, ev])
    flaglog = []
    F = flag_probe_class()
    hists = {nm: [] for nm in names}        # reference histories of evaluations (value, variance), one per monitored quantity
    mfits, impl, segs = [], [], [[]]
    mpred, mimpl = [], []                   # several stop sources: outcome predicted with the model's rule vs the run
    evaluated = borderline = False
    extreme = spec.get("regime") == "extreme"
    model = ctx.get_model()
    for fi, (start, end) in enumerate(spec["fits"]):
        if fi in clear_before:              # the library's own reset: the history starts again (the stopper object lives on)
            ok, _ = ctx.call("evaluator.clear_history() between two runs", case, ev.clear_history)
            if not ok:
                return
            for nm in names:
                hists[nm] = []
            segs.append([])
            ctx.count("history:clear_history between runs")
        n0, f0 = len(probe.events), len(flaglog)
        for st in stoppers:
            st["mnow"] = None
        s.stop_training = False
        fkw = dict(extra)
        if not (start == 1 and spec.get("omit_default_start")):      # starting_epoch=1 is the default: sometimes not passed at all
            fkw["starting_epoch"] = start
        lst = [clock] + ([C["StopAt"](stop_at[1], stop_at[2])] if (stop_at is not None and stop_at[0] == fi) else []) + core
        cbs = []
        for pos, cb in enumerate(lst):      # the stop flag is read after every callback of the list
            cbs += [cb, F(flaglog, pos)]
        with contextlib.redirect_stdout(io.StringIO()):
            ok, _ = ctx.call("fit with EarlyStopping", case, lambda: s.fit(base.DATA, epochs=end, pos_batch_size=3, neg_batch_size=3, k=1,
                                                                           lr=0.1, callbacks=cbs, **fkw))
        ctx.count("run_range:%s" % ("first:start=%d" % min(start, 2) if fi == 0 else
                                    ("restart-at-0" if start == 0 else "restart-at-1" if start == 1 else
                                     "continue" if start == spec["fits"][fi - 1][1] + 1 else
                                     "overlap" if start <= spec["fits"][fi - 1][1] else "gap")))
        if not ok:
            s.stop_training = False
            return
        stopped = bool(s.stop_training)
        s.stop_training = False
        evs = probe.events[n0:]
        ran = [e["epoch"] for e in evs]
        # ---- the stop flag inside the run: once set it stays set (a stopper whose rule does not hold must not cancel a stop requested
        #      earlier in the same epoch by another stopper / another callback)
        dropped = [(a, b) for a, b in zip(flaglog[f0:], flaglog[f0 + 1:]) if a[0] == b[0] and a[2] and not b[2]]
        ctx.require("the stop flag never goes from True back to False inside a run (a stop requested earlier in the epoch is not cancelled)",
                    not dropped, case, {"first (epoch, position in the callback list, flag) pair": dropped[:1],
                                        "callbacks": [type(cb).__name__ for cb in lst]})
        # ---- reference decision procedure on the probe's record
        ctx.require("epochs run are consecutive from starting_epoch", ran == list(range(start, start + len(ran))) and len(ran) >= 1, case, ran)
        mfire = None
        for i, e in enumerate(evs):
            ep = e["epoch"]
            v = {nm: (float(e["values"][nm][0]), float(e["values"][nm][1])) for nm in names}
            if ev_first and ep % pe == 0:
                for nm in names:
                    hists[nm].append(v[nm])
            decided = []
            for st in stoppers:
                hist = hists[st["name"]]
                checked = ep % st["ps"] == 0
                rule, soft = ref_should_stop(hist, st["p"], st["tol"], st["crit"]) if checked else (False, None)
                if checked and len(hist) >= st["p"] + 1:
                    evaluated = True
                    if extreme:
                        ctx.count("extreme_decision:%s:%s" % (st["crit"], soft or ("below-tolerance" if rule else "not-below")))
                if multi and checked and mfire is None:
                    if bool(model.call("c18_rule", CRITS.index(st["crit"]), st["p"], st["tol"], [list(h) for h in hist])):
                        st["mnow"] = ep
                decided.append((st, rule, soft))
            if multi and mfire is None:
                at = stop_at is not None and stop_at[0] == fi and stop_at[1] == ep
                if at or any(st.get("mnow") == ep for st in stoppers):
                    mfire = ep
                    for st in stoppers:
                        if st.get("mnow") == ep:
                            st["mwant"] = ep
            if not ev_first and ep % pe == 0:
                for nm in names:
                    hists[nm].append(v[nm])
            last = (i == len(evs) - 1)
            other = stop_at is not None and stop_at[0] == fi and stop_at[1] == ep        # another callback asks for the stop at this epoch
            firing = [st for st, rule, soft in decided if rule and not soft]
            softs = [st for st, rule, soft in decided if soft]
            det = {"epoch": ep, "stoppers": [{"quantity": st["name"], "criterion": st["crit"], "tol": st["tol"], "patience": st["p"],
                                              "period": st["ps"], "history": [list(h) for h in hists[st["name"]][-(st["p"] + 2):]],
                                              "rule holds": bool(rule), "not demanded": soft} for st, rule, soft in decided],
                   "patience": p, "tol": tol, "criterion": crit, "stopped_at": ran[-1] if stopped else None, "ran": ran}
            for st, rule, soft in decided:
                if soft:        # guard band / exact-vs-IEEE: either decision is accepted here; the rest of the run follows the implementation's choice
                    borderline = True
                    ctx.count("%s_decisions" % soft)
            if firing:
                if not last:
                    ctx.require("training continues past an epoch only if the documented rule does not hold there (no missed stop)",
                                False, case, det)
                else:
                    ctx.require("training stops at the first checked epoch at which the documented rule holds", stopped, case, det)
                    for st in firing:
                        st["want"] = ep
                    for st in softs:
                        st["unknown"] = True
            elif softs:
                if last and stopped:
                    if len(softs) == 1 and not other:
                        softs[0]["want"] = ep
                    else:
                        for st in softs:
                            st["unknown"] = True
            elif last and not other:
                ctx.require("training does not stop at an epoch at which the documented rule does not hold "
                            "(not before p earlier evaluations, not at unchecked epochs, not above tolerance)",
                            (not stopped) and ep == end, case, det)
        for st in stoppers:
            if not st["unknown"]:
                ctx.require("last_epoch == the epoch of the stop (None while never stopped)", st["es"].last_epoch == st["want"], case,
                            {"quantity": st["name"], "last_epoch": st["es"].last_epoch, "want": st["want"]})
        rec = [[e["epoch"], float(e["values"]["q"][0]), float(e["values"]["q"][1])] for e in evs]
        mfits.append(rec)
        segs[-1].append(rec)
        impl.append([[1, ran[-1]] if stopped else [0], ran, [] if es.last_epoch is None else [int(es.last_epoch)],
                     [int(x) for x in ev.epochs], [0, read()]])
        if multi:
            mpred.append([mfire, [st["mwant"] for st in stoppers]])
            mimpl.append([ran[-1] if stopped else None, [None if st["es"].last_epoch is None else int(st["es"].last_epoch) for st in stoppers]])
        ctx.traces += 1
    # ---- correspondence with the model
    mcrit = base.codes("variance" if spec.get("deprecated") else spec["crit"])
    if multi:
        # several stop sources: the model's rule (Callbacks.es_rule at IEEE doubles) decides every check of every stopper; the run must end at
        # the first epoch at which a source fires and every stopper's last_epoch is the latest epoch at which its own rule held
        got, want = base.canon(mimpl), base.canon(mpred)
    else:
        # the evaluator is new after clear_history(): one model session per stretch of runs between two clearings; the stopper's
        # last_epoch (the only thing it keeps) is carried over
        out, carry, code = [], [], None
        for seg in segs:
            if not seg:
                continue
            m = model.call("c18_es_session", 0 if spec["ev"] == "metric" else 1, ev_first, pe, ps, tol, p, mcrit, seg)
            code = m[:2]
            for r in (m[2] if len(m) > 2 else []):
                r = list(r)
                if len(r) > 2:
                    if len(r[2]) == 0:
                        r[2] = carry
                    else:
                        carry = r[2]
                out.append(r)
        got, want = base.canon([0, CRITS.index(crit), impl]), base.canon((code or [0, CRITS.index(crit)]) + [out])
    if borderline:
        base.info(ctx, "session with a guard-band / exact-vs-IEEE decision vs model", got == want)
    else:
        ctx.agree_exact("EarlyStopping run vs model", got, want, case)
    ctx.case({k: spec.get(k) for k in ("ev", "order", "pe", "ps", "patience", "ptype", "vtype", "tol", "crit", "fits", "tseed", "pattern",
                                       "esform", "vname", "deprecated", "verbose", "regime", "mag", "vmag", "petype", "pstype", "ttype",
                                       "subclass", "clear_before", "stop_at", "swap2")},
             nontrivial=evaluated)
    if extreme:
        ctx.count("regime:extreme")
        ctx.count("extreme_tolerance:" + tol_bucket(tol))
    if second:
        ctx.count("stop_sources:two stoppers (%s)" % ("one quantity" if second["name"] == "q" else "two quantities"))
    if stop_at is not None:
        ctx.count("stop_sources:another callback stops at %s end, listed before the stopper" % stop_at[2])
    if spec.get("subclass"):
        ctx.count("evaluator:user subclass")
    ctx.count("period_types:evaluator=%s stopper=%s" % (spec.get("petype", "int"), spec.get("pstype", "int")))
    ctx.count("tolerance_type:" + type(tgiven).__name__)
    ctx.count("vtype:" + spec.get("vtype", "np.float64")); ctx.count("ptype:" + spec.get("ptype", "int"))
    hist = hists["q"]
    zero_prev = any(h[0] == 0.0 for h in hist) if crit == "relative" else (any(h[1] == 0.0 for h in hist) if crit == "variance" else False)
    if zero_prev:
        ctx.count("zero_in_history:%s:%s" % (crit, spec.get("vtype", "np.float64")))
    ctx.count("crit:" + crit); ctx.count("order:" + spec["order"]); ctx.count("ev:" + spec["ev"]); ctx.count("patience=%d" % p)
    ctx.count("pattern:" + spec["pattern"])
    ctx.count("outcome:" + ("stopped" if any(st["es"].last_epoch is not None for st in stoppers) else "completed"))
    return impl


def ki_sub(mk, M, O):
    return type(mk()) not in (M, O) and isinstance(mk(), (M, O))


def constructor_table(ctx):
    from qucumber.callbacks import MetricEvaluator, ObservableEvaluator, EarlyStopping, VarianceBasedEarlyStopping, Logger
    from qucumber.observables import SigmaZ
    SubM, SubO = evaluator_classes(True)
    # user subclasses of the two evaluator classes are instances of them: same table rows as the stock classes
    kinds = [("metric", lambda: MetricEvaluator(1, {"q": lambda s, **k: 1.0}), 0),
             ("observable", lambda: ObservableEvaluator(1, [SigmaZ()], num_samples=2), 1),
             ("other", lambda: Logger(1), 2),
             ("metric", lambda: SubM(1, {"q": lambda s, **k: 1.0}), 0),
             ("observable", lambda: SubO(1, [SigmaZ()], num_samples=2), 1)]
    m = ctx.get_model()
    for kname, mk, ki in kinds:
        sub = ki_sub(mk, MetricEvaluator, ObservableEvaluator)
        for sp in SPELL:
            case = {"session": "constructor", "kind": kname, "criterion": sp}
            if sub:
                case["subclass"] = True
            r = base.res(lambda: EarlyStopping(1, 0.1, 2, mk(), "q", criterion=sp), lambda es: 0)
            raises = r[0] == 1
            mod_raises = m.call("c18_construct", ki, base.codes(sp))[0] == 1
            n = sp.strip().lower()
            if kname == "metric" and n == "variance":
                ctx.require("the variance criterion is refused for a MetricEvaluator (construction raises)", raises, case, {"got": r})
                ctx.agree_exact("variance + MetricEvaluator refused: vs model", raises, mod_raises, case)
            elif kname != "other" and sp in CRITS:
                ctx.require("a documented criterion name is accepted for the evaluator kinds it is documented for", not raises, case, {"got": r})
                ctx.agree_exact("documented criterion accepted: vs model", raises, mod_raises, case)
            else:       # non-evaluators, unknown names, case / white-space variants, exception classes: not in the statement
                base.info(ctx, "constructor raises-or-constructs outside the statement (%s)" % kname, raises == mod_raises)
                if raises:
                    want_cls = 3 if (kname == "other" or (kname == "metric" and n == "variance")) else 4
                    base.info(ctx, "constructor exception class", r[1] == want_cls)
            ctx.case(case, nontrivial=(kname != "other"))
            ctx.count("constructor:" + kname + (" (user subclass)" if sub else ""))
        for vn in VNAMES:
            case = {"session": "constructor", "kind": kname, "deprecated": True, "variance_name": vn}
            if sub:
                case["subclass"] = True
            if vn is None:
                r = base.res(lambda: VarianceBasedEarlyStopping(1, 0.1, 2, mk(), "q"), lambda es: 0)
            elif vn[0] == "pos":
                r = base.res(lambda: VarianceBasedEarlyStopping(1, 0.1, 2, mk(), "q", vn[1]), lambda es: 0)
            else:
                r = base.res(lambda: VarianceBasedEarlyStopping(1, 0.1, 2, mk(), "q", variance_name=vn[1]), lambda es: 0)
            raises = r[0] == 1
            mod_raises = m.call("c18_vbes_construct", ki)[0] == 1
            if kname == "observable":
                ctx.require("VarianceBasedEarlyStopping constructs for an ObservableEvaluator (variance_name given or not)", not raises, case, {"got": r})
                ctx.agree_exact("deprecated constructor vs model", raises, mod_raises, case)
            elif kname == "metric":
                ctx.require("VarianceBasedEarlyStopping (= variance criterion) is refused for a MetricEvaluator", raises, case, {"got": r})
                ctx.agree_exact("deprecated constructor vs model", raises, mod_raises, case)
            else:
                base.info(ctx, "constructor raises-or-constructs outside the statement (other)", raises == mod_raises)
            ctx.case(case, nontrivial=True)
    # period / patience handed over as numpy integers, tolerance as int / numpy float: construction succeeds like with Python numbers
    for kname, mk, ki in kinds:
        if kname == "other" or ki_sub(mk, MetricEvaluator, ObservableEvaluator):
            continue
        for args in ((np.int64(1), 0.1, 2), (np.int32(2), 1, np.int64(1)), (np.arange(3)[1], np.float64(0.5), 2.0), (3, 0, np.int32(5))):
            for crit in (CRITS if kname == "observable" else CRITS[:2]):
                case = {"session": "constructor", "kind": kname, "criterion": crit,
                        "arguments": [type(a).__name__ for a in args]}
                r = base.res(lambda: EarlyStopping(args[0], args[1], args[2], mk(), "q", criterion=crit), lambda es: 0)
                ctx.require("period / patience given as numpy integers and tolerance as int / numpy float are accepted like Python numbers",
                            r[0] == 0, case, {"got": r})
                ctx.case(case, nontrivial=True)
                ctx.count("constructor:numpy arguments")


def pattern(rng, name, n=30):
    if name == "converging":
        a, r = float(rng.uniform(0.5, 5)), float(rng.uniform(0.3, 0.9))
        off = float(rng.choice([0.0, 1.0, -2.0]))
        return [off + a * r ** i for i in range(n)]
    if name == "oscillating":
        a, r = float(rng.uniform(0.5, 3)), float(rng.uniform(0.6, 1.0))
        return [a * (r ** i) * (-1) ** i + float(rng.choice([0.0, 1.0])) for i in range(n)]
    if name == "constant":
        c = float(rng.choice([0.0, 1.5, -2.0]))
        k = int(rng.integers(0, 6))
        return [float(x) for x in np.round(rng.normal(size=k), 2)] + [c] * (n - k)
    if name == "zeros":
        x = np.round(rng.normal(size=n), 2)
        x[rng.random(n) < 0.5] = 0.0
        return [float(v) for v in x]
    if name == "plateaus":
        x, out = 4.0, []
        while len(out) < n:
            out += [x] * int(rng.integers(1, 5))
            x = x / 2
        return out[:n]
    return [float(v) for v in np.round(rng.normal(size=n), 2)]


PATTERNS = ["converging", "oscillating", "constant", "zeros", "plateaus", "random"]


def second_stopper(rng, d, name=None):
    """a second EarlyStopping on the same evaluator: on the same quantity or on a second scripted quantity"""
    crits = CRITS if d["ev"] == "observable" else CRITS[:2]
    vals = pattern(rng, PATTERNS[int(rng.integers(len(PATTERNS)))])
    if d.get("vtype") in ("int", "np.int64"):
        vals = [float(round(4 * v)) for v in vals]
    return {"name": name or ("r" if rng.random() < 0.6 else "q"), "crit": crits[int(rng.integers(len(crits)))],
            "tol": TOLS[int(rng.integers(len(TOLS)))], "patience": 1 + int(rng.integers(3)), "ps": int(rng.integers(1, 4)),
            "pstype": ["int", "np.int64"][int(rng.integers(2))], "values": vals,
            "variances": [float(v) for v in np.round(rng.uniform(0.05, 3, size=5), 2)]}


def options(rng, d, i):
    """call forms / histories / stop sources of a session beyond the plain one: periods as numpy integers, tolerance as int or
    numpy float, user subclasses of the evaluators, evaluator.clear_history() between runs, a second stopper, a StopAt callback"""
    d["pstype"] = ["int", "int", "np.int64", "np.int32"][int(rng.integers(4))]
    d["petype"] = ["int", "int", "np.int64", "np.int32"][int(rng.integers(4))]
    d["ttype"] = ["float", "float", "int", "np.float64"][int(rng.integers(4))]
    if rng.random() < 0.15:
        d["subclass"] = True
    fits = d["fits"]
    if len(fits) > 1:
        cb = [j for j in range(1, len(fits)) if rng.random() < 0.4]
        if cb:
            d["clear_before"] = cb
    if i % 12 == 5:         # the first positive check after a clearing meets the history length of the last (negative) check before it
        pe, k, m = int(rng.integers(1, 3)), int(rng.integers(3, 5)), int(rng.integers(1, 3))
        ps, n1 = pe * k, pe * k * m
        moving = [float(v) for v in np.round(np.cumsum(rng.uniform(0.5, 2, size=n1 + (m - 1) * ps)) * float(rng.choice([-1, 1])), 2)]
        c = float(np.round(rng.normal(), 2)) or 1.0
        if d.get("vtype") in ("int", "np.int64"):
            moving, c = [float(round(4 * v)) for v in moving], float(round(4 * c)) or 1.0
        crit = d["crit"].strip().lower()
        d.update({"pe": pe, "ps": ps, "patience": 1 + int(rng.integers(k - 2)), "crit": crit, "values": moving + [c] * (ps + 8),
                  "fits": [(1, n1), (1, n1 + int(rng.integers(0, 5)))], "clear_before": [1], "pattern": "clear-same-length",
                  "tol": 1e-3 if crit == "relative" else [1e-3, 0.05][int(rng.integers(2))],
                  "variances": [v or 1.0 for v in d["variances"]]})
        return
    r = rng.random()
    if r < 0.2:
        if r < 0.14:
            d["second"] = second_stopper(rng, d)
            d["swap2"] = bool(rng.random() < 0.5)
        if r > 0.08:
            fi = int(rng.integers(len(fits)))
            a, b = fits[fi]
            d["stop_at"] = [fi, int(rng.integers(a, b + 1)), "epoch" if rng.random() < 0.6 else "batch"]


# ---------------------------------------------------------------------------------------------------------------------
# EXTREME regime: the whole finite double range.  Algebraically equal spellings of the three tests (squared:
# d*d < tol*tol*var; cross-multiplied: d < tol*sigma, d < tol*|M|; re-associated: sqrt(d*d/var), d/tol < sigma) differ from
# the documented ones exactly where an intermediate overflows / underflows / meets a zero, i.e. for tiny or huge
# tolerances, values, variances.  The oracle is exact (exact_rule), so no magnitude is cut off.
FMAX, FMIN, DEN = sys.float_info.max, sys.float_info.min, 5e-324
MAGS = [DEN, 1e-320, FMIN, 1e-300, 1e-250, 1e-200, 1e-170, 1e-163, 1e-162, 1e-155, 1e-154, 1e-100, 1e-30, 1.0, 1e30, 1e100,
        1e153, 1e154, 1e155, 1e162, 1e170, 1e200, 1e250, 1e300, 4e307]
XTOLS = [0.0, DEN, 1e-320, FMIN, 1e-300, 1e-200, 1e-170, 1e-163, 1e-162, 1e-161, 1e-155, 1e-154, 1e-100, 1e-17, 1e-9, 1e-3, 0.3, 2.0,
         1e9, 1e100, 1e154, 1e155, 1e162, 1e200, 1e300, FMAX, float("inf")]
XVARS = [0.0, DEN, 1e-310, 1e-300, 1e-200, 1e-100, 1e-10, 0.25, 1.0, 4.0, 1e10, 1e100, 1e200, 1e300, FMAX]
XSHAPES = ["settle", "halving", "flip", "zeros", "two-scale", "ulp-steps", "near-equal", "equal"]
XFACTORS = [0.5, 0.999, 1 - 1e-6, 1 + 1e-6, 1.001, 2.0, 1e-3, 1e3]
XLEN = 16


def clip(v):
    v = float(v)
    return max(-FMAX, min(FMAX, v))


def xshape(rng, name, s):
    """XLEN finite doubles of magnitude about s (s > 0)"""
    n = XLEN
    if name == "settle":            # decreasing, then constant: equal values follow non-zero changes
        k = int(rng.integers(1, 6))
        out = [s * 2.0 ** (k - i) for i in range(k)] + [s] * (n - k)
    elif name == "halving":         # relative change 1/2 for ever, absolute change shrinking
        a = float(rng.choice([1.0, 8.0, 3.0]))
        out = [a * s * 2.0 ** (-i) for i in range(n)]
    elif name == "flip":            # opposite signs, then constant
        out = [s, -s, s, -s, s / 2, -s / 2, s / 4] + [s / 4] * (n - 7)
        if rng.random() < 0.5:
            out = [-v for v in out]
    elif name == "zeros":
        out = [float(rng.choice([0.0, 0.0, s, -s, 2 * s])) for _ in range(n)]
    elif name == "two-scale":       # two magnitudes in one history
        s2 = MAGS[int(rng.integers(len(MAGS)))]
        k = int(rng.integers(3, 9))
        out = [float(rng.choice([s, -s, s2, -s2, 0.0])) for _ in range(k)]
        out += [out[-1] if rng.random() < 0.5 else float(rng.choice([s, s2]))] * (n - k)
    elif name == "ulp-steps":       # neighbouring doubles
        out, x = [], s
        for _ in range(n):
            out.append(x)
            x = float(np.nextafter(x, [np.inf, -np.inf, x][int(rng.integers(3))]))
    elif name == "near-equal":      # 1e-12 .. 1e-4 away from equal values
        out = [s * (1.0 + float(rng.choice([-1, 1])) * 10.0 ** float(rng.uniform(-12, -4))) if rng.random() < 0.7 else s for _ in range(n)]
    else:                           # equal from the start
        out = [s if rng.random() < 0.5 else -s] * n
    return [clip(v) for v in out]


def exact_deviation(crit, prev, cur, pvar):
    """float approximation of the exact documented deviation (None when undefined or not representable)"""
    try:
        c = abs(Fraction(prev) - Fraction(cur))
        if crit == "relative":
            d = c / abs(Fraction(prev))
        elif crit == "absolute":
            d = c
        else:
            q = c * c / Fraction(pvar)
            e = (q.numerator.bit_length() - q.denominator.bit_length()) // 2 * 2      # sqrt without overflow: scale by 4^k
            d = math.sqrt(float(q / Fraction(2) ** e)) * 2.0 ** (e // 2)
        d = float(d)
    except (ZeroDivisionError, OverflowError, ValueError):
        return None
    return d if (0 < d < math.inf) else None


def extreme_spec(rng, i):
    crit = CRITS[i % 3]
    evk = "observable" if (crit == "variance" or rng.random() < 0.5) else "metric"
    shape = XSHAPES[int(rng.integers(len(XSHAPES)))]
    s = MAGS[int(rng.integers(len(MAGS)))]
    values = xshape(rng, shape, s)
    p = 1 + int(rng.integers(3))
    nv = int(rng.integers(1, 4))
    if rng.random() < 0.5 and 0 < s * s < math.inf:            # sigma of the magnitude of the values
        variances = [clip(s * s * float(rng.choice([0.25, 1.0, 4.0, 1e-20, 1e20]))) for _ in range(nv)]
    else:
        variances = [XVARS[int(rng.integers(len(XVARS)))] for _ in range(nv)]
    tol = None
    if rng.random() < 0.5:                                      # a tolerance next to a deviation of this history
        t = int(rng.integers(p, 9))
        d = exact_deviation(crit, values[t - p], values[t], variances[(t - p) % nv])
        if d is not None:
            tol = d * XFACTORS[int(rng.integers(len(XFACTORS)))]
            if not (0 < tol < math.inf):
                tol = None
    if tol is None:
        tol = XTOLS[int(rng.integers(len(XTOLS)))]
    pe = ps = 1
    if rng.random() < 0.3:
        pe, ps = int(rng.integers(1, 4)), int(rng.integers(1, 4))
    fits = [(1, int(rng.integers(5, 13)))]
    if rng.random() < 0.2:
        fits.append((fits[0][1] + 1, fits[0][1] + int(rng.integers(1, 5))) if rng.random() < 0.5 else (1, int(rng.integers(2, 7))))
    return {"ev": evk, "order": "ev_first" if rng.random() < 0.6 else "st_first", "pe": pe, "ps": ps, "patience": p,
            "ptype": ["int", "np.int64", "float"][int(rng.integers(3))], "vtype": ["float", "np.float64"][int(rng.integers(2))],
            "crit": crit, "tol": tol, "values": values, "variances": variances, "fits": fits, "pattern": "extreme:" + shape,
            "regime": "extreme", "mag": s, "vmag": variances[0], "esform": int(rng.integers(3)), "state": "positive",
            "tseed": int(rng.integers(1 << 30))}


HISTORY_PATTERNS = ("clear-same-length", "two-stoppers", "stop-at+stopper", "evaluator-subclass", "numpy-arguments")


def history_fixed():
    """fixed sessions (run first) for: evaluator.clear_history() between runs, several stop sources in one run, user subclasses of the
    evaluators, periods / patience as numpy integers and tolerance as int / numpy float"""
    out = []

    def b(**kw):
        d = {"ev": "metric", "order": "ev_first", "pe": 1, "ps": 1, "patience": 1, "crit": "absolute", "tol": 0.05, "vtype": "float",
             "values": [1.0], "variances": [1.0], "fits": [(1, 8)], "pattern": "fixed-history", "state": "positive", "tseed": 40 + len(out)}
        d.update(kw)
        d["values"] = [float(v) for v in d["values"]]
        out.append(d)

    # the evaluator is cleared between two runs; the first check of run 2 at which the rule holds meets the history length of the last
    # (negative) check of run 1
    b(ps=4, values=[5, 4, 3, 2, 9, 7, 5, 5, 5, 5, 5, 5, 5, 5], fits=[(1, 4), (1, 8)], clear_before=[1], pattern="clear-same-length")
    b(ps=4, values=[5, 4, 3, 2, 9, 5, 5, 5, 5, 5, 5, 5, 5, 5], fits=[(1, 4), (1, 8)], clear_before=[1], order="st_first",
      pattern="clear-same-length")
    b(ev="observable", crit="variance", tol=0.3, pe=2, ps=4, vtype="np.float64", values=[5, 5, 4, 4] + [7] * 10, fits=[(1, 4), (1, 8)],
      clear_before=[1], pattern="clear-same-length")
    b(crit="relative", tol=1e-3, ps=3, patience=2, vtype="int", values=[9, 8, 7] + [2] * 14,
      fits=[(1, 3), (4, 6), (1, 9)], clear_before=[1], pattern="clear-same-length")
    # two stoppers in one run: the one whose rule holds is listed before / after the one whose rule does not
    a_, b_ = [3, 1, 1, 7, 2, 9, 4, 8], [1, 2, 4, 8, 16, 32, 64, 128]
    sec = lambda vals, **kw: dict({"name": "r", "crit": "absolute", "tol": 0.05, "patience": 1, "ps": 1, "values": [float(v) for v in vals],
                                   "variances": [1.0]}, **kw)
    for order in ("ev_first", "st_first"):
        b(order=order, values=a_, second=sec(b_), swap2=False, pattern="two-stoppers")
        b(order=order, values=b_, second=sec(a_), swap2=True, pattern="two-stoppers")
        b(order=order, values=a_, second=sec(b_), swap2=True, pattern="two-stoppers")
    b(values=a_, second=sec(a_, name="q", crit="relative", tol=1e-3, patience=2), pattern="two-stoppers")
    b(ev="observable", crit="variance", tol=0.3, vtype="np.float64", values=a_, variances=[4.0],
      second=sec(b_, crit="relative", tol=1e-3, ps=1, pstype="np.int64"), pattern="two-stoppers")
    # another callback (listed before the stopper) asks for the stop; the stopper's rule does not hold there
    b(values=b_, stop_at=[0, 3, "epoch"], pattern="stop-at+stopper")
    b(values=b_, stop_at=[0, 4, "batch"], order="st_first", pattern="stop-at+stopper")
    b(values=b_, stop_at=[0, 3, "epoch"], second=sec(b_, crit="relative", tol=1e-3), pattern="stop-at+stopper")
    b(values=b_, stop_at=[0, 2, "epoch"], patience=3, pattern="stop-at+stopper")            # ... the stopper has not enough history there
    b(values=b_, stop_at=[0, 3, "batch"], ps=2, pattern="stop-at+stopper")                  # ... the stopper does not check that epoch
    b(values=a_, second=sec(b_, patience=5, ps=2), swap2=False, pattern="two-stoppers")     # the second stopper has not enough history
    # user subclasses of the evaluator classes
    b(values=[3, 1, 1, 7, 2, 9], subclass=True, pattern="evaluator-subclass")
    b(ev="observable", crit="variance", tol=0.3, vtype="np.float64", values=[3, 1, 1, 7, 2, 9], subclass=True, pattern="evaluator-subclass")
    b(ev="observable", crit="relative", tol=0.3, order="st_first", values=[3, 1, 1, 7, 2, 9], subclass=True, esform=3,
      pattern="evaluator-subclass")
    # periods / patience as numpy integers, tolerance as int / numpy float
    b(values=[9, 5, 5, 7, 2, 9], tol=0.5, pstype="np.int64", pattern="numpy-arguments")
    b(values=[9, 5, 5, 7, 2, 9], tol=1.0, pstype="np.int32", ttype="int", pattern="numpy-arguments")
    b(values=[9, 9, 5, 5, 5, 5, 7, 7], tol=2.0, pe=2, ps=2, petype="np.int64", pstype="np.int64", ptype="np.int64", ttype="np.float64",
      pattern="numpy-arguments")
    b(ev="observable", crit="variance", vtype="np.float64", values=[9, 5, 5, 7, 2, 9], tol=1.0, ps=1, pe=1, petype="np.int32",
      pstype="np.int64", ttype="int", deprecated=True, vname=None, pattern="numpy-arguments")
    return out


def extreme_fixed():
    """sessions on which a squared / cross-multiplied / re-associated spelling of a documented test decides differently
    (under- or overflow of an intermediate, never of the documented quantity); they run first"""
    k = [0]

    def x(crit, values, tol, variances=(1.0,), p=1, end=8, ev=None, **kw):
        k[0] += 1
        values = [float(v) for v in values]
        values = values + [values[-1]] * (XLEN - len(values))
        ev = ev or ("observable" if crit == "variance" or k[0] % 2 else "metric")
        spec = {"ev": ev, "order": "ev_first" if k[0] % 3 else "st_first", "pe": 1, "ps": 1, "patience": p, "crit": crit, "tol": tol,
                "vtype": "float" if k[0] % 2 else "np.float64", "values": values, "variances": [float(v) for v in variances],
                "fits": [(1, end)], "pattern": "extreme:fixed", "regime": "extreme", "mag": values[0], "vmag": float(variances[0]),
                "state": "positive", "tseed": 100 + k[0]}
        spec.update(kw)
        return spec

    settle = lambda s: [8 * s, 4 * s, 2 * s, s, s, s]
    halving = lambda s, n=12: [8 * s * 2.0 ** (-i) for i in range(n)]
    flip = lambda s: [s, -s, s, -s, s / 2, -s / 2, s / 4, s / 4]
    out = []
    # variance: the values stop moving, tolerance tiny but positive -> deviation 0 < tol: stop (tol*tol underflows to 0)
    for tol in (DEN, FMIN, 1e-300, 1e-200, 1e-163):
        out.append(x("variance", settle(1.0), tol, [4.0]))
    out.append(x("variance", settle(1.0), 1e-200, [4.0, 0.0, 0.25, 1.0], p=2, ps=2, end=12))
    out.append(x("variance", settle(1.0), 1e-200, [1e-300]))                                 # tol*sigma underflows
    out.append(x("variance", settle(3.0), 1e-100, [1e-300, 1e300]))
    out.append(x("variance", [2.0 ** -e for e in (590, 595, 600, 605, 610, 615)], 2.0 ** -596))    # d*d underflows: stop at 4
    out.append(x("variance", halving(1e200), 1.5e50, [1e300]))                                # d*d overflows: stop at 4
    out.append(x("variance", halving(1e-170), 1e-30, [1e-300], end=10))                       # d*d underflows: never below
    out.append(x("variance", halving(1e-170), 1e-21, [1e-300], end=10))                       # ... stop at 8
    out.append(x("variance", settle(1e-160), 50.0, [DEN]))                                    # denormal variance (sigma 2.2e-162)
    out.append(x("variance", settle(1e150), 1e-160, [1e300]))
    out.append(x("variance", flip(1e308), float("inf"), [FMAX]))                              # |dM| overflows: exact-vs-IEEE, nothing demanded
    # relative
    out.append(x("relative", settle(1e-200), 1e-200))                                         # tol*|M| underflows
    out.append(x("relative", settle(-1e-200), FMIN))
    out.append(x("relative", halving(1e-170), 0.6))                                           # squares underflow: stop at 2
    out.append(x("relative", halving(1e-170), 0.4))                                           # never
    out.append(x("relative", halving(1e170), 0.6))                                            # squares overflow: stop at 2
    out.append(x("relative", flip(1e-300), 1.9))                                              # negative tiny denominators: stop at 5
    out.append(x("relative", flip(-1e300), 1.9))
    out.append(x("relative", [4 * DEN, 3 * DEN, 2 * DEN, DEN, DEN], 0.2))                     # denormals: 1/4, 1/3, 1/2, 0
    out.append(x("relative", [1e-300, 1.0, 1e300, 1.0, 1e-300, 1e-300], FMAX, p=1))           # ratios up to 1e300 below max double
    # absolute
    for tol in (DEN, 1e-200):
        out.append(x("absolute", settle(1.0), tol))                                           # tol*tol underflows
    out.append(x("absolute", halving(1e200), 1.5e200))                                        # squares overflow: stop at 4
    out.append(x("absolute", halving(1e-200), 1.5e-200))                                      # squares underflow: stop at 4
    out.append(x("absolute", [1e308, -1e308, 1e308, -1e308, 5e307, -5e307, -5e307], FMAX))    # |dM| = inf is not below max double; 1.5e308 is
    out.append(x("absolute", flip(1e308), float("inf")))                                      # exact-vs-IEEE, nothing demanded
    return out


def specs(ctx):
    rng = ctx.rng
    out = []
    n = 1400 if ctx.thorough else 300
    for i in range(n):
        evk = "metric" if rng.random() < 0.5 else "observable"
        crit = CRITS[int(rng.integers(3))] if evk == "observable" else CRITS[int(rng.integers(2))]
        pat = PATTERNS[i % len(PATTERNS)]
        pe, ps = int(rng.integers(1, 5)), int(rng.integers(1, 5))
        if rng.random() < 0.4:
            ps = pe
        p = 1 + (i % 5)
        start1 = [1, 1, 1, 1, 1, 1, 0, 0, 2, 3][int(rng.integers(10))]
        end1 = start1 + int(rng.integers(3, 24))
        fits = [(start1, end1)]
        nxt = rng.random()
        for _ in range(2 if nxt < 0.15 else (1 if nxt < 0.55 else 0)):     # later runs on the same evaluator / stopper objects
            prev_end = fits[-1][1]
            kind2 = ["continue", "restart1", "restart1", "restart0", "overlap", "gap"][int(rng.integers(6))]
            st2 = {"continue": prev_end + 1, "restart1": 1, "restart0": 0, "overlap": int(rng.integers(0, prev_end + 1)),
                   "gap": prev_end + int(rng.integers(2, 5))}[kind2]
            fits.append((st2, st2 + int(rng.integers(0, 13))))
        variances = [float(v) for v in np.round(rng.uniform(0.05, 3, size=7), 2)]
        if rng.random() < 0.2:
            variances[int(rng.integers(7))] = 0.0
        vtype = ["float", "int", "np.float64", "np.int64"][int(rng.integers(4))]
        values = pattern(rng, pat)
        if vtype in ("int", "np.int64"):
            values = [float(round(4 * v)) for v in values]
        if rng.random() < 0.25 and vtype in ("float", "np.float64"):      # exact zeros in the float streams of every pattern
            for j in range(len(values)):
                if rng.random() < 0.3:
                    values[j] = 0.0
        d = ({"ev": evk, "order": "ev_first" if rng.random() < 0.6 else "st_first", "pe": pe, "ps": ps, "patience": p,
                    "ptype": ["int", "int", "np.int64", "float"][int(rng.integers(4))], "vtype": vtype,
                    "crit": spell(rng, crit) if rng.random() < 0.15 else crit, "tol": TOLS[int(rng.integers(len(TOLS)))], "values": values,
                    "variances": variances, "fits": fits, "pattern": pat, "esform": int(rng.integers(4)),
                    "omit_default_start": bool(rng.random() < 0.5), "verbose": bool(rng.random() < 0.15),
                    "state": ["positive", "positive", "complex", "dm"][int(rng.integers(4))] if ctx.thorough or i % 7 == 0 else "positive",
                    "tseed": int(rng.integers(1 << 30))})
        options(rng, d, i)
        out.append(d)
    # the input of the repaired defect: patience 1, values 5,3,1,1,...; absolute; tol 0.05
    fixed = [{"ev": "metric", "order": "ev_first", "pe": 1, "ps": 1, "patience": 1, "crit": "absolute", "tol": 0.05, "vtype": "float",
              "values": [5.0, 3.0, 1.0, 1.0, 1.0, 1.0], "variances": [1.0], "fits": [(1, 6)], "pattern": "defect-input-lookback",
              "state": "positive", "tseed": 5}]
    # runs on the same objects whose epoch numbers do not increase: a second fit with the default starting_epoch must be
    # checked (and here: stopped at its epoch 2); a run starting at epoch 0 is checked at epoch 0 (here: stopped there)
    for order in ("ev_first", "st_first"):
        fixed.append({"ev": "metric", "order": order, "pe": 1, "ps": 1, "patience": 1, "crit": "absolute", "tol": 0.05, "vtype": "float",
                      "values": [5.0, 3.0, 2.0, 1.5, 1.0, 1.0, 1.0, 1.0, 1.0, 1.0, 1.0, 1.0, 1.0], "variances": [1.0], "fits": [(1, 4), (1, 8)],
                      "omit_default_start": order == "ev_first", "pattern": "restart-at-1", "state": "positive", "tseed": 21})
        fixed.append({"ev": "observable", "order": order, "pe": 1, "ps": 1, "patience": 2, "crit": "variance", "tol": 0.3, "vtype": "np.float64",
                      "values": [1.5], "variances": [1.0], "fits": [(1, 2), (0, 5)], "pattern": "restart-at-0", "state": "positive", "tseed": 22})
        fixed.append({"ev": "metric", "order": order, "pe": 2, "ps": 2, "patience": 1, "crit": "relative", "tol": 0.3, "vtype": "int", "esform": 3,
                      "values": [4.0], "variances": [1.0], "fits": [(0, 6), (0, 3), (2, 4)], "pattern": "restart-at-0", "state": "positive", "tseed": 23})
    # the inputs of the repaired division defect: an earlier value of exactly zero under `relative`, in every numeric type
    for vt in ("float", "int", "np.float64", "np.int64"):
        for order in ("ev_first", "st_first"):
            fixed.append({"ev": "metric", "order": order, "pe": 1, "ps": 1, "patience": 1, "crit": "relative", "tol": 0.05, "vtype": vt,
                          "values": [3.0, 0.0, 0.0, 0.0, 1.0, 1.0, 1.0], "variances": [1.0], "fits": [(1, 7)],
                          "pattern": "defect-input-zero", "state": "positive", "tseed": 6})
        fixed.append({"ev": "observable", "order": "ev_first", "pe": 1, "ps": 1, "patience": 2, "crit": "relative", "tol": 0.3, "vtype": vt,
                      "values": [2.0, 0.0, 0.0, 0.0, 0.0, 1.0, 1.0, 1.0], "variances": [1.0, 0.0], "fits": [(1, 8)],
                      "pattern": "defect-input-zero", "state": "positive", "tseed": 7})
        fixed.append({"ev": "observable", "order": "st_first", "pe": 1, "ps": 1, "patience": 1, "crit": "variance", "tol": 2.0, "vtype": vt,
                      "values": [2.0, 2.0, 1.0, 1.0, 1.0, 1.0], "variances": [0.0, 0.0, 1.0], "fits": [(1, 6)],
                      "pattern": "defect-input-zero", "state": "positive", "tseed": 8})
    # EXTREME regime: fixed sessions first, one random extreme session after every three ordinary ones
    nx = n // 3
    xs = [extreme_spec(rng, i) for i in range(nx)]
    mixed = []
    for i, sp_ in enumerate(out):
        mixed.append(sp_)
        if i % 3 == 2 and i // 3 < nx:
            mixed.append(xs[i // 3])
    head = extreme_fixed() + history_fixed() + fixed
    N_FIXED[0] = len(head)          # the fixed sessions are never cut by the time budget
    return head + mixed


MIN_SESSIONS = 60
N_FIXED = [0]


def run(ctx):
    t0 = time.time()
    budget = 400 if ctx.thorough else 45
    constructor_table(ctx)
    sp = specs(ctx)
    # the deprecated class behaves as EarlyStopping(criterion="variance"): identical sessions, one with each class (run first)
    k = 0
    # a pair on which the variance (4.0 -> sigma 2) and the standard error (1.0) of the earlier evaluation decide differently
    pair_first = [{"ev": "observable", "order": order, "pe": 1, "ps": 1, "patience": 1, "crit": "variance", "tol": 1.0, "vtype": "float",
                   "values": [6.0, 4.5, 3.0, 1.5, 0.0, -1.5, -3.0, -4.5], "variances": [4.0], "fits": [(1, 6)], "pattern": "variance-vs-std_error",
                   "state": "positive", "tseed": 24} for order in ("ev_first", "st_first")]
    # ... and the deprecated class in the EXTREME regime (tiny tolerances, huge / tiny values): the first variance sessions of the fixed list
    xpairs = [s_ for s_ in sp if s_.get("regime") == "extreme" and s_["crit"] == "variance"][:14 if ctx.thorough else 6:2]
    kmax = (60 if ctx.thorough else 14) + len(pair_first) * 0 + len(xpairs)
    for spec in pair_first + xpairs + [s_ for s_ in sp if s_.get("regime") != "extreme" and s_.get("pattern") not in HISTORY_PATTERNS]:
        if spec["ev"] == "observable" and spec["pattern"] != "defect-input-zero" and k < kmax:
            vn = VNAMES[(k + 1) % len(VNAMES)]         # k = 0: keyword "std_error", k = 1: positional "anything", ...
            k += 1
            a = session(ctx, json.loads(json.dumps(dict(spec, crit="variance"))))
            b = session(ctx, json.loads(json.dumps(dict(spec, crit="variance", deprecated=True, vname=vn))))
            ctx.require("VarianceBasedEarlyStopping run == EarlyStopping(criterion='variance') run (variance_name is ignored)",
                        a == b and a is not None,
                        {"session": "deprecated-vs-variance", "spec": dict(spec, crit="variance", deprecated=True, vname=vn)},
                        {"variance": a, "deprecated": b})
    ctx.count("deprecated_pairs_executed", k)
    done = skipped = 0
    for spec in sp:
        if time.time() - t0 > budget and done >= max(MIN_SESSIONS, N_FIXED[0]):
            skipped += 1
            continue
        session(ctx, json.loads(json.dumps(spec)))
        done += 1
    ctx.count("sessions_executed", done)
    if skipped:
        ctx.count("skipped_time_budget", skipped)
        ctx.extra["skipped_by_time_budget"] = skipped
        note = "time budget reached: %d of %d generated sessions skipped (the generator mixes all kinds uniformly; fixed inputs run first)" % (skipped, len(sp))
        if note not in ASSUMPTIONS:
            ASSUMPTIONS.append(note)
    if done == 0 or k == 0:
        ctx.disagreements.append({"what": "coverage: no early-stopping session / no deprecated-class pair was executed", "case": {}, "detail": ""})


def search(ctx, broken, budget):
    t0 = time.time()
    n0 = len(ctx.failures)
    was = ctx.thorough
    ctx.thorough = True
    try:
        for spec in specs(ctx):
            session(ctx, json.loads(json.dumps(spec)))
            if len(ctx.failures) > n0:
                return ctx.failures[n0]
            if time.time() - t0 > budget:
                return None
    finally:
        ctx.thorough = was
    return None


def replay(ctx, rec):
    case = rec.get("failing", {}).get("case", {})
    spec = case.get("spec")
    if case.get("session") == "constructor" or not spec:
        print("replay: constructor table")
        return constructor_table(ctx)
    print("replay of an early-stopping session:", json.dumps({k: v for k, v in spec.items() if k not in ("values", "variances")})[:300])
    session(ctx, spec)
