"""C17 — periodic callbacks (MetricEvaluator, ObservableEvaluator(+ObservableStatistics), ModelSaver, Logger)
fire on schedule and their records match what happened.

Every case is a *session*: one real neural state, one set of callbacks, a sequence of real `fit` runs
(possibly cut short by a scripted stop request) and `clear_history` calls.  Next to every callback under
test an independent recording callback (Probe) sits in the same callback list; it records every EpochEnd
epoch, a snapshot of the parameters, and the value every metric / observable evaluates to at that moment
(for observables: System.statistics under the saved torch RNG state, which is restored afterwards, so the
evaluator draws the very same samples).
  * oracle (independent of the code under test and of the model): recorded epochs = the probe's epochs
    that are multiples of the period, in order; len / epochs / per-name arrays / last / get_value for every
    index in [-n-2, n+1] and None / CSV file parsed back / ObservableStatistics plural aliases / saver file
    names, write order, loaded parameters and metadata / logger calls — all against the probe's record;
  * correspondence: the same observables against the extracted Coq model (Callbacks.ev_run, ev_get_value,
    os_get, obs_csv_body, sv_fit, store_get, lg_run, cbs_run, ev_run_stream) fed with the probe's record.
Not demanded (histogram keys "info:..." only): what happens for invalid indices, untracked metric / statistic names
(which exception class, or the empty array before anything is recorded), extra keys in saved files, how often a metadata
callable is invoked.  Loggers are exercised in three forms (scripted msg_gen + logger_fn, Logger(period) printing the default
text, default msg_gen with a custom logger_fn); for the default text only the number of lines and the first integer of each
line (the epoch) are looked at.  Every metric session also carries a LambdaCallback() with no hooks and one with only some
hooks.  Session kinds are interleaved and at least MIN_PER_KIND sessions of every kind run before the time budget may skip
anything; skipped counts go to the evidence (histogram + assumptions).

Same-object HISTORIES (seed round 3): a session's op list may also hold, between two runs, every legal change the library
offers or tolerates — `clear_history()`, in-place edits of the arrays / lists the accessors RETURNED earlier ("scribble"), reads from a user callback WHILE a run goes on ("inrun"),
`reinitialize_parameters()`, rebinding a parameter, `load_state_dict`, `copy_` under no_grad, replacing a network through
its setter, training a different state object with the same callbacks — and every op carries a READ MODE saying which
accessors are looked at after it (all / arrays first / only the arrays / everything but the arrays / nothing), so that a lazily
built cache, memo or stored handle inside a callback is left alone while the records change under it and is then read at
the same length / same epochs / a longer / a shorter history.  The oracle after every op is the same probe record as for a
fresh evaluator.  A set of fixed histories runs first (never cut by the time budget), a random stream of histories follows.

Red-team round 2 (FIXED_RT2 first, then the random stream): integer arguments in numpy encodings (periods of all four callbacks,
every valid index of get_value); names of metrics / observables that coincide with attributes of the evaluator objects, read through
evaluator[name] (attribute access for such names is info-only); clear_history() called by a user callback while a run goes on
(expected record = the probe's events after the clearing, the CSV log keeps everything); the dict handed out as `last` among the
objects a "scribble" op edits (top level only; `last` itself is then the caller's until the next evaluation); ModelSaver with a
relative folder_path while the process changes its working directory (before the fit / inside a callback): the files belong in
the folder the saver created at construction.
"""
import os, csv, json, math, itertools, time
import numpy as np

RULE = ("sessions = (state kind in positive/complex/density-matrix, tiny sizes; period 1..5; a sequence of fit runs "
        "(starting_epoch 0..5, epochs <= 8, optionally cut short by a stop request raised at an epoch end or inside "
        "a batch) and clear_history calls); callbacks: MetricEvaluator (scripted + parameter-reading + real NLL metric, "
        "metric kwargs, CSV log), ObservableEvaluator (SigmaZ + scripted stub observable, CSV log), several evaluators "
        "with different periods in one list, ModelSaver (callable/dict/None metadata, metadata_only, save_initial), "
        "Logger; quick: covering subset, thorough: all periods x all (start, end) ranges x stop variants; "
        "histories on the same callbacks: runs separated by clear_history / in-place edits of the arrays returned earlier / "
        "reinitialize_parameters, parameter rebinding, load_state_dict, copy_, network replacement, another state object, with the "
        "accessors read only at some steps (all / arrays first / arrays only / all but arrays / none) and the next run reaching the "
        "same, a larger or a smaller number of evaluations (fixed histories first, then a random stream); "
        "red-team round 2: periods of every callback and every valid get_value index also as numpy integers (int64 / int32 / int16 / uint8 / intp / "
        "an element of an integer array); metrics / observables whose NAME is also an attribute, property or method of the evaluator object "
        "(log, last, period, epochs, names, metrics, past_values, get_value, ...) read through the documented subscript alias; "
        "clear_history() called by a user callback DURING a run (at the start / at the end of an epoch; also with the accessors read in-run); "
        "the dict handed out as `last` edited by the caller (top level) among the scribbled objects; ModelSaver given a RELATIVE folder "
        "(str / ./str / Path) with the working directory changed before the fit or by a callback at an epoch start; "
        "a session is non-trivial when at least one epoch fires and (period > 1 => at least one epoch does not)")
ASSUMPTIONS = ["torch.save/torch.load round-trip tensors and plain Python metadata exactly (C11 covers save/load itself)",
               "System.statistics is deterministic given the torch RNG state (used to learn the values an observable evaluates to)",
               "for a metric / observable whose name is also an attribute of the evaluator object only the subscript form evaluator[name] is demanded "
               "(attribute access finds the object's own attribute first: Python semantics; histogram 'info:getattr(evaluator, name) ...')",
               "the INNER statistics dicts reachable through ObservableEvaluator.last[name] / get_value(name) are the recorded objects themselves on the "
               "unchanged tree (only the top level of `last` is a copy) and the statement does not promise copies: the caller's edits are generated for "
               "the top level of `last` only (both evaluators), and `last` is not looked at between such an edit and the next evaluation / clearing",
               "OUT of scope: a statistic name that is also an attribute of ObservableStatistics ('data') — the statistics an evaluator exposes are the four "
               "fixed by System.statistics (mean, variance, std_error, num_samples), none of which is an attribute of that class",
               "OUT of scope: a metric named 'epoch' together with a CSV log (the name of the first CSV column; the statement fixes no rule for that clash)",
               "indices / periods given as floats are not generated (documented type: int; a float index is refused by list indexing on the "
               "unchanged tree, a float period happens to pass through `epoch % period` there but nothing is demanded of it)"]

ERR = {IndexError: 0, KeyError: 1, AttributeError: 2, TypeError: 3, ValueError: 4}
DATA = np.array([[0, 1], [1, 1], [0, 0], [1, 0], [1, 1], [0, 1]], dtype=float)
BASES = np.array([["Z", "Z"], ["X", "Z"], ["Z", "Y"], ["Z", "Z"], ["Y", "X"], ["Z", "Z"]])

_CL = {}


def codes(s):
    return [ord(c) for c in s]


def res(fn, conv=lambda x: x):
    """[0, value] or [1, code of the exception class] (9 = any other class); never re-raises"""
    try:
        return [0, conv(fn())]
    except Exception as e:
        for k, c in ERR.items():
            if type(e) is k:
                return [1, c]
        for k, c in ERR.items():
            if isinstance(e, k):
                return [1, c]
        return [1, 9]


def info(ctx, key, ok):
    """behaviour the property does not constrain (exception classes, invalid indices, untracked names):
    recorded in the evidence histogram, never an alarm"""
    ctx.count("info:%s:%s" % (key, "as-model" if ok else "differs"))


def subdict(a, b):
    return isinstance(b, dict) and all(k in b and b[k] == v for k, v in a.items())


LAST_OUT = [""]

# which accessors are read after an op of a session (the probe record is the oracle in every mode)
READ_MODES = ("all", "arrays-first", "arrays", "scalars", "none")     # + "inrun": read from a callback while the run goes on
STATE_OPS = ("reinit", "rebind", "reload", "copy_", "swapnet", "swap")


def scribble(ctx, held):
    """in-place edit of everything the accessors returned earlier (arrays of recorded values / epochs, name lists, the dict
    handed out as `last`: every TOP-LEVEL entry replaced and a key added — the inner statistics dicts of an
    ObservableEvaluator are left alone, see ASSUMPTIONS); read-only arrays are left alone (returning one is legitimate).
    Returns the number of dicts edited (the caller then knows that `last` holds the caller's edits until the next evaluation)."""
    k = nd = 0
    for a in held:
        try:
            if isinstance(a, np.ndarray):
                if a.size and a.flags.writeable:
                    a[...] = -777
                    k += 1
            elif isinstance(a, list):
                a.append("scribbled")
                k += 1
            elif isinstance(a, dict):
                for key in list(a):
                    a[key] = {"mean": -777.0, "variance": -777.0, "std_error": -777.0, "num_samples": -777} if isinstance(a[key], dict) else -777.0
                a["scribbled"] = 1
                nd += 1
        except Exception:
            pass
    del held[:]
    ctx.count("history:arrays scribbled", k)
    ctx.count("history:`last` dicts scribbled", nd)
    return nd


# encodings of integer arguments (periods, indices of get_value): the documented type is int; numpy integers are what numpy code
# hands over (np.argmin(ev["q"]), np.arange(n)[i], len-like results of reductions)
PTYPES = ("int", "np.int64", "np.int32", "np.int16", "np.uint8", "np.intp")


def as_ptype(p, ptype):
    if not ptype or ptype == "int":
        return int(p)
    return getattr(np, ptype.split(".", 1)[1])(p)


_IDX_ROT = [0]


def index_encodings(i, n):
    """a valid index of get_value as a Python int and in one numpy integer encoding (rotating over the encodings)"""
    _IDX_ROT[0] += 1
    r = _IDX_ROT[0] % 6
    if r == 0:
        return [i, np.int64(i)]
    if r == 1:
        return [i, np.int32(i)]
    if r == 2:
        return [i, np.arange(-n - 1, n + 1)[i + n + 1]]          # an element of an integer array
    if r == 3:
        return [i, np.intp(i)]
    if r == 4:
        return [i, np.int8(i) if -128 <= i < 128 else np.int16(i)]
    return [i, np.uint8(i) if 0 <= i < 256 else np.int64(i)]


def colliding(obj, name):
    """the name of a metric / observable that is ALSO an attribute of the evaluator object (instance attribute, property or
    method): attribute access finds the attribute first (Python semantics), the documented subscript alias must still
    give the recorded values"""
    try:
        return name in vars(obj) or hasattr(type(obj), name)
    except Exception:
        return False


def mutate_state(s, spec, op, k):
    """a legal change of the state being trained between two runs; returns the state to train from now on"""
    import copy
    import torch
    torch.manual_seed(spec["tseed"] + 101 + k)
    if op == "reinit":
        s.reinitialize_parameters()
    elif op == "swap":                       # the same callbacks go on with a different state object
        s, _ = make_state(dict(spec, tseed=spec["tseed"] + 1 + k))
    elif op == "swapnet":                    # a whole network replaced through the setter
        new = copy.deepcopy(s.rbm_am)
        with torch.no_grad():
            for par in new.parameters():
                par.add_(0.3 * torch.randn_like(par))
        s.rbm_am = new
    else:
        for netname in s.networks:
            net = getattr(s, netname)
            if op == "rebind":
                for name, par in list(net.named_parameters()):
                    setattr(net, name, torch.nn.Parameter(par.detach().clone() * 0.5 + 0.25, requires_grad=par.requires_grad))
            elif op == "reload":
                net.load_state_dict({key: v.detach().clone() * 0.5 - 0.1 for key, v in net.state_dict().items()})
            elif op == "copy_":
                with torch.no_grad():
                    for par in net.parameters():
                        par.copy_(par * 0.7 + 0.05)
    return s


def canon(x):
    """nested lists of numbers -> nested lists of floats, nan -> 'nan' (so == works)"""
    if isinstance(x, (list, tuple)):
        return [canon(y) for y in x]
    if x is None or isinstance(x, str):
        return x
    if hasattr(x, "tolist") and not isinstance(x, (float, int)):
        return canon(x.tolist())
    x = float(x)
    return "nan" if math.isnan(x) else x


def same_vals(a, b):
    try:
        return canon(a) == canon(b)
    except Exception:           # not numbers at all (e.g. an accessor handed out some other object)
        return False


def show(x):
    """canon for the detail of a failure record: never raises"""
    try:
        return canon(x)
    except Exception:
        return repr(x)[:120]


def parse_cell(x):
    """a CSV cell: '' -> None (empty cell), a number -> float, anything else -> the string"""
    if x == "":
        return None
    try:
        return float(x)
    except ValueError:
        return x


def parse_body(rows):
    return [[parse_cell(r[0]) if r else None] + [parse_cell(x) for x in r[1:]] for r in rows]


def cell_enc(x):
    return [] if x is None else [x]


def classes():
    """callback classes of the harness (defined lazily: qucumber is importable only inside run)"""
    if _CL:
        return _CL
    import torch
    from qucumber.callbacks import CallbackBase
    from qucumber.observables import ObservableBase, System

    def snapshot(s):
        return {net: {k: v.detach().clone() for k, v in getattr(s, net).state_dict().items()} for net in s.networks}

    class Clock(CallbackBase):
        """counts epochs of the whole session; scripted metrics are functions of this counter"""
        def __init__(self):
            self.t = -1

        def on_epoch_start(self, s, epoch):
            self.t += 1

    class Probe(CallbackBase):
        """independent record: EpochEnd epochs, parameter snapshots, would-be values"""
        def __init__(self, wouldbe=None):
            self.wouldbe = wouldbe
            self.events = []        # dicts: epoch, sid, values
            self.snaps = []         # parameter snapshots; sid = index
            self.starts = []        # sid of every train start

        def on_train_start(self, s):
            self.snaps.append(snapshot(s))
            self.starts.append(len(self.snaps) - 1)

        def on_epoch_end(self, s, epoch):
            self.snaps.append(snapshot(s))
            v = self.wouldbe(s) if self.wouldbe is not None else None
            self.events.append({"epoch": int(epoch), "sid": len(self.snaps) - 1, "values": v})

    class StopAt(CallbackBase):
        def __init__(self, epoch, where):
            self.epoch, self.where = epoch, where

        def on_epoch_end(self, s, epoch):
            if self.where == "epoch" and epoch == self.epoch:
                s.stop_training = True

        def on_batch_end(self, s, epoch, batch):
            if self.where == "batch" and epoch == self.epoch and batch == 0:
                s.stop_training = True

    class DirProbe(CallbackBase):
        """lists a directory (name -> (mtime_ns, content hash)) at train start and at every epoch end"""
        def __init__(self, folder, saves=None):
            self.folder = folder
            self.prev = self.listing()
            self.writes = []        # file names in the order they were (re)written
            self.saves = saves if saves is not None else []     # paths handed to torch.save (recorded by the harness)
            self.k = 0

        def listing(self):
            import hashlib
            out = {}
            for f in sorted(os.listdir(self.folder)):
                path = os.path.join(self.folder, f)
                with open(path, "rb") as fh:
                    out[f] = (os.stat(path).st_mtime_ns, hashlib.sha1(fh.read()).hexdigest())
            return out

        def note(self):
            now = self.listing()
            new = []
            for path in self.saves[self.k:]:
                if isinstance(path, (str, os.PathLike)) and os.path.dirname(os.path.realpath(path)) == os.path.realpath(self.folder):
                    new.append(os.path.basename(path))
            self.k = len(self.saves)
            for f in sorted(now):       # fallback: anything that changed on disk by another route
                if (f not in self.prev or self.prev[f] != now[f]) and f not in new:
                    new.append(f)
            self.writes += new
            self.prev = now

        def on_train_start(self, s):
            self.note()

        def on_epoch_end(self, s, epoch):
            self.note()

    class StubObs(ObservableBase):
        """observable whose statistics are scripted (a function of the session clock)"""
        def __init__(self, name, clock, script, conv=None, vconv=None):
            self.name = name
            self.symbol = name
            self.clock, self.script = clock, script
            self.conv = conv or np.float64          # numeric type of the scripted mean / variance
            self.vconv = vconv or np.float64

        def apply(self, nn_state, samples):
            return torch.zeros(samples.shape[0], dtype=torch.double)

        def statistics_from_samples(self, nn_state, samples):
            m, v = self.script[self.clock.t % len(self.script)]
            n = len(samples)
            return {"mean": self.conv(m), "variance": self.vconv(v), "std_error": np.sqrt(np.float64(v) / n), "num_samples": n}

    def obs_wouldbe(observables, kwargs):
        def f(s):
            st = torch.get_rng_state()
            out = System(*observables).statistics(s, **kwargs)
            torch.set_rng_state(st)
            return out
        return f

    _CL.update(Clock=Clock, Probe=Probe, StopAt=StopAt, DirProbe=DirProbe, StubObs=StubObs,
               obs_wouldbe=obs_wouldbe, snapshot=snapshot)
    return _CL


def make_state(spec):
    import torch
    from qucumber.nn_states import PositiveWaveFunction, ComplexWaveFunction, DensityMatrix
    torch.manual_seed(spec["tseed"])
    k = spec["state"]
    if k == "positive":
        return PositiveWaveFunction(2, spec.get("nh", 2), gpu=False), {}
    if k == "complex":
        return ComplexWaveFunction(2, spec.get("nh", 2), gpu=False), {"input_bases": BASES}
    return DensityMatrix(2, spec.get("nh", 2), 2, gpu=False), {"input_bases": BASES}


def do_fit(ctx, what, case, s, extra, start, end, callbacks, stop):
    C = classes()
    cbs = list(callbacks)
    if stop is not None:
        cbs.append(C["StopAt"](stop[0], stop[1]))
    s.stop_training = False
    import io, contextlib
    buf = io.StringIO()
    with contextlib.redirect_stdout(buf):
        ok, _ = ctx.call(what, case, lambda: s.fit(DATA, epochs=end, pos_batch_size=3, neg_batch_size=3, k=1, lr=0.1,
                                                    starting_epoch=start, callbacks=cbs, **extra))
    LAST_OUT[0] = buf.getvalue()
    s.stop_training = False
    return ok


def first_w(snap):
    net = sorted(snap)[0]
    key = sorted(snap[net])[0]
    return float(snap[net][key].flatten()[0])


class HistBase:
    """which probe events make up an evaluator's history: everything recorded after the latest clear_history(), whether that
    was called between two runs or by a user callback while a run goes on; and whether the dict handed out as `last` still
    holds the caller's own edits (until the next evaluation or clearing replaces it)"""

    def __init__(self, probe, period):
        self.probe, self.p = probe, period
        self.fixed = 0              # index of the first probe event after the latest clearing (between runs)
        self.pending = None         # (index of the run's first event, epoch, "start" | "end") of an in-run clearing
        self.dirty = None           # index of the first probe event after the caller edited `last`

    def cleared_now(self):
        self.fixed, self.pending, self.dirty = len(self.probe.events), None, None

    def cleared_in_run(self, n0, epoch, where):
        self.pending, self.dirty = (n0, epoch, where), None

    def base(self):
        if self.pending is None:
            return self.fixed
        n0, e, where = self.pending
        for i in range(n0, len(self.probe.events)):
            ep = self.probe.events[i]["epoch"]
            if ep > e or (ep == e and where == "start"):
                return i
        return len(self.probe.events)

    def last_scribbled(self):
        self.dirty = len(self.probe.events)

    def last_dirty(self):
        return self.dirty is not None and not any(ev["epoch"] % self.p == 0 for ev in self.probe.events[self.dirty:])


def inrun_clearer(evaluator, hb, n0, inclear, where):
    """a user callback that drops the evaluations made so far WHILE the run goes on: at the START of epoch e (placed before the
    evaluator: the evaluation of epoch e is kept) or at the END of epoch e (placed after it: that evaluation is dropped too)"""
    from qucumber.callbacks import LambdaCallback
    e, when = int(inclear[0]), inclear[1]

    def at_start(st, epoch):
        if epoch == e and when == "start":
            evaluator.clear_history()
            hb.cleared_in_run(n0, e, "start")

    def at_end(st, epoch):
        if epoch == e and when == "end":
            evaluator.clear_history()
            hb.cleared_in_run(n0, e, "end")
    if where == "before":
        return LambdaCallback(on_epoch_start=at_start)
    return LambdaCallback(on_epoch_end=at_end)


def split_at_clear(evs, inclear):
    """probe events of one run -> [events before the in-run clearing, events after it] (one part if there was none or the run
    was cut short before the clearing epoch)"""
    if not inclear:
        return [evs]
    e, when = int(inclear[0]), inclear[1]
    if not any(ev["epoch"] >= e for ev in evs):
        return [evs]
    before = [ev for ev in evs if ev["epoch"] < e or (ev["epoch"] == e and when == "end")]
    return [before, evs[len(before):]]


# ------------------------------------------------------------------ MetricEvaluator sessions
def metric_session(ctx, spec):
    import torch
    from qucumber.callbacks import MetricEvaluator
    import qucumber.utils.training_statistics as ts
    C = classes()
    case = {"session": "metric", "spec": spec}
    s, extra = make_state(spec)
    p = spec["period"]
    clock = C["Clock"]()
    script = spec["script"]
    space = s.generate_hilbert_space()
    seen_kwargs = []

    def m_script(state, **kw):
        seen_kwargs.append(sorted(kw))
        return np.float64(script[clock.t % len(script)])

    def m_w(state, **kw):
        return float(list(getattr(state, state.networks[0]).parameters())[0].flatten()[0])
    metrics = {"scr": m_script, "w0": m_w}
    if spec["state"] == "positive" and spec.get("real_metric", True):
        zdata = torch.tensor(DATA, dtype=torch.double)
        metrics["nll"] = lambda state, **kw: ts.NLL(state, zdata, kw["space"])
    # metrics whose NAME is also the name of an attribute of the evaluator object ("log" for a log-likelihood, "last", "period", ...)
    for j, nm in enumerate(spec.get("extra_names") or []):
        metrics[nm] = (lambda j: (lambda state, **kw: np.float64(script[(clock.t + 1 + j) % len(script)] + 1.0 + j)))(j)
        ctx.count("metric name that is also an attribute of the evaluator:" + nm)
    names = list(metrics)
    logf = os.path.join(ctx.scratch, "mlog_%d.csv" % ctx.evaluations) if spec.get("log", True) else None
    if logf and os.path.exists(logf):
        os.remove(logf)
    verbose = bool(spec.get("verbose", False))
    pgiven = as_ptype(p, spec.get("ptype"))
    ctx.count("period given as:" + (spec.get("ptype") or "int"))
    form = spec.get("form", 0)      # how the optional arguments are passed
    if form == 1:
        mk = lambda: MetricEvaluator(pgiven, metrics, verbose, logf, space=space)
    elif form == 2 and not verbose and logf is None:
        mk = lambda: MetricEvaluator(pgiven, metrics, space=space)
    else:
        mk = lambda: MetricEvaluator(period=pgiven, metrics=metrics, verbose=verbose, log=logf, space=space)
    ok, me = ctx.call("MetricEvaluator construction", case, mk)
    if not ok:
        return
    ctx.count("evaluator_options:verbose=%s,log=%s" % (verbose, logf is not None))
    probe = C["Probe"](lambda st: {n: f(st, space=space) for n, f in metrics.items()})
    cbs = [clock, probe, me] if spec.get("probe_before", True) else [clock, me, probe]
    # LambdaCallback with all hooks left at their defaults, and with only some hooks given (documented use)
    from qucumber.callbacks import LambdaCallback
    lam_seen = []
    variant = spec["tseed"] % 3
    lam = [LambdaCallback(on_epoch_end=lambda st, e: lam_seen.append(("ee", int(e)))),
           LambdaCallback(on_train_start=lambda st: lam_seen.append(("ts",)), on_batch_end=lambda st, e, b: None,
                          on_epoch_end=lambda st, e: lam_seen.append(("ee", int(e)))),
           LambdaCallback(on_epoch_start=lambda st, e: None, on_epoch_end=lambda st, e: lam_seen.append(("ee", int(e))),
                          on_train_end=lambda st: lam_seen.append(("te",)))][variant]
    cbs = cbs + [LambdaCallback(), lam]
    ctx.count("lambda_callback_variant:%d" % variant)
    hb = HistBase(probe, p)     # which probe events make up the evaluator's history (moves at every clear_history)
    held_inrun = []
    if spec.get("inrun"):       # a user callback after the evaluator reads its accessors while the run goes on
        def inrun_read(st, epoch):
            want = [(ev["epoch"], ev["values"]) for ev in probe.events[hb.base():] if ev["epoch"] % p == 0]
            check_metric_state(ctx, case, me, names, p, want, None, None, logf, "inrun", held_inrun, skip_last=hb.last_dirty())
            del held_inrun[:]
        cbs = cbs + [LambdaCallback(on_epoch_end=inrun_read)]
        ctx.count("history:accessors read during the runs")
    exp_past, exp_log, mops = [], [], []
    fired_any = skipped_any = False
    reads = spec.get("reads") or ["all"] * len(spec["ops"])
    held = []                   # arrays / lists / dicts the accessors returned so far (edited in place by a "scribble" op)
    for k, (op, mode) in enumerate(zip(spec["ops"], reads)):
        ctx.count("history:op=%s,read=%s" % (op[0], mode))
        if op[0] == "clear":
            me.clear_history()
            exp_past = []
            hb.cleared_now()
            mops.append([0])
        elif op[0] == "scribble":
            if scribble(ctx, held):
                hb.last_scribbled()
        elif op[0] in STATE_OPS:
            ok, s = ctx.call("legal change of the trained state between runs (%s)" % op[0], case, mutate_state, s, spec, op[0], k)
            if not ok:
                return
        else:
            start, end, stop = op[1:4]
            inclear = op[4] if len(op) > 4 else None      # [epoch, "start" | "end"]: clear_history() called by a user callback DURING this run
            n0 = len(probe.events)
            run_cbs = cbs
            if inclear:
                i_me = cbs.index(me)
                run_cbs = cbs[:i_me] + [inrun_clearer(me, hb, n0, inclear, where="before")] + [me] + \
                    [inrun_clearer(me, hb, n0, inclear, where="after")] + cbs[i_me + 1:]
                ctx.count("history:clear_history called by a callback during a run (%s of an epoch)" % inclear[1])
            if not do_fit(ctx, "fit with MetricEvaluator and LambdaCallbacks with default hooks", case, s, extra, start, end, run_cbs, stop):
                return
            evs = probe.events[n0:]
            ctx.require("a LambdaCallback given only some hooks sees every EpochEnd of the run",
                        [x[1] for x in lam_seen if x[0] == "ee"] == [ev["epoch"] for ev in probe.events], case,
                        {"seen": lam_seen[-12:], "epochs": [ev["epoch"] for ev in probe.events][-12:]})
            parts = split_at_clear(evs, inclear)
            for pi, part in enumerate(parts):
                if pi:                                      # the clearing happened between the two parts of this run
                    exp_past = []
                    mops.append([0])
                for ev in part:
                    if ev["epoch"] % p == 0:
                        exp_past.append((ev["epoch"], ev["values"]))
                        exp_log.append((ev["epoch"], ev["values"]))
                        fired_any = True
                    else:
                        skipped_any = True
                mops.append([1, [[ev["epoch"], [ev["values"][n] for n in names]] for ev in part]])
            ctx.traces += 1
        check_metric_state(ctx, case, me, names, p, exp_past, exp_log, mops, logf, mode, held, skip_last=hb.last_dirty())
    if reads[-1] != "all":      # whatever was left unread is read at the end
        check_metric_state(ctx, case, me, names, p, exp_past, exp_log, mops, logf, "all", held, skip_last=hb.last_dirty())
    ctx.require("metric kwargs are passed to every metric call", all(k == ["space"] for k in seen_kwargs), case, seen_kwargs[:3])
    ctx.case({"session": "metric", "state": spec["state"], "p": p, "ops": spec["ops"], "reads": spec.get("reads"), "tseed": spec["tseed"]},
             nontrivial=fired_any and (p == 1 or skipped_any))
    ctx.count("metric:period=%d" % p); ctx.count("state:" + spec["state"])


def check_metric_state(ctx, case, me, names, p, exp_past, exp_log, mops, logf, mode="all", held=None, skip_last=False):
    """mode: which accessors are read now (READ_MODES); held collects the returned arrays / lists / dicts;
    skip_last: the caller edited the dict handed out as `last` and nothing was evaluated since (it holds the caller's edits)"""
    n = len(exp_past)
    held = held if held is not None else []
    if mode == "none":
        return

    # ---- oracle against the probe's record
    def chk_len_epochs():
        ctx.require("len(evaluator) == number of multiples of the period among the run's epochs", len(me) == n, case,
                    {"len": len(me), "expected": n})
        eps = me.epochs
        ctx.require("evaluator.epochs == the multiples of the period among the run's epochs, in order",
                    [int(e) for e in eps] == [e for e, _ in exp_past], case,
                    {"epochs": [int(e) for e in eps], "expected": [e for e, _ in exp_past]})
        held.append(eps)

    def chk_arrays():
        for nm in names:
            want = [v[nm] for _, v in exp_past]
            for form, get in (("getitem", lambda: me[nm]), ("getattr", lambda: getattr(me, nm))):
                if form == "getattr" and colliding(me, nm):
                    # attribute access finds the evaluator's own attribute of that name first: nothing is demanded of it
                    info(ctx, "getattr(evaluator, name) for a name that is also an attribute of the evaluator gives the recorded values",
                         res(get, canon) == [0, canon(want)])
                    continue
                ok, arr = ctx.call("evaluator[%s]" % form, case, get)
                if ok:
                    ctx.require("per-name array == values computed at the recorded epochs", same_vals(arr, want), case,
                                {"name": nm, "form": form, "got": show(arr),
                                 "want": canon(want), "read": mode})
                    held.append(arr)

    def chk_get_value():
        for nm in names:
            for i in list(range(-n - 2, n + 2)) + [None]:
                valid = (i is None and n > 0) or (i is not None and -n <= i < n)
                if valid and i is not None:
                    # the index as a Python int and as a numpy integer (np.argmin(ev[name]), np.arange(n)[i], ...)
                    want_i = exp_past[i][1][nm]
                    for ienc in index_encodings(i, n):
                        r = res(lambda: me.get_value(nm, ienc))
                        ctx.require("get_value(name, index) == value computed at that evaluation", r[0] == 0 and same_vals(r[1], want_i),
                                    case, {"name": nm, "index": i, "index_type": type(ienc).__name__, "got": show(r), "want": show(want_i)})
                    ctx.count("get_value index given as:" + type(ienc).__name__)
                    continue
                r = res(lambda: me.get_value(nm, i) if i is not None else me.get_value(nm))
                if valid:
                    want_i = exp_past[-1][1][nm]
                    ctx.require("get_value(name, index) == value computed at that evaluation", r[0] == 0 and same_vals(r[1], want_i),
                                case, {"name": nm, "index": i, "got": show(r), "want": show(want_i)})
                else:
                    info(ctx, "get_value out-of-range index -> IndexError", r == [1, 0])

    def chk_last_names():
        want_last = exp_past[-1][1] if n else {}
        last = me.last
        if skip_last:
            ctx.count("history:`last` not looked at (it holds the caller's own edits until the next evaluation)")
        else:
            ctx.require("evaluator.last == values of the most recent evaluation",
                        isinstance(last, dict) and list(last) == list(want_last) and same_vals(list(last.values()), list(want_last.values())), case,
                        {"last": repr(last)[:200], "want": {k: float(v) for k, v in want_last.items()}})
        if isinstance(last, dict):
            held.append(last)
        nms = me.names
        ctx.require("evaluator.names == metric names", list(nms) == names, case)
        held.append(nms)

    def chk_csv():
        if logf is None:
            return None
        with open(logf) as f:
            rows = list(csv.reader(f))
        ctx.require("CSV header == epoch + metric names", rows[:1] == [["epoch"] + names], case, rows[:1])
        body = parse_body(rows[1:])
        want_body = [[e] + [float(v[nm]) for nm in names] for e, v in exp_log]
        ctx.require("CSV body == one row (epoch, values in field order) per evaluation", canon(body) == canon(want_body), case,
                    {"body": body, "want": want_body})
        return body

    if mode == "arrays":
        return chk_arrays()
    if mode == "inrun":          # from a user callback placed after the evaluator, at the end of an epoch of a run
        chk_arrays(); chk_len_epochs(); chk_get_value(); chk_last_names()
        return
    if mode == "scalars":
        chk_len_epochs(); chk_get_value(); chk_last_names(); chk_csv()
        return
    if mode == "arrays-first":
        chk_arrays(); chk_len_epochs()
    else:
        chk_len_epochs(); chk_arrays()
    chk_get_value()
    chk_last_names()
    body = chk_csv()
    # ---- correspondence with the model
    allq = [(nm, i) for nm in names + ["zz"] for i in list(range(-n - 2, n + 2)) + [None]]
    vmask = [nm != "zz" and ((i is None and n > 0) or (i is not None and -n <= i < n)) for nm, i in allq]
    queries = [[codes(nm), ([] if i is None else i)] for nm, i in allq]
    mod = ctx.get_model().call("c17_metric_session", p, [codes(x) for x in names], mops, queries)
    implq = [res(lambda: me.get_value(nm, i) if i is not None else me.get_value(nm)) for nm, i in allq]
    impl = [len(me), [int(e) for e in me.epochs],
            [res(lambda: me[nm], canon) for nm in names],
            [[codes(k), float(v)] for k, v in me.last.items()] if not skip_last else "edited by the caller",
            [[r[0], [cell_enc(x) for x in r[1:]]] for r in body] if body is not None else "no log file",
            [r for r, v in zip(implq, vmask) if v]]
    modv = list(mod[:3]) + [mod[3] if not skip_last else "edited by the caller", mod[4] if body is not None else "no log file"] + \
        [[r for r, v in zip(mod[5], vmask) if v]]
    ctx.agree_exact("MetricEvaluator accessors vs model", canon(impl), canon(modv), case)
    # invalid indices / untracked names: not constrained by the property, histogram only
    info(ctx, "get_value invalid index or untracked name (error kind)",
         canon([r for r, v in zip(implq, vmask) if not v]) == canon([r for r, v in zip(mod[5], vmask) if not v]))
    info(ctx, "array of an untracked name (AttributeError once recorded, empty before)",
         res(lambda: me["zz"], canon) == ([1, 2] if n else [0, []]))


# ------------------------------------------------------------------ ObservableEvaluator sessions
STATQ = ["mean", "means", "variance", "variances", "std_error", "std_errors", "num_samples", "num_sample", "foo", "s"]
STATQ_VALID = 7          # the first 7 are names of tracked statistics (or their plural aliases)


def obs_session(ctx, spec):
    from qucumber.callbacks import ObservableEvaluator
    from qucumber.observables import SigmaZ
    C = classes()
    case = {"session": "observable", "spec": spec}
    s, extra = make_state(spec)
    p = spec["period"]
    clock = C["Clock"]()
    observables = [SigmaZ(), C["StubObs"]("Stub", clock, spec["script"])]
    # observables whose NAME is also the name of an attribute of the evaluator object ("period", "last", "log", ...)
    for j, nm in enumerate(spec.get("extra_names") or []):
        observables.append(C["StubObs"](nm, clock, spec["script"][j + 1:] + spec["script"][:j + 1]))
        ctx.count("observable name that is also an attribute of the evaluator:" + nm)
    names = [o.name for o in observables]
    kw = {"num_samples": 4, "num_chains": 4, "burn_in": 1, "steps": 1}
    logf = os.path.join(ctx.scratch, "olog_%d.csv" % ctx.evaluations) if spec.get("log", True) else None
    if logf and os.path.exists(logf):
        os.remove(logf)
    verbose = bool(spec.get("verbose", False))
    pgiven = as_ptype(p, spec.get("ptype"))
    ctx.count("period given as:" + (spec.get("ptype") or "int"))
    form = spec.get("form", 0)
    if form == 1:
        mk = lambda: ObservableEvaluator(pgiven, observables, verbose, logf, **kw)
    elif form == 2 and not verbose and logf is None:
        mk = lambda: ObservableEvaluator(pgiven, observables, **kw)
    else:
        mk = lambda: ObservableEvaluator(period=pgiven, observables=observables, verbose=verbose, log=logf, **kw)
    ok, oe = ctx.call("ObservableEvaluator construction", case, mk)
    if not ok:
        return
    ctx.count("evaluator_options:verbose=%s,log=%s" % (verbose, logf is not None))
    probe = C["Probe"](C["obs_wouldbe"](observables, kw))
    cbs = [clock, probe, oe]        # the probe must sit right before the evaluator (same RNG state)
    hb = HistBase(probe, p)
    held_inrun = []
    if spec.get("inrun"):
        from qucumber.callbacks import LambdaCallback

        def inrun_read(st, epoch):
            want = [(ev["epoch"], ev["values"]) for ev in probe.events[hb.base():] if ev["epoch"] % p == 0]
            check_obs_state(ctx, case, oe, names, p, want, None, None, logf, "inrun", held_inrun, skip_last=hb.last_dirty())
            del held_inrun[:]
        cbs = cbs + [LambdaCallback(on_epoch_end=inrun_read)]
        ctx.count("history:accessors read during the runs")
    exp_past, exp_log, mops = [], [], []
    fired_any = skipped_any = False
    reads = spec.get("reads") or ["all"] * len(spec["ops"])
    held = []
    for k, (op, mode) in enumerate(zip(spec["ops"], reads)):
        ctx.count("history:op=%s,read=%s" % (op[0], mode))
        if op[0] == "clear":
            oe.clear_history()
            exp_past = []
            hb.cleared_now()
            mops.append([0])
        elif op[0] == "scribble":
            if scribble(ctx, held):
                hb.last_scribbled()
        elif op[0] in STATE_OPS:
            ok, s = ctx.call("legal change of the trained state between runs (%s)" % op[0], case, mutate_state, s, spec, op[0], k)
            if not ok:
                return
        else:
            start, end, stop = op[1:4]
            inclear = op[4] if len(op) > 4 else None      # [epoch, "start" | "end"]: clear_history() called by a user callback DURING this run
            n0 = len(probe.events)
            run_cbs = cbs
            if inclear:
                # the clearing callbacks never touch the torch RNG, so the probe still sees the evaluator's RNG state
                i_oe = cbs.index(oe)
                run_cbs = cbs[:i_oe - 1] + [inrun_clearer(oe, hb, n0, inclear, where="before")] + cbs[i_oe - 1:i_oe + 1] + \
                    [inrun_clearer(oe, hb, n0, inclear, where="after")] + cbs[i_oe + 1:]
                ctx.count("history:clear_history called by a callback during a run (%s of an epoch)" % inclear[1])
            if not do_fit(ctx, "fit with ObservableEvaluator", case, s, extra, start, end, run_cbs, stop):
                return
            evs = probe.events[n0:]
            for pi, part in enumerate(split_at_clear(evs, inclear)):
                if pi:                                      # the clearing happened between the two parts of this run
                    exp_past = []
                    mops.append([0])
                for ev in part:
                    if ev["epoch"] % p == 0:
                        exp_past.append((ev["epoch"], ev["values"])); exp_log.append((ev["epoch"], ev["values"]))
                        fired_any = True
                    else:
                        skipped_any = True
                mops.append([1, [[ev["epoch"], [[ev["values"][nm][k] for k in ("mean", "variance", "std_error", "num_samples")]
                                                for nm in names]] for ev in part]])
            ctx.traces += 1
        check_obs_state(ctx, case, oe, names, p, exp_past, exp_log, mops, logf, mode, held, skip_last=hb.last_dirty())
    if reads[-1] != "all":
        check_obs_state(ctx, case, oe, names, p, exp_past, exp_log, mops, logf, "all", held, skip_last=hb.last_dirty())
    ctx.case({"session": "observable", "state": spec["state"], "p": p, "ops": spec["ops"], "reads": spec.get("reads"), "tseed": spec["tseed"]},
             nontrivial=fired_any and (p == 1 or skipped_any))
    ctx.count("observable:period=%d" % p); ctx.count("state:" + spec["state"])


def stats_list(d):
    return [float(d[k]) for k in ("mean", "variance", "std_error", "num_samples")]


def check_obs_state(ctx, case, oe, names, p, exp_past, exp_log, mops, logf, mode="all", held=None, skip_last=False):
    n = len(exp_past)
    held = held if held is not None else []
    if mode == "none":
        return
    fields = ["epoch"] + [nm + "_" + st for nm in names for st in ("mean", "variance", "std_error")]

    def chk_len_epochs():
        ctx.require("len(evaluator) == number of multiples of the period among the run's epochs", len(oe) == n, case, {"len": len(oe), "expected": n})
        eps = oe.epochs
        ctx.require("evaluator.epochs == the multiples of the period among the run's epochs, in order",
                    [int(e) for e in eps] == [e for e, _ in exp_past], case,
                    {"epochs": [int(e) for e in eps], "expected": [e for e, _ in exp_past]})
        held.append(eps)

    def chk_arrays():
        for nm in names:
            clash = colliding(oe, nm)       # attribute access finds the evaluator's own attribute of that name: only the subscript alias is demanded
            if clash:
                info(ctx, "getattr(evaluator, name) for a name that is also an attribute of the evaluator gives the recorded statistics",
                     res(lambda: getattr(getattr(oe, nm), "mean"), canon) == [0, canon([v[nm]["mean"] for _, v in exp_past])])
            for stat, plural in (("mean", "means"), ("variance", "variances"), ("std_error", "std_errors")):
                want = [v[nm][stat] for _, v in exp_past]
                for form, get in ((stat, (lambda: getattr(oe[nm], stat)) if clash else (lambda: getattr(getattr(oe, nm), stat))),
                                  (plural, lambda: getattr(oe[nm], plural)), ("[%s]" % plural, lambda: oe[nm][plural])):
                    ok, arr = ctx.call("ObservableStatistics.%s" % form, case, get)
                    if ok:
                        ctx.require("ObservableStatistics array (singular and plural name) == statistics computed at the recorded epochs",
                                    same_vals(arr, want), case, {"obs": nm, "stat": form, "got": show(arr), "want": canon(want), "read": mode})
                        held.append(arr)

    def chk_get_value():
        for nm in names:
            for i in list(range(-n - 2, n + 2)) + [None]:
                valid = (i is None and n > 0) or (i is not None and -n <= i < n)
                if valid and i is not None:
                    # the index as a Python int and as a numpy integer
                    want_i = stats_list(exp_past[i][1][nm])
                    for ienc in index_encodings(i, n):
                        r = res(lambda: oe.get_value(nm, ienc), stats_list)
                        ctx.require("get_value(name, index) == value computed at that evaluation", r[0] == 0 and same_vals(r[1], want_i),
                                    case, {"name": nm, "index": i, "index_type": type(ienc).__name__, "got": show(r), "want": show(want_i)})
                    ctx.count("get_value index given as:" + type(ienc).__name__)
                    continue
                r = res(lambda: oe.get_value(nm, i) if i is not None else oe.get_value(nm), stats_list)
                if valid:
                    want_i = stats_list(exp_past[-1][1][nm])
                    ctx.require("get_value(name, index) == value computed at that evaluation", r[0] == 0 and same_vals(r[1], want_i),
                                case, {"name": nm, "index": i, "got": show(r), "want": show(want_i)})
                else:
                    info(ctx, "get_value out-of-range index -> IndexError", r == [1, 0])

    def chk_last_names():
        want_last = exp_past[-1][1] if n else {}
        last = oe.last
        if skip_last:
            ctx.count("history:`last` not looked at (it holds the caller's own edits until the next evaluation)")
        else:
            try:
                okl = isinstance(last, dict) and list(last) == list(want_last) and \
                    all(same_vals(stats_list(last[k]), stats_list(want_last[k])) for k in want_last)
            except Exception:
                okl = False
            ctx.require("evaluator.last == values of the most recent evaluation", okl, case,
                        {"last_keys": list(last) if isinstance(last, dict) else repr(last)[:100]})
        if isinstance(last, dict):
            held.append(last)           # the TOP level of this dict is the caller's to edit (see scribble)
        nms = oe.names
        ctx.require("evaluator.names == observable names", list(nms) == names, case)
        held.append(nms)

    def chk_csv():
        if logf is None:
            return None
        with open(logf) as f:
            rows = list(csv.reader(f))
        ctx.require("CSV header == epoch + <obs>_mean/_variance/_std_error", rows[:1] == [fields], case, rows[:1])
        body = parse_body(rows[1:])
        want_body = [[e] + [float(v[nm][st]) for nm in names for st in ("mean", "variance", "std_error")] for e, v in exp_log]
        ctx.require("CSV body == one row (epoch, statistics in field order) per evaluation", canon(body) == canon(want_body), case,
                    {"body": body, "want": want_body})
        return body

    if mode == "arrays":
        return chk_arrays()
    if mode == "inrun":          # from a user callback placed after the evaluator, at the end of an epoch of a run
        chk_arrays(); chk_len_epochs(); chk_get_value(); chk_last_names()
        return
    if mode == "scalars":
        chk_len_epochs(); chk_get_value(); chk_last_names(); chk_csv()
        return
    if mode == "arrays-first":
        chk_arrays(); chk_len_epochs()
    else:
        chk_len_epochs(); chk_arrays()
    chk_get_value()
    chk_last_names()
    body = chk_csv()
    # ---- correspondence with the model
    idxs = list(range(-n - 2, n + 2)) + [None]
    allq = [(nm, i) for nm in names + ["zz"] for i in idxs]
    vmask = [nm != "zz" and ((i is None and n > 0) or (i is not None and -n <= i < n)) for nm, i in allq]
    queries = [[codes(nm), ([] if i is None else i)] for nm, i in allq]
    mod = ctx.get_model().call("c17_obs_session", p, [codes(x) for x in names], mops, queries, [codes(q) for q in STATQ])

    def data_of(nm):
        try:
            o = oe[nm]
        except AttributeError:
            return [1, 2]
        return [0, [res(lambda: o[q], canon) for q in STATQ]]

    def dict_enc(d):
        return [[codes(k), float(v)] for k, v in d.items()]
    implq = [res(lambda: oe.get_value(nm, i) if i is not None else oe.get_value(nm), dict_enc) for nm, i in allq]
    NV = STATQ_VALID

    def split_data(d, valid):
        """keep the tracked statistic names (valid) or the others (not valid) of one observable's entry"""
        if d[0] != 0:
            return d
        return [0, [r for k, r in enumerate(d[1]) if (k < NV) == valid]]
    impl_data = [data_of(nm) for nm in names]
    impl = [len(oe), [int(e) for e in oe.epochs], [split_data(d, True) for d in impl_data],
            [[codes(k), dict_enc(v)] for k, v in oe.last.items()] if not skip_last else "edited by the caller",
            [[r[0], [cell_enc(x) for x in r[1:]]] for r in body] if body is not None else "no log file",
            [r for r, v in zip(implq, vmask) if v],
            [codes(f) for f in fields[1:]]]
    modv = [mod[0], mod[1], [split_data(d, True) for d in mod[2]], mod[3] if not skip_last else "edited by the caller",
            mod[4] if body is not None else "no log file", [r for r, v in zip(mod[5], vmask) if v], mod[6]]
    ctx.agree_exact("ObservableEvaluator accessors vs model", canon(impl), canon(modv), case)
    info(ctx, "get_value invalid index or untracked name (error kind)",
         canon([r for r, v in zip(implq, vmask) if not v]) == canon([r for r, v in zip(mod[5], vmask) if not v]))
    info(ctx, "untracked statistic name (error kind)",
         canon([split_data(d, False) for d in impl_data]) == canon([split_data(d, False) for d in mod[2]]))


# ------------------------------------------------------------------ several evaluators in one list; stream form
def multi_session(ctx, spec):
    from qucumber.callbacks import MetricEvaluator
    C = classes()
    case = {"session": "multi", "spec": spec}
    s, extra = make_state(spec)
    clock = C["Clock"]()
    periods = spec["periods"]
    scripts = spec["scripts"]
    evs, probes, cbs = [], [], [clock]
    for j, p in enumerate(periods):
        fn = (lambda j: (lambda state, **kw: np.float64(scripts[j][clock.t % len(scripts[j])])))(j)
        me = MetricEvaluator(p, {"m": fn})
        pr = C["Probe"]((lambda fn: (lambda st: fn(st)))(fn))
        evs.append(me); probes.append(pr)
        cbs += [pr, me] if j % 2 == 0 else [me, pr]
    _, start, end, stop = spec["fit"]
    if not do_fit(ctx, "fit with several evaluators", case, s, extra, start, end, cbs, stop):
        return
    run = [[ev["epoch"], [probes[j].events[i]["values"] for j in range(len(periods))]] for i, ev in enumerate(probes[0].events)]
    mod = ctx.get_model().call("c17_multi_session", periods, run)
    impl = []
    for j, p in enumerate(periods):
        want = [(ev["epoch"], ev["values"]) for ev in probes[j].events if ev["epoch"] % p == 0]
        ctx.require("each evaluator records exactly the multiples of its own period (independent of the others)",
                    [int(e) for e in evs[j].epochs] == [e for e, _ in want] and same_vals(evs[j]["m"], [v for _, v in want]), case,
                    {"period": p, "epochs": [int(e) for e in evs[j].epochs], "want": [e for e, _ in want]})
        impl.append([[int(e) for e in evs[j].epochs], res(lambda: evs[j]["m"], canon)])
    ctx.agree_exact("several evaluators vs model", canon(impl), canon(mod), case)
    # the value-stream form of the model: the k-th evaluation records the k-th item of the stream
    me0 = evs[0]
    stream = [float(x) for x in me0["m"]] + [99.0]
    mod = ctx.get_model().call("c17_stream_session", periods[0], [ev["epoch"] for ev in probes[0].events], stream)
    ctx.agree_exact("stream form vs implementation", canon([[int(e) for e in me0.epochs], [0, [float(x) for x in me0["m"]]]]), canon(mod), case)
    ctx.traces += 1
    ctx.case({"session": "multi", "state": spec["state"], "periods": periods, "fit": spec["fit"], "tseed": spec["tseed"]},
             nontrivial=len(set(periods)) > 1 and len(probes[0].events) >= max(periods))
    ctx.count("multi:%d evaluators" % len(periods))


# ------------------------------------------------------------------ ModelSaver / Logger sessions
def saver_session(ctx, spec):
    """the working directory of the process is restored whatever happens (sessions with a relative folder change it)"""
    cwd = os.getcwd()
    try:
        return _saver_session(ctx, spec)
    finally:
        os.chdir(cwd)


def _saver_session(ctx, spec):
    import torch
    from qucumber.callbacks import ModelSaver, Logger, LambdaCallback
    C = classes()
    case = {"session": "saver", "spec": spec}
    s, extra = make_state(spec)
    p, save_initial, md_kind, md_only = spec["period"], spec["save_initial"], spec["md"], spec["md_only"]
    # ---- folder configuration: fresh / already existing (empty) / already holding an unrelated file and the files of an
    #      earlier saver / nested path that does not exist yet; given as str, str with a trailing separator, or pathlib.Path
    fcfg = spec.get("folder", "fresh")
    root = os.path.join(ctx.scratch, "sv_%d" % ctx.evaluations)
    farg = spec.get("folder_arg", "str")
    base = None
    if farg.startswith("relative"):     # the saver is built in the working directory `base` and given a path relative to it
        base = os.path.join(ctx.scratch, "svcwd_%d" % ctx.evaluations)
        root = os.path.join(base, "checkpoints")
        os.makedirs(base, exist_ok=True)
        os.makedirs(base + "_elsewhere", exist_ok=True)
    tmpl = spec.get("file_name", "ck_{}.pt")
    pre = {}                    # pre-existing file name -> bytes
    if fcfg == "nested":
        folder = os.path.join(root, "a", "b c", "d")
    else:
        folder = root
    if fcfg in ("existing", "populated"):
        os.makedirs(folder)
    if fcfg == "populated":
        pre = {"notes.txt": b"unrelated", tmpl.format(99): b"old-99", tmpl.format(2): b"old-2"}
        if spec["save_initial"] is not False:
            pre[tmpl.format("initial")] = b"old-initial"
        for f, b in pre.items():
            with open(os.path.join(folder, f), "wb") as fh:
                fh.write(b)
    import pathlib
    chdir = spec.get("chdir")            # None | ["before-fit"] | ["epoch", e]: the process changes its working directory after the saver was built
    if base is not None:
        # a RELATIVE folder_path: it names a folder under the working directory the saver was constructed in; the files
        # belong in THAT folder wherever the process goes afterwards (a user callback / metric / script that chdir()s)
        os.chdir(base)
        rel = os.path.relpath(folder, base)
        fgiven = {"relative": rel, "relative-dot": os.path.join(".", rel), "relative-path": pathlib.Path(rel)}[farg]
        ctx.count("saver_chdir:%s" % (chdir[0] if chdir else "never"))
    else:
        chdir = None
        fgiven = {"str": folder, "slash": folder + os.sep, "path": pathlib.Path(folder)}[farg]
    ctx.count("saver_folder:%s/%s" % (fcfg, farg)); ctx.count("saver_file_name:" + tmpl)
    probe = C["Probe"]()
    the_dict = {"tag": 7, "lst": [1, 2], "nested": {"a": [1, {"b": 2.5}], "c": "x"}}
    the_dict_copy = json.loads(json.dumps(the_dict))
    md_calls = []

    def md_fn(state, epoch):
        md_calls.append(int(epoch))
        return {"epoch": int(epoch), "sid": len(probe.snaps) - 1, "w": first_w(C["snapshot"](state))}
    md = {"none": None, "dict": the_dict, "callable": md_fn}[md_kind]
    pgiven = as_ptype(p, spec.get("ptype"))
    ctx.count("period given as:" + (spec.get("ptype") or "int"))
    form = spec.get("form", 0)
    if form == 1:                       # everything positional
        mk = lambda: ModelSaver(pgiven, fgiven, tmpl, True if save_initial is None else save_initial, md, md_only)
    elif form == 2:                     # everything by keyword, defaults omitted where they apply
        kwa = dict(period=pgiven, folder_path=fgiven, file_name=tmpl)
        if save_initial is not None:
            kwa["save_initial"] = save_initial
        if md is not None:
            kwa["metadata"] = md
        if md_only:
            kwa["metadata_only"] = True
        mk = lambda: ModelSaver(**kwa)
    else:
        kwa = dict(metadata=md, metadata_only=md_only)
        if save_initial is not None:
            kwa["save_initial"] = save_initial
        mk = lambda: ModelSaver(pgiven, fgiven, tmpl, **kwa)
    ok, sv = ctx.call("ModelSaver construction (folder: %s)" % fcfg, case, mk)
    if save_initial is None:            # the documented default
        save_initial = True
    if not ok:
        return
    ctx.require("ModelSaver creates its folder", os.path.isdir(folder), case, {"folder": fcfg})
    if not os.path.isdir(folder):
        return
    saves = []
    orig_save = torch.save

    def rec_save(obj, f, *a, **k):
        saves.append(f)
        return orig_save(obj, f, *a, **k)
    dirp = C["DirProbe"](folder, saves)
    log_calls = []
    lg_ptype = spec.get("lg_ptype") or PTYPES[spec["tseed"] % len(PTYPES)]       # the loggers' periods in numpy integer encodings too
    ctx.count("logger period given as:" + lg_ptype)
    lg = Logger(as_ptype(spec["lg_period"], lg_ptype), logger_fn=log_calls.append,
                msg_gen=lambda state, epoch, **kw: (int(epoch), first_w(C["snapshot"](state)), sorted(kw.items())), tag=3)
    # default forms: Logger(period) prints msg_gen's default text; Logger(period, logger_fn=...) with the default msg_gen
    lp_print, lp_text = 1 + (spec["tseed"] % 5), 1 + ((spec["tseed"] // 5) % 5)
    text_calls, printed = [], []
    lg_print = Logger(lp_print)
    lg_text = Logger(as_ptype(lp_text, PTYPES[(spec["tseed"] // 7) % len(PTYPES)]), logger_fn=text_calls.append, tag=3)
    cbs = [probe, sv, dirp, lg, lg_print, lg_text]
    if chdir and chdir[0] == "epoch":     # a user callback placed BEFORE the saver changes the working directory at the start of an epoch
        e_cd = int(chdir[1])
        cbs = [LambdaCallback(on_epoch_start=lambda st, ep: os.chdir(base + "_elsewhere") if ep == e_cd else None)] + cbs
    want_writes = []        # (file name, sid, epoch argument) in order
    mfits = []
    fired_any = skipped_any = False
    for k, fop in enumerate(spec["fits"]):
        if fop[0] in STATE_OPS:     # a legal change of the trained state between two runs with the same saver / loggers
            ctx.count("history:op=%s,saver" % fop[0])
            ok, s = ctx.call("legal change of the trained state between runs (%s)" % fop[0], case, mutate_state, s, spec, fop[0], k)
            if not ok:
                return
            continue
        _, start, end, stop = fop
        n0, s0 = len(probe.events), len(probe.starts)
        if chdir and chdir[0] == "before-fit":          # the script moves on after building its callbacks
            os.chdir(base + "_elsewhere")
        torch.save = rec_save
        try:
            okf = do_fit(ctx, "fit with ModelSaver (%s metadata) and Loggers (scripted and default forms)" % md_kind, case, s, extra,
                         start, end, cbs, stop)
        finally:
            torch.save = orig_save
        printed += [l for l in LAST_OUT[0].splitlines() if l.strip()]
        if not okf:
            return
        if len(probe.starts) == s0:
            continue
        sid0 = probe.starts[-1]
        evs = probe.events[n0:]
        if save_initial:
            want_writes.append((tmpl.format("initial"), sid0, 0))
        for ev in evs:
            if ev["epoch"] % p == 0:
                want_writes.append((tmpl.format(ev["epoch"]), ev["sid"], ev["epoch"])); fired_any = True
            else:
                skipped_any = True
        mfits.append([sid0, [[ev["epoch"], ev["sid"]] for ev in evs]])
        ctx.traces += 1
    # ---- oracle
    ctx.require("files are written exactly at the initial save (iff requested) and at multiples of the period, in order",
                dirp.writes == [w[0] for w in want_writes], case, {"written": dirp.writes, "want": [w[0] for w in want_writes]})
    final = {}
    for w in want_writes:
        final[w[0]] = w
    ctx.require("the folder holds exactly the expected files (named by file_name.format(epoch) / .format('initial')) besides what was there before",
                sorted(os.listdir(folder)) == sorted(set(final) | set(pre)), case,
                {"files": sorted(os.listdir(folder)), "want": sorted(set(final) | set(pre)), "file_name": tmpl})
    for f, b in pre.items():
        if f not in final and os.path.exists(os.path.join(folder, f)):
            with open(os.path.join(folder, f), "rb") as fh:
                ctx.require("a file that was in the folder before and is not due at any epoch of the run is left untouched", fh.read() == b, case, {"file": f})
    name_enc = {tmpl.format("initial"): [0]} if save_initial else {}
    for ev in probe.events:
        name_enc.setdefault(tmpl.format(ev["epoch"]), [1, ev["epoch"]])
    if md_kind == "callable":       # how often the callable is invoked is not constrained; what is saved is (below)
        info(ctx, "metadata callable called once per save", md_calls == [w[2] for w in want_writes])
    ctx.require("the caller's metadata dict is not modified", the_dict == the_dict_copy, case, the_dict)
    has_ud = hasattr(s, "unitary_dict")
    impl_store = []
    for fname in sorted(os.listdir(folder)):
        if fname not in final:
            continue
        ok, obj = ctx.call("torch.load of a saved file", case, lambda: torch.load(os.path.join(folder, fname), weights_only=False))
        if not ok:
            continue
        _, sid, ep = final[fname]
        snap = probe.snaps[sid]
        want_md = {"none": {}, "dict": the_dict_copy, "callable": {"epoch": ep, "sid": sid, "w": first_w(snap)}}[md_kind]
        if md_only:
            ctx.require("metadata_only file holds the requested metadata", subdict(want_md, obj), case, {"file": fname, "got": repr(obj)[:200]})
            info(ctx, "metadata_only file holds nothing but the metadata", obj == want_md)
            got_md, full, got_sid = obj, 0, -1
        else:
            want_keys = set(s.networks) | set(want_md)
            ctx.require("saved file has the network entries and the requested metadata keys", isinstance(obj, dict) and want_keys <= set(obj), case,
                        {"file": fname, "keys": sorted(obj) if isinstance(obj, dict) else repr(obj)[:100], "want": sorted(want_keys)})
            if not isinstance(obj, dict):
                continue
            info(ctx, "saved file has exactly networks + metadata (+ unitary_dict)",
                 set(obj) == want_keys | ({"unitary_dict"} if has_ud else set()))
            same = all(net in obj and set(obj[net]) == set(snap[net]) and all(torch.equal(obj[net][k], snap[net][k]) for k in snap[net])
                       for net in s.networks)
            ctx.require("file named by epoch e loads back to the parameters at the end of epoch e (initial: at train start)", same, case,
                        {"file": fname, "epoch": ep})
            got_md = {k: v for k, v in obj.items() if k not in s.networks and k != "unitary_dict"}
            ctx.require("saved metadata == requested metadata", subdict(want_md, got_md), case, {"file": fname, "got": repr(got_md)[:200], "want": repr(want_md)[:200]})
            full = 1
            got_sid = next((j for j, sn in enumerate(probe.snaps)
                            if all(net in obj and all(torch.equal(obj[net][k], sn[net][k]) for k in sn[net]) for net in s.networks)), -2)
        # which metadata form the file carries (extra keys are ignored)
        if isinstance(got_md, dict) and "sid" in got_md and "epoch" in got_md:
            menc = [2, got_md["sid"], got_md["epoch"]]
        elif subdict(the_dict_copy, got_md):
            menc = [1]
        else:
            menc = [0] if isinstance(got_md, dict) else [9]
        fenc = name_enc.get(fname, [9])
        impl_store.append((fenc, [[full, got_sid, menc]]))
    # ---- correspondence with the model
    mod = ctx.get_model().call("c17_saver_session", p, bool(save_initial), {"none": 0, "dict": 1, "callable": 2}[md_kind], bool(md_only), mfits)
    mod_writes, mod_store = mod

    def canon_sid(i):
        i = int(i)
        if i < 0:
            return i
        sn = probe.snaps[i]
        return next(j for j, o in enumerate(probe.snaps) if all(torch.equal(o[net][k], sn[net][k]) for net in sn for k in sn[net]))
    mw = [tmpl.format("initial") if int(w[0][0]) == 0 else tmpl.format(int(w[0][1])) for w in mod_writes]
    ctx.agree_exact("ModelSaver write order vs model", dirp.writes, mw, case)
    ms = sorted([(canon(f), [[int(c[0]), canon_sid(c[1]), canon(c[2])] for c in cont]) for f, cont in mod_store])
    ims = sorted([(canon(f), [[c[0], c[1] if c[1] < 0 else canon_sid(c[1]), canon(c[2])] for c in cont]) for f, cont in impl_store])
    ctx.agree_exact("ModelSaver file store vs model", json.loads(json.dumps(ims)), json.loads(json.dumps(ms)), case)
    # ---- Logger
    all_events = probe.events
    lp = spec["lg_period"]
    want_log = [(ev["epoch"], first_w(probe.snaps[ev["sid"]]), [("tag", 3)]) for ev in all_events if ev["epoch"] % lp == 0]
    ctx.require("Logger calls logger_fn(msg_gen(state, epoch, **kwargs)) exactly at the multiples of its period", log_calls == want_log, case,
                {"calls": [c[0] for c in log_calls], "want": [w[0] for w in want_log]})
    fits_flat = [[ev["epoch"], ev["sid"]] for ev in all_events]
    modl = ctx.get_model().call("c17_logger_session", lp, fits_flat)
    ctx.agree_exact("Logger calls vs model", [[float(e), first_w(probe.snaps[int(sid)])] for sid, e in modl],
                    [[float(c[0]), c[1]] for c in log_calls], case)
    # default forms: only the number of calls and the epochs named in the text are looked at (not the wording)
    import re

    def first_ints(lines):
        out = []
        for l in lines:
            m = re.search(r"-?\d+", str(l))
            out.append(int(m.group(0)) if m else None)
        return out
    for what, lines, lpx in (("Logger(period) with the default msg_gen and print", printed, lp_print),
                             ("Logger(period, logger_fn=f, **kwargs) with the default msg_gen", text_calls, lp_text)):
        want_e = [ev["epoch"] for ev in all_events if ev["epoch"] % lpx == 0]
        got_e = first_ints(lines)
        ctx.require(what + " logs once at every multiple of its period and at no other epoch",
                    len(lines) == len(want_e) and (None in got_e or got_e == want_e), case,
                    {"period": lpx, "lines": [str(l)[:40] for l in lines[:12]], "want_epochs": want_e})
        ctx.agree_exact(what + ": number of calls vs model", len(lines), len(ctx.get_model().call("c17_logger_session", lpx, fits_flat)), case)
    ctx.case({"session": "saver", "state": spec["state"], "p": p, "init": save_initial, "md": md_kind, "md_only": md_only,
              "fits": spec["fits"], "tseed": spec["tseed"], "folder": fcfg, "folder_arg": spec.get("folder_arg", "str"), "file_name": tmpl,
              "form": spec.get("form", 0), "chdir": chdir}, nontrivial=fired_any and (p == 1 or skipped_any))
    ctx.count("saver:md=%s%s" % (md_kind, ",only" if md_only else "")); ctx.count("state:" + spec["state"])


# ------------------------------------------------------------------ generation
def fit_ranges(ctx, full):
    if full:
        return [(a, b) for a in (0, 1, 2, 3, 5) for b in range(a, 9)]
    return [(1, 8), (1, 5), (0, 4), (3, 7), (2, 2), (5, 8), (1, 1), (0, 8), (2, 6), (4, 4)]


def stop_variants(rng, start, end, full):
    out = [None]
    if end > start:
        k = int(rng.integers(start, end))
        out.append((k, "epoch"))
        if full:
            out.append((int(rng.integers(start, end)), "batch"))
        elif rng.random() < 0.5:
            out[-1] = (k, "batch")
    return out


def script_for(rng, coprime=False):
    """scripted metric values, cycled by the session clock; coprime: a prime cycle length, so that a re-run of the same
    epochs does not meet the same values"""
    n = int(pick(rng, [5, 7, 11])) if coprime else int(rng.integers(3, 9))
    return [float(x) for x in np.round(rng.normal(size=n), 3)]


FILE_NAMES = ["ck_{}.pt", "ck_{}.pt", "{}", "ck_{0}.pt", "ck_{:>5}.pt", "e{}.model"]


# names of metrics / observables that are also names of attributes, properties or methods of the evaluator objects ("epoch" is left
# out: it is the name of the first CSV column)
CLASH_METRIC = ["log", "last", "period", "epochs", "names", "metrics", "past_values", "verbose", "metric_kwargs", "csv_fields",
                "get_value", "clear_history", "on_epoch_end"]
CLASH_OBS = ["period", "last", "log", "system", "epochs", "names", "past_values", "verbose", "sampling_kwargs", "get_value"]


def some_ptype(rng):
    return "int" if rng.random() < 0.55 else PTYPES[1 + int(rng.integers(len(PTYPES) - 1))]


def ev_options(rng, obs=False):
    """option flags and call forms of the evaluators: verbose x log independently, period type, positional / keyword / defaults,
    names that are also attributes of the evaluator"""
    out = {"verbose": bool(rng.random() < 0.35), "log": bool(rng.random() < 0.7), "form": int(rng.integers(3)), "ptype": some_ptype(rng)}
    if rng.random() < (0.2 if obs else 0.3):
        pool = CLASH_OBS if obs else CLASH_METRIC
        k = 1 if obs else int(rng.integers(1, 4))
        out["extra_names"] = [pool[int(i)] for i in rng.choice(len(pool), size=k, replace=False)]
    return out


def saver_options(rng, init):
    names = FILE_NAMES + (["ck_{:03d}.pt"] if init is False else [])
    out = {"folder": ["fresh", "existing", "populated", "nested"][int(rng.integers(4))],
           "folder_arg": ["str", "slash", "path"][int(rng.integers(3))],
           "file_name": names[int(rng.integers(len(names)))], "form": int(rng.integers(3)), "ptype": some_ptype(rng)}
    if rng.random() < 0.3:      # a relative folder; the process changes its working directory afterwards (or not)
        out["folder_arg"] = ["relative", "relative-dot", "relative-path"][int(rng.integers(3))]
        out["chdir"] = [None, ["before-fit"], ["epoch", int(rng.integers(0, 6))]][int(rng.integers(3))]
    return out


def fired_count(p, a, b):
    return sum(1 for e in range(a, b + 1) if e % p == 0)


HIST_RANGES = [(a, b) for a in (0, 1, 2, 3, 4, 5, 7) for b in range(a, a + 7)]


def pick(rng, xs, w=None):
    w = np.array(w if w is not None else [1.0] * len(xs), dtype=float)
    return xs[int(rng.choice(len(xs), p=w / w.sum()))]


def random_history(rng, kinds, obs=False):
    """ops + read modes of one evaluator history: runs separated by clear_history / scribbling over returned arrays /
    legal changes of the trained state, the next run reaching (half of the time) exactly as many evaluations as the one
    before; accessors are read only at some of the steps"""
    p = int(rng.integers(1, 4))
    cand = [r for r in HIST_RANGES if fired_count(p, *r) >= 1 and (not obs or r[1] - r[0] <= 4)]
    last = cand[int(rng.integers(len(cand)))]
    ops, reads = [("fit", last[0], last[1], None)], [pick(rng, ["all", "arrays", "arrays-first"], [2, 1, 1])]
    for _ in range(int(rng.integers(1, 3 if obs else 4))):
        if rng.random() < 0.3:
            ops.append(("scribble",)); reads.append(pick(rng, ["all", "none", "arrays"], [2, 1, 1]))
        if rng.random() < 0.75:
            ops.append(("clear",)); reads.append(pick(rng, ["none", "scalars", "all"], [6, 3, 1]))
        if rng.random() < 0.35:
            ops.append((pick(rng, list(STATE_OPS)),)); reads.append("none")
        same = [r for r in cand if fired_count(p, *r) == fired_count(p, *last)]
        nxt = same[int(rng.integers(len(same)))] if rng.random() < 0.55 else cand[int(rng.integers(len(cand)))]
        stop = None
        if nxt[1] > nxt[0] and rng.random() < 0.15:
            stop = (int(rng.integers(nxt[0], nxt[1])), "epoch" if rng.random() < 0.5 else "batch")
        if rng.random() < 0.25:     # clear_history() called by a user callback WHILE this run goes on
            ops.append(("fit", nxt[0], nxt[1], stop, [int(rng.integers(nxt[0], nxt[1] + 1)), "start" if rng.random() < 0.6 else "end"]))
        else:
            ops.append(("fit", nxt[0], nxt[1], stop))
        reads.append(pick(rng, ["all", "arrays", "arrays-first", "scalars", "none"], [4, 2, 2, 1, 1]))
        last = nxt
    return {"state": pick(rng, kinds), "period": p, "ops": ops, "reads": reads, "tseed": int(rng.integers(1 << 30)),
            "inrun": bool(rng.random() < 0.3)}


def history_specs(rng, full):
    kinds = ["positive", "complex", "dm"]
    out = []
    for i in range(80 if full else 14):
        out.append(("metric", dict(random_history(rng, kinds), script=script_for(rng, coprime=True), probe_before=bool(rng.random() < 0.5),
                                   **ev_options(rng))))
    for i in range(25 if full else 5):
        out.append(("obs", dict(random_history(rng, kinds, obs=True),
                                script=[[float(np.round(rng.normal(), 3)), float(np.round(rng.uniform(0.1, 2), 3))] for _ in range(7)],
                                **ev_options(rng, obs=True))))
    for i in range(20 if full else 4):      # the same saver / loggers over several runs with the state changed in between
        p = int(rng.integers(1, 4))
        fits = []
        for j in range(int(rng.integers(2, 4))):
            if j:
                fits.append((pick(rng, list(STATE_OPS)),))
            a = int(rng.integers(0, 3)); b = a + int(rng.integers(1, 5))
            fits.append(("fit", a, b, None))
        init = bool(rng.random() < 0.6)
        out.append(("saver", dict({"state": kinds[i % 3], "period": p, "save_initial": init, "md": ["callable", "dict", "none"][i % 3],
                                   "md_only": bool(rng.random() < 0.3), "fits": fits, "lg_period": int(rng.integers(1, 4)),
                                   "tseed": int(rng.integers(1 << 30))}, **saver_options(rng, init))))
    return out


FIT = lambda a, b, stop=None: ("fit", a, b, stop)
OBS_SCRIPT = [[0.1, 0.5], [0.3, 1.5], [-0.4, 0.7], [1.1, 0.2], [0.6, 1.9]]
# fixed sessions of red-team round 2 (always run, first of their kind): names that are also attributes of the evaluator objects,
# clear_history() called by a user callback DURING a run, the dict handed out as `last` edited by the caller, indices / periods in
# numpy integer encodings (every session), a relative saver folder with the working directory changed afterwards
FIXED_RT2 = [
    ("metric", {"state": "positive", "period": 2, "ops": [FIT(1, 6), ("scribble",), FIT(7, 8), ("clear",), FIT(3, 6)],
                "reads": ["all", "all", "all", "none", "all"], "extra_names": ["log", "last", "period", "epochs", "names", "metrics"],
                "tseed": 61, "script": [0.5, -1.25, 2.0, 0.75, -0.5, 1.0, 3.5], "probe_before": True, "verbose": True, "log": True, "form": 0,
                "ptype": "np.int32"}),
    ("metric", {"state": "complex", "period": 1,
                "ops": [("fit", 1, 6, None, [4, "start"]), FIT(7, 8), ("fit", 1, 5, None, [3, "end"]), ("fit", 1, 8, (2, "epoch"), [4, "start"])],
                "reads": ["all", "arrays-first", "all", "all"], "extra_names": ["past_values", "get_value"],
                "tseed": 62, "script": [0.5, -1.25, 2.0, 0.75, -0.5], "probe_before": False, "verbose": False, "log": True, "form": 1,
                "ptype": "np.uint8"}),
    ("metric", {"state": "dm", "period": 2,
                "ops": [("fit", 1, 8, None, [4, "start"]), ("scribble",), ("fit", 9, 12, None, [10, "end"]), ("fit", 1, 9, None, [5, "start"])],
                "reads": ["none", "none", "all", "scalars"], "inrun": True,
                "tseed": 63, "script": [0.5, -1.25, 2.0, 0.75, -0.5, 1.0, 3.5], "probe_before": True, "verbose": False, "log": False, "form": 2,
                "ptype": "np.int16"}),
    ("obs", {"state": "positive", "period": 1, "ops": [FIT(1, 3), ("scribble",), FIT(4, 4), ("clear",), FIT(2, 3)],
             "reads": ["all", "all", "all", "none", "all"], "extra_names": ["period", "last", "log"],
             "tseed": 64, "script": OBS_SCRIPT, "verbose": True, "log": True, "form": 0, "ptype": "np.intp"}),
    ("obs", {"state": "complex", "period": 2, "ops": [("fit", 1, 6, None, [4, "start"]), ("fit", 7, 10, None, [8, "end"]), FIT(11, 12)],
             "reads": ["all", "all", "arrays-first"], "inrun": True, "extra_names": ["system"],
             "tseed": 65, "script": OBS_SCRIPT, "verbose": False, "log": True, "form": 1, "ptype": "np.uint8"}),
    ("saver", {"state": "positive", "period": 2, "save_initial": True, "md": "callable", "md_only": False, "folder": "fresh",
               "folder_arg": "relative", "chdir": ["epoch", 3], "fits": [FIT(1, 6)], "lg_period": 2, "tseed": 66, "ptype": "np.int32"}),
    ("saver", {"state": "complex", "period": 1, "save_initial": True, "md": "dict", "md_only": False, "folder": "nested",
               "folder_arg": "relative-dot", "chdir": ["before-fit"], "fits": [FIT(1, 3), FIT(2, 3)], "lg_period": 1, "tseed": 67,
               "ptype": "np.uint8", "form": 2}),
    ("saver", {"state": "dm", "period": 3, "save_initial": False, "md": "none", "md_only": False, "folder": "existing",
               "folder_arg": "relative-path", "chdir": None, "fits": [FIT(1, 6)], "lg_period": 3, "tseed": 68, "ptype": "np.int16", "form": 1}),
]
# fixed histories (always run, first of their kind): a cache / memo / stored handle inside a callback that is not (completely)
# invalidated by clear_history, by new records, by edits of returned arrays or by a change of the trained state shows here
FIXED_HISTORIES = FIXED_RT2 + [
    # read, clear_history, run again for exactly as many evaluations (other epochs), read
    ("metric", {"state": "positive", "period": 2, "ops": [FIT(1, 6), ("clear",), FIT(7, 12)], "reads": ["all", "none", "all"],
                "tseed": 31, "script": [0.5, -1.25, 2.0, 0.75, -0.5], "probe_before": True, "verbose": False, "log": True, "form": 0}),
    # ... at the very same epochs (values differ), the arrays read first / only the arrays read before
    ("metric", {"state": "complex", "period": 2, "ops": [FIT(1, 6), ("clear",), FIT(1, 6)], "reads": ["arrays", "scalars", "arrays-first"],
                "tseed": 32, "script": [1.5, -0.25, 3.0, 0.125, -2.5], "probe_before": False, "verbose": False, "log": True, "form": 1}),
    # ... a longer, then a shorter run after clear_history, nothing read in between
    ("metric", {"state": "dm", "period": 1, "ops": [FIT(1, 3), ("clear",), FIT(1, 5), ("clear",), FIT(2, 3)],
                "reads": ["all", "none", "all", "none", "arrays-first"],
                "tseed": 33, "script": [0.5, 1.5, -2.0, 4.0, 0.25, -1.0, 2.25], "probe_before": True, "verbose": False, "log": False, "form": 2}),
    # in-place edits of the arrays returned earlier, then the same accessors again
    ("metric", {"state": "positive", "period": 1, "ops": [FIT(1, 4), ("scribble",), FIT(5, 6), ("scribble",), ("clear",), FIT(1, 6)],
                "reads": ["all", "all", "arrays", "arrays-first", "none", "all"],
                "tseed": 34, "script": [0.5, -1.25, 2.0, 0.75, -0.5, 1.0, 3.5], "probe_before": True, "verbose": True, "log": True, "form": 0}),
    # legal changes of the trained state between runs with the same callbacks
    ("metric", {"state": "positive", "period": 2,
                "ops": [FIT(1, 4), ("swap",), FIT(1, 4), ("clear",), ("reinit",), FIT(1, 4), ("rebind",), FIT(5, 8), ("clear",), ("swapnet",), FIT(5, 8)],
                "reads": ["all", "none", "all", "none", "none", "all", "none", "scalars", "none", "none", "all"],
                "tseed": 35, "script": [0.5, -1.25, 2.0, 0.75, -0.5, 1.0, 3.5], "probe_before": False, "verbose": False, "log": True, "form": 0}),
    # runs cut short by a stop request, then as many evaluations in a full run
    ("metric", {"state": "complex", "period": 1,
                "ops": [FIT(1, 8, (3, "epoch")), ("clear",), FIT(4, 6), ("clear",), ("reload",), FIT(1, 5, (3, "batch")), ("clear",), FIT(7, 8)],
                "reads": ["all", "none", "all", "none", "none", "all", "scalars", "arrays"],
                "tseed": 36, "script": [0.5, -1.25, 2.0, 0.75, -0.5], "probe_before": True, "verbose": False, "log": False, "form": 0}),
    # history kept over two runs with partial reads, then cleared and refilled to an earlier length
    ("metric", {"state": "dm", "period": 3, "ops": [FIT(1, 6), ("clear",), ("copy_",), FIT(4, 9), FIT(10, 12), ("clear",), FIT(1, 9)],
                "reads": ["arrays", "none", "none", "arrays", "all", "none", "arrays-first"],
                "tseed": 37, "script": [0.5, -1.25, 2.0, 0.75, -0.5, 1.0, 3.5], "probe_before": True, "verbose": False, "log": True, "form": 0,
                "ptype": "np.int64"}),
    # the accessors read by a user callback at every epoch end while the runs go on (records are appended under a memo)
    ("metric", {"state": "positive", "period": 2, "ops": [FIT(1, 5), FIT(6, 9), ("clear",), FIT(3, 6), ("reinit",), FIT(1, 4)],
                "reads": ["none", "all", "none", "none", "none", "all"], "inrun": True,
                "tseed": 38, "script": [0.5, -1.25, 2.0, 0.75, -0.5, 1.0, 3.5], "probe_before": True, "verbose": False, "log": True, "form": 0}),
    ("obs", {"state": "complex", "period": 1, "ops": [FIT(1, 3), FIT(4, 5), ("clear",), FIT(2, 4)], "reads": ["none", "all", "none", "all"],
             "inrun": True, "tseed": 44, "script": [[0.1, 0.5], [0.3, 1.5], [-0.4, 0.7], [1.1, 0.2], [0.6, 1.9]], "verbose": False, "log": True, "form": 0}),
    ("obs", {"state": "positive", "period": 2, "ops": [FIT(1, 6), ("clear",), FIT(7, 12)], "reads": ["all", "none", "all"],
             "tseed": 41, "script": [[0.1, 0.5], [0.3, 1.5], [-0.4, 0.7], [1.1, 0.2], [0.6, 1.9]], "verbose": False, "log": True, "form": 0}),
    ("obs", {"state": "complex", "period": 1, "ops": [FIT(1, 3), ("clear",), FIT(1, 3), ("scribble",), ("clear",), FIT(1, 5)],
             "reads": ["arrays", "scalars", "arrays-first", "all", "none", "all"],
             "tseed": 42, "script": [[0.1, 0.5], [0.3, 1.5], [-0.4, 0.7], [1.1, 0.2], [0.6, 1.9]], "verbose": False, "log": False, "form": 1}),
    ("obs", {"state": "dm", "period": 2, "ops": [FIT(1, 4), ("swap",), ("clear",), FIT(1, 4), ("clear",), ("reinit",), FIT(3, 6), FIT(7, 8)],
             "reads": ["all", "none", "none", "all", "none", "none", "arrays", "none"],
             "tseed": 43, "script": [[0.1, 0.5], [0.3, 1.5], [-0.4, 0.7], [1.1, 0.2], [0.6, 1.9]], "verbose": False, "log": True, "form": 0}),
    # the same saver and loggers over several runs that reach the same epochs, the state changed in between
    ("saver", {"state": "positive", "period": 2, "save_initial": True, "md": "callable", "md_only": False,
               "fits": [FIT(1, 4), ("reinit",), FIT(1, 4), ("swap",), FIT(3, 6)], "lg_period": 2, "tseed": 51}),
    ("saver", {"state": "complex", "period": 1, "save_initial": True, "md": "dict", "md_only": False,
               "fits": [FIT(1, 3), ("swap",), FIT(2, 4), ("rebind",), FIT(2, 3)], "lg_period": 1, "tseed": 52}),
    ("saver", {"state": "dm", "period": 2, "save_initial": None, "md": "none", "md_only": False, "folder": "populated", "form": 2,
               "fits": [FIT(1, 4), ("swapnet",), FIT(1, 4), ("reload",), FIT(1, 2)], "lg_period": 3, "tseed": 53}),
    ("saver", {"state": "positive", "period": 1, "save_initial": False, "md": "callable", "md_only": True,
               "fits": [FIT(1, 2), ("copy_",), FIT(1, 2)], "lg_period": 2, "tseed": 54}),
]


def specs(ctx):
    rng = ctx.rng
    full = ctx.thorough
    out = []
    ranges = fit_ranges(ctx, full)
    kinds = ["positive", "complex", "dm"]
    for p in range(1, 6):
        for ri, (a, b) in enumerate(ranges):
            for stop in stop_variants(rng, a, b, full):
                kind = kinds[0] if (not full and (ri + p) % 3) else kinds[(ri + p) % 3]
                ops = [("fit", a, b, stop)]
                r = rng.random()
                if r < 0.35:      # a second run, with or without clear_history in between
                    a2, b2 = ranges[int(rng.integers(len(ranges)))]
                    ops += ([("clear",)] if rng.random() < 0.6 else []) + [("fit", a2, b2, None)]
                out.append(("metric", dict({"state": kind, "period": p, "ops": ops, "tseed": int(rng.integers(1 << 30)),
                                            "script": script_for(rng), "probe_before": bool(rng.random() < 0.5)}, **ev_options(rng))))
    obs_ranges = ranges if full else ranges[:4]
    for p in range(1, 6):
        for ri, (a, b) in enumerate(obs_ranges):
            if full and (ri % 3) and p > 2:
                continue
            stop = stop_variants(rng, a, b, False)[-1]
            ops = [("fit", a, b, stop)]
            if rng.random() < 0.4:
                ops += ([("clear",)] if rng.random() < 0.6 else []) + [("fit", 1, int(rng.integers(1, 7)), None)]
            out.append(("obs", dict({"state": kinds[(ri + p) % 3], "period": p, "ops": ops, "tseed": int(rng.integers(1 << 30)),
                                     "script": [[float(np.round(rng.normal(), 3)), float(np.round(rng.uniform(0.1, 2), 3))] for _ in range(5)]},
                                    **ev_options(rng, obs=True))))
    for i in range(40 if full else 8):
        k = int(rng.integers(2, 5))
        periods = [int(x) for x in rng.integers(1, 6, size=k)]
        if len(set(periods)) == 1:
            periods[0] = periods[0] % 5 + 1
        a, b = ranges[int(rng.integers(len(ranges)))]
        out.append(("multi", {"state": kinds[i % 3], "periods": periods, "scripts": [script_for(rng) for _ in periods],
                              "fit": ("fit", a, b, stop_variants(rng, a, b, False)[-1]), "tseed": int(rng.integers(1 << 30))}))
    combos = [(md, only, init) for md in ("none", "dict", "callable") for only in (False, True) for init in (True, False)]
    for ci, (md, only, init) in enumerate(combos):
        for p in (range(1, 6) if full else [1 + (ci % 5), 1 + ((ci + 2) % 5)]):
            for kind in (kinds if full else [kinds[(ci + p) % 3]]):
                a, b = ranges[int(rng.integers(len(ranges)))]
                fits = [("fit", a, b, stop_variants(rng, a, b, False)[-1])]
                if rng.random() < 0.5:
                    a2, b2 = ranges[int(rng.integers(len(ranges)))]
                    fits.append(("fit", a2, b2, None))
                out.append(("saver", dict({"state": kind, "period": p, "save_initial": init, "md": md, "md_only": only, "fits": fits,
                                           "lg_period": int(rng.integers(1, 6)), "tseed": int(rng.integers(1 << 30))},
                                          **saver_options(rng, init))))
    # the case of the repaired defect: dict metadata on a state with a unitary dictionary, several saves
    fixed = [("saver", {"state": "complex", "period": 1, "save_initial": True, "md": "dict", "md_only": False,
                        "fits": [("fit", 1, 4, None), ("fit", 5, 6, None)], "lg_period": 2, "tseed": 11}),
             ("saver", {"state": "dm", "period": 2, "save_initial": True, "md": "dict", "md_only": False,
                        "fits": [("fit", 1, 6, None)], "lg_period": 3, "tseed": 12}),
             # folder configurations and file-name blanks (always run: these are among the first saver sessions)
             ("saver", {"state": "positive", "period": 2, "save_initial": True, "md": "callable", "md_only": False, "folder": "populated",
                        "folder_arg": "str", "file_name": "ck_{0}.pt", "fits": [("fit", 1, 5, None)], "lg_period": 2, "tseed": 13}),
             ("saver", {"state": "positive", "period": 1, "save_initial": False, "md": "none", "md_only": False, "folder": "nested",
                        "folder_arg": "path", "file_name": "ck_{:03d}.pt", "fits": [("fit", 0, 3, None)], "lg_period": 1, "tseed": 14}),
             ("saver", {"state": "complex", "period": 3, "save_initial": None, "md": "dict", "md_only": True, "folder": "existing",
                        "folder_arg": "slash", "file_name": "ck_{:>5}.pt", "form": 2, "fits": [("fit", 1, 7, None), ("fit", 1, 3, None)],
                        "lg_period": 2, "tseed": 15}),
             ("saver", {"state": "positive", "period": 2, "save_initial": True, "md": "none", "md_only": False, "folder": "fresh",
                        "folder_arg": "str", "file_name": "{}", "form": 1, "fits": [("fit", 1, 4, None)], "lg_period": 4, "tseed": 16}),
             # evaluator option flags: printing together with logging, no log at all, positional / default call forms
             ("metric", {"state": "positive", "period": 2, "ops": [("fit", 1, 6, None), ("clear",), ("fit", 1, 4, None)], "tseed": 17,
                         "script": [0.5, -1.25, 2.0], "probe_before": True, "verbose": True, "log": True, "form": 0}),
             ("metric", {"state": "positive", "period": 1, "ops": [("fit", 1, 3, None)], "tseed": 18,
                         "script": [0.5, -1.25, 2.0], "probe_before": False, "verbose": True, "log": False, "form": 1, "ptype": "np.int64"}),
             ("metric", {"state": "complex", "period": 3, "ops": [("fit", 0, 6, None)], "tseed": 19,
                         "script": [1.0, 2.0], "probe_before": True, "verbose": False, "log": False, "form": 2}),
             ("obs", {"state": "positive", "period": 2, "ops": [("fit", 1, 5, None)], "tseed": 20, "script": [[0.1, 0.5], [0.3, 1.5]],
                      "verbose": True, "log": True, "form": 0}),
             ("obs", {"state": "dm", "period": 1, "ops": [("fit", 1, 3, None)], "tseed": 21, "script": [[0.1, 0.5], [0.3, 1.5]],
                      "verbose": True, "log": False, "form": 1, "ptype": "np.int64"})]
    # histories first (fixed ones, then the random stream), then the earlier fixed cases and the grid
    _NFIXED.clear()
    for kind, _ in FIXED_HISTORIES + fixed:
        _NFIXED[kind] = _NFIXED.get(kind, 0) + 1
    return FIXED_HISTORIES + fixed + history_specs(rng, full) + out


_NFIXED = {}                # number of fixed sessions per kind (they come first within their kind and are never cut by the time budget)


RUNNERS = {"metric": metric_session, "obs": obs_session, "multi": multi_session, "saver": saver_session}

FINDING_NARROW_PERIOD = "F-C17-narrow-int-period"


def narrow_period_cases(ctx):
    """A period given as a NARROW numpy integer (np.uint8 / np.int8: what an integer array of small dtype hands over) in a run whose
    epoch numbers pass the range of that type (epoch 256 / 128: starting_epoch makes that a five-epoch run).  On the unchanged tree
    (NumPy 2 promotion rules) `epoch % period` raises OverflowError there and fit aborts.  This is inside the quantifier (all
    periods, all epoch ranges) but FAILS on the unchanged tree, so it is a finding reported to the integrator: it becomes a demand
    (ctx.require, matched by a known-findings entry `match: {"finding": "F-C17-narrow-int-period"}`) as soon as known_findings.json
    lists that id; until then the outcome is only recorded in the evidence (histogram + extra)."""
    from qucumber.callbacks import MetricEvaluator, Logger, ModelSaver
    active = any(k.get("id") == FINDING_NARROW_PERIOD for k in ctx.known)
    for tname, first in (("uint8", 254), ("int8", 126)):
        p = getattr(np, tname)(2)
        case = {"session": "narrow-int period", "finding": FINDING_NARROW_PERIOD, "period": "np.%s(2)" % tname,
                "starting_epoch": first, "epochs": first + 4}
        s, extra = make_state({"state": "positive", "tseed": 71})
        seen = []
        folder = os.path.join(ctx.scratch, "narrow_%s_%d" % (tname, ctx.evaluations))
        try:
            ev = MetricEvaluator(p, {"m": lambda st, **kw: 1.0})
            lg = Logger(p, logger_fn=seen.append, msg_gen=lambda st, e, **kw: int(e))
            sv = ModelSaver(p, folder, "ck_{}.pt", save_initial=False)
            import io, contextlib
            with contextlib.redirect_stdout(io.StringIO()):
                s.fit(DATA, epochs=first + 4, pos_batch_size=3, neg_batch_size=3, k=1, lr=0.1, starting_epoch=first, callbacks=[ev, lg, sv])
            want = [e for e in range(first, first + 5) if e % 2 == 0]
            ok = [int(e) for e in ev.epochs] == want and seen == want and sorted(os.listdir(folder)) == sorted("ck_%d.pt" % e for e in want)
            detail = {"epochs": [int(e) for e in ev.epochs], "logged": seen, "files": sorted(os.listdir(folder)), "want": want}
        except Exception as e:
            ok, detail = False, repr(e)[:200]
        ctx.case(case)
        if active:
            ctx.require("callbacks with a period given as a narrow numpy integer act at the multiples of the period beyond epoch 127 / 255", ok, case, detail)
        else:
            ctx.count("finding candidate (reported, not yet a demand) %s: %s" % (FINDING_NARROW_PERIOD, "holds" if ok else "FAILS on this tree"))
            if not ok:
                ctx.extra.setdefault("finding_candidates", {})[FINDING_NARROW_PERIOD] = {"case": case, "detail": str(detail)}


def norm_spec(spec):
    """JSON round trip turns tuples into lists; the runners accept both"""
    return json.loads(json.dumps(spec))


def interleave(sp):
    """round-robin over the session kinds, so that every kind of callback is exercised from the start"""
    by = {}
    for kind, spec in sp:
        by.setdefault(kind, []).append((kind, spec))
    order = ["saver", "metric", "obs", "multi"]
    out, i = [], 0
    while any(by.get(k) for k in order):
        for k in order:
            if i < len(by.get(k, [])):
                out.append(by[k][i])
        i += 1
        if all(i >= len(by.get(k, [])) for k in order):
            break
    return out


MIN_PER_KIND = 6         # raised per kind to the number of fixed sessions of that kind (they are never skipped)


def run(ctx):
    t0 = time.time()
    budget = 400 if ctx.thorough else 45
    done, skipped = {}, {}
    all_specs = interleave(specs(ctx))
    nfixed = dict(_NFIXED)
    for kind, spec in all_specs:
        if time.time() - t0 > budget and done.get(kind, 0) >= max(MIN_PER_KIND, nfixed.get(kind, 0) + 5):
            skipped[kind] = skipped.get(kind, 0) + 1
            ctx.count("skipped_time_budget:" + kind)
            continue
        RUNNERS[kind](ctx, dict(norm_spec(spec), kind=kind))
        done[kind] = done.get(kind, 0) + 1
    narrow_period_cases(ctx)
    for kind in RUNNERS:
        ctx.count("sessions_executed:" + kind, done.get(kind, 0))
        if done.get(kind, 0) == 0:
            ctx.disagreements.append({"what": "coverage: no %s session was executed" % kind, "case": {}, "detail": "generator produced none"})
    if skipped:
        note = "time budget reached: sessions skipped per kind %s (executed %s)" % (json.dumps(skipped, sort_keys=True), json.dumps(done, sort_keys=True))
        ctx.extra["skipped_by_time_budget"] = skipped
        if note not in ASSUMPTIONS:
            ASSUMPTIONS.append(note)


def search(ctx, broken, budget):
    """wider sweep when proof or correspondence broke: the thorough generator, until the first oracle failure"""
    t0 = time.time()
    n0 = len(ctx.failures)
    was = ctx.thorough
    ctx.thorough = True
    try:
        for kind, spec in specs(ctx):
            RUNNERS[kind](ctx, dict(norm_spec(spec), kind=kind))
            if len(ctx.failures) > n0:
                return ctx.failures[n0]
            if time.time() - t0 > budget:
                return None
    finally:
        ctx.thorough = was
    return None


def replay(ctx, rec):
    case = rec.get("failing", {}).get("case", {})
    spec = case.get("spec")
    if not spec or "kind" not in spec:
        print("replay: record has no session spec; running the generator instead")
        return run(ctx)
    print("replay of a %s session: %s" % (spec["kind"], json.dumps({k: v for k, v in spec.items() if k != "script"})[:300]))
    RUNNERS[spec["kind"]](ctx, spec)
