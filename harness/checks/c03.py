"""C03 — Training gradients are the exact gradients of the negative log-likelihood.

Observables of the property (anchors.observe_at): the return values of gradient, positive_phase_gradients,
compute_exact_gradients / compute_exact_grads — plus the order in which training writes a flat gradient into the model.

Correspondence (implementation vs the extracted Coq model, coq/model/Grads.v + Rbm.v), PUBLIC observables only:
  gradient (2-D batch, 1-D single-sample form, bases=None form), positive_phase_gradients, compute_exact_gradients,
  PositiveWaveFunction.compute_exact_grads, parameters_to_vector / vector_to_grads layout, np.unique grouping.

Oracle (independent of the code under test; evaluated on the implementation itself):
  * central finite differences with Richardson extrapolation of the data set's negative log-likelihood, the NLL being
    computed from the implementation's OWN psi(space) / rho(space, space) / normalization(space) with dense numpy
    Kronecker rotations (standard X / Y / Z measurement unitaries written down here, not taken from the library),
    for EVERY parameter of EVERY network in the order of nn.Module.parameters() (the live .data entries are
    perturbed in that order), compared with compute_exact_gradients entry by entry;
    mixed states: (1/|D|) [ sum_{all-Z rows} E_lambda(s) - sum_{rotated rows} ln(P_s + 1e-8) ] + ln Z;
  * positive phase = gradient / |batch| = mean of the per-sample (1-D form) gradients, for any row permutation and
    any split of the batch;
  * every public gradient method is callable and they agree with each other (compute_exact_grads alias,
    Positive wrappers ignoring bases, gradient(bases=None) = all-Z path);
  * a second, analytic oracle: the gradient of the Born-rule NLL from an OWN log-domain implementation of the three
    state types (nothing of qucumber), differentiated by torch autograd in complex128 — exact also where finite
    differences are not (improbable outcomes, saturated couplings); a data row whose rotated amplitude is a difference of
    nearly equal numbers (cancellation factor >= 1e5) gives no verdict from it (counted);
  * SIZE regime (run first): same-basis groups of L-1, L, L+1 rows for L in 256 / 512 / 1000 / 1024 / 2048 / 4096 and
    primes above them, rotated and all-Z, every state type, one batch = one group as well as many groups in one batch;
  * NUMERIC regimes (fixed cases first, then in the stream): improbable outcomes (p down to 1e-16, unnormalised far below
    1e-8), a site within eps of a product state, couplings up to 30, rare rows;
  * ARGUMENT regimes: every bases / samples memory layout (Fortran order, column / row strided, negative stride, views of
    larger tables), the SAME 1-D sample tensor / basis objects handed over again, all methods again on the same batch objects.

Recorded only (evidence histogram internal_agree:* / internal_differs:* / internal_unavailable:*, never a verdict):
  the internal helpers effective_energy_gradient, gamma_grad / pi_grad (expand=True, the only form the library uses),
  am_grads, ph_grads, rotated_gradient vs the model's rendering of them, and d rho = rho * am_grads / ph_grads.
  A rewrite that moves a sign or factor between these helpers without changing a public value leaves the check silent.
  The 1-D form handed to positive_phase_gradients / compute_exact_gradients is recorded too (see one_d_public_forms)."""
import itertools, math, time
import numpy as np
import gen

RULE = ("state types positive / complex / density-matrix; nv 1..3 (quick) / 1..4 (thorough), nh != nv in most shapes, "
        "na != nv for mixed states, all biases non-zero (aux bias of the phase net = 0 as documented); mixed-state cases are "
        "generated first and interleaved with the other state types; data sets: every one of the 3^n basis strings "
        "(n <= 3 quick, <= 4 thorough) with 1-3 outcomes of probability >= 1e-4 each, plus mixed batches with repeated bases, all-Z rows, a random "
        "row permutation and a random split; a case is (state type, shape, parameter draw, data set); "
        "non-trivial := >= 2 distinct bases incl. one containing Y, all biases non-zero.  "
        "Run FIRST (no time budget): large same-basis groups (group sizes L-1, L, L+1 for L in 256/512/1000/1024/2048/4096 and the primes "
        "263/521/1009/1031/2053/4099, rotated and all-Z groups, nv 1..3, one batch = one group of 1025 rows and 20+ groups in one batch; "
        "non-trivial := a rotated group of > 255 rows) and numeric regimes (amplitude visible bias -20..-30 with data rows of probability "
        "1e-16..1e-4; one site within 1e-5..1e-1 of |+> / |+i>; half of the weights of magnitude 6..30); the stream starts with nv = 3 for "
        "every state type and interleaves one numeric-regime case after every three ordinary ones")
ASSUMPTIONS = ["finite differences (steps 1e-4 / 5e-5, Richardson) resolve the NLL derivative to ~1e-8 absolute; a case is "
               "failed only if three step pairs all disagree with the returned gradient by more than 1e-6 * max(1, |g|_max)",
               "measurement unitaries of the oracle: X = H, Y = rows <+i|, <-i|, Z = identity; site 0 is the most significant bit",
               "analytic oracle (own log-domain NLL + torch autograd): a returned gradient is failed when an entry differs by more than "
               "1e-7 * max(1, |g|_max) (unchanged tree: <= 1e-9 in every regime generated here); data sets containing a row whose rotated "
               "amplitude / probability is a sum with cancellation factor sum|terms| / |sum| >= 1e5 get no verdict from it, and none from "
               "finite differences when the factor is >= 50 (regime cases) or an outcome has probability < 1e-7 (histories)",
               "large same-basis groups: identical rows have identical per-sample gradients, so the sum over the rows is taken as "
               "sum over distinct (basis, outcome) of count * gradient(1-D form); the NLL likewise from the counts",
               "memory layouts / repeated calls with the same argument objects: required is only that the call succeeds and returns the "
               "gradient of the values the caller holds; whether an argument's shape / strides were altered is recorded, not required",
               "sample tensors of dtype other than double raise on the unchanged tree as soon as a basis is rotated: recorded only"]

L2N = {"X": 0, "Y": 1, "Z": 2}
SQ = 1.0 / math.sqrt(2.0)
U1 = {"X": np.array([[1, 1], [1, -1]], dtype=complex) * SQ,
      "Y": np.array([[1, -1j], [1, 1j]], dtype=complex) * SQ,
      "Z": np.eye(2, dtype=complex)}


def kron_u(basis):
    U = np.array([[1.0 + 0j]])
    for ch in basis:
        U = np.kron(U, U1[ch])
    return U


def idx_of(rows):
    rows = np.atleast_2d(np.asarray(rows))
    n = rows.shape[1]
    return (rows @ (2 ** np.arange(n - 1, -1, -1))).astype(int)


def bnum(bases):
    return [[L2N[ch] for ch in b] for b in bases]


# --------------------------------------------------------------------------- states
def build(kind, nv, nh, na, am, ph):
    from qucumber.nn_states import PositiveWaveFunction, ComplexWaveFunction, DensityMatrix
    A = [np.asarray(x, dtype=float) for x in am]
    P = [np.asarray(x, dtype=float) for x in ph] if ph is not None else None
    if kind == "positive":
        s = PositiveWaveFunction(nv, nh, gpu=False)
        gen.set_brbm(s.rbm_am, *A)
    elif kind == "complex":
        s = ComplexWaveFunction(nv, nh, gpu=False)
        gen.set_brbm(s.rbm_am, *A)
        gen.set_brbm(s.rbm_ph, *P)
    else:
        s = DensityMatrix(nv, nh, na, gpu=False)
        gen.set_prbm(s.rbm_am, *A)
        gen.set_prbm(s.rbm_ph, *P)
    return s


def moderate(ctx, shape):
    """parameter draw: the gen.py mixture, magnitudes capped so that the NLL stays well inside double range"""
    x = gen.rand_values(ctx, shape)
    return np.clip(x, -6.0, 6.0)


def draw_params(ctx, kind, nv, nh, na):
    def bnet():
        return [moderate(ctx, (nh, nv)), gen.nonzero_bias(ctx, nv), gen.nonzero_bias(ctx, nh)]

    def pnet(phase):
        d = np.zeros(na) if phase else gen.nonzero_bias(ctx, na)
        return [moderate(ctx, (nh, nv)), moderate(ctx, (na, nv)), gen.nonzero_bias(ctx, nv), gen.nonzero_bias(ctx, nh), d]
    if kind == "positive":
        return bnet(), None
    if kind == "complex":
        return bnet(), bnet()
    return pnet(False), pnet(True)


# --------------------------------------------------------------------------- the NLL from the implementation's own state
def state_arrays(s, kind, space):
    if kind == "dm":
        r = s.rho(space, space).numpy()
        return r[0] + 1j * r[1], float(s.normalization(space))
    p = s.psi(space).numpy()
    return p[0] + 1j * p[1], float(s.normalization(space))


def outcome_probs(s, kind, space, basis, Ucache):
    arr, Z = state_arrays(s, kind, space)
    U = Ucache.setdefault(basis, kron_u(basis))
    if kind == "dm":
        return np.real(np.einsum("ij,jk,ik->i", U, arr, U.conj())) / Z
    return np.abs(U @ arr) ** 2 / Z


def make_nll(s, kind, space, bases, samples, Ucache):
    """returns f() = NLL of the data set computed from psi / rho / normalization of the live state"""
    groups = {}
    for b, row in zip(bases, samples):
        groups.setdefault(b, []).append(int(idx_of(row)[0]))
    groups = {b: np.array(ix) for b, ix in groups.items()}
    for b in groups:
        Ucache.setdefault(b, kron_u(b))
    N = float(len(bases))

    def f():
        arr, Z = state_arrays(s, kind, space)
        tot = 0.0
        for b, ix in groups.items():
            U = Ucache[b]
            if kind == "dm":
                if set(b) == {"Z"}:
                    tot += float(np.sum(-np.log(np.real(np.diagonal(arr))[ix])))      # E_lambda(s) = -ln rho(s,s)
                else:
                    P = np.real(np.einsum("ij,jk,ik->i", U, arr, U.conj()))
                    tot -= float(np.sum(np.log(P[ix] + 1e-8)))
            else:
                a = U @ arr
                tot -= float(np.sum(np.log(np.abs(a[ix]) ** 2)))
        return tot / N + math.log(Z)
    return f


def fd_gradients(s, f, h):
    """Richardson-extrapolated central differences of f for every parameter, in parameters() order, per network."""
    out = []
    for net in s.networks:
        g = []
        for p in getattr(s, net).parameters():
            fl = p.data.view(-1)
            for k in range(fl.numel()):
                x0 = fl[k].item()
                vals = []
                for x in (x0 + h, x0 - h, x0 + h / 2, x0 - h / 2):
                    fl[k] = x
                    vals.append(f())
                fl[k] = x0
                d1 = (vals[0] - vals[1]) / (2 * h)
                d2 = (vals[2] - vals[3]) / h
                g.append((4 * d2 - d1) / 3)
        out.append(np.array(g))
    return out


def fd_matches(s, f, grads, tol=1e-6):
    """True iff for some step pair every entry of every network's gradient matches the finite difference."""
    worst = None
    for h in (1e-4, 1e-3, 2e-5):
        fd = fd_gradients(s, f, h)
        ok = True
        det = []
        for net, a, g in zip(s.networks, fd, grads):
            g = np.asarray(g, dtype=float)
            if a.shape != g.shape:
                return False, {"net": net, "shape_fd": list(a.shape), "shape_grad": list(g.shape)}
            lim = tol * max(1.0, float(np.max(np.abs(g))) if g.size else 1.0)
            bad = np.where(~(np.abs(a - g) <= lim))[0]
            if bad.size:
                ok = False
                k = int(bad[0])
                det.append({"net": net, "param_index": k, "finite_difference": float(a[k]), "returned": float(g[k]), "h": h,
                            "n_bad": int(bad.size)})
        if ok:
            return True, None
        worst = worst or det
    return False, worst


def flat_coords(s):
    """every scalar parameter as (network index, parameter tensor, offset), in parameters() order"""
    out = []
    for ni, net in enumerate(s.networks):
        k = 0
        for p in getattr(s, net).parameters():
            for e in range(p.numel()):
                out.append((ni, k, p, e))
                k += 1
    return out


def fd_spot_matches(s, f, grads, coords, tol=1e-6):
    """like fd_matches, for a few coordinates (ni, k, p, e) only"""
    worst = None
    for h in (1e-4, 1e-3, 2e-5):
        det = []
        for (ni, k, p, e) in coords:
            fl = p.data.view(-1)
            x0 = fl[e].item()
            vals = []
            for x in (x0 + h, x0 - h, x0 + h / 2, x0 - h / 2):
                fl[e] = x
                vals.append(f())
            fl[e] = x0
            d = (4 * (vals[2] - vals[3]) / h - (vals[0] - vals[1]) / (2 * h)) / 3
            g = np.asarray(grads[ni], dtype=float)
            if k >= g.size:
                return False, {"net": s.networks[ni], "param_index": k, "returned_size": int(g.size)}
            lim = tol * max(1.0, float(np.max(np.abs(g))))
            if not abs(d - g[k]) <= lim:
                det.append({"net": s.networks[ni], "param_index": k, "finite_difference": float(d), "returned": float(g[k]), "h": h})
        if not det:
            return True, None
        worst = worst or det
    return False, worst


# --------------------------------------------------------------------------- data sets
def basis_list(ctx, nv):
    lim = 4 if ctx.thorough else 3
    allb = gen.all_bases(nv)
    if nv <= lim:
        return allb
    k = 24 if ctx.thorough else 7
    pick = list(ctx.rng.choice(len(allb), size=k, replace=False))
    out = [allb[i] for i in pick]
    z = "Z" * nv
    if z not in out:
        out[0] = z
    if not any("Y" in b for b in out):
        out[-1] = "Y" * nv
    return out


def draw_dataset(ctx, s, kind, nv, space, Ucache):
    """rows (basis string, outcome) covering the basis list, repeated bases, all-Z rows; randomly permuted"""
    bl = basis_list(ctx, nv) if kind != "positive" else ["Z" * nv]
    sp = space.numpy()
    rows = []
    for b in bl:
        p = outcome_probs(s, kind, space, b, Ucache)
        good = np.where(p >= 1e-4)[0]
        if good.size == 0:
            continue
        reps = 1 + int(ctx.rng.integers(0, 3 if len(bl) <= 27 else 2)) + (2 if set(b) == {"Z"} else 0)
        for _ in range(reps):
            rows.append((b, sp[int(ctx.rng.choice(good))].tolist()))
    perm = ctx.rng.permutation(len(rows))
    rows = [rows[i] for i in perm]
    return [r[0] for r in rows], [r[1] for r in rows]


def np_bases(bases):
    return np.array([list(b) for b in bases])


def tlist(g):
    return [np.asarray(x.detach().numpy() if hasattr(x, "detach") else x, dtype=float) for x in g]


# --------------------------------------------------------------------------- oracle on one (state, data set)
def snapshot(x):
    """shape / strides / values of a tensor or array argument"""
    if hasattr(x, "detach"):
        return ("tensor", tuple(x.shape), tuple(x.stride()), str(x.dtype), x.detach().clone().numpy().tolist())
    if isinstance(x, np.ndarray):
        return ("ndarray", x.shape, x.strides, str(x.dtype), x.tolist())
    return ("other", repr(x))


def analytic_relation(ctx, what, kind, am, ph, nv, groups, EX, case):
    """compute_exact_gradients against the analytic log-domain oracle; ill-conditioned data sets are only counted"""
    try:
        good, det, err = analytic_matches(kind, am, ph, nv, groups, EX)
    except Exception as e:                       # the oracle itself failed (never the library's fault): count, no verdict
        ctx.count("analytic_oracle_error:" + type(e).__name__)
        return None
    if good is None:
        ctx.count("analytic_skipped_cancellation")
        return None
    ctx.count("analytic_compared")
    if good and err == err:
        ctx.extra["analytic_max_scaled_error"] = max(ctx.extra.get("analytic_max_scaled_error", 0.0), err)
    ctx.require(what, good, case, det)
    return good


def oracle_case(ctx, s, kind, space, bases, samples, case, full_fd=True, am=None, ph=None):
    import torch
    smp = torch.tensor(samples, dtype=torch.double)
    B = len(bases)
    nb = np_bases(bases)
    Ucache = {}
    snap0 = (snapshot(smp), snapshot(nb), snapshot(space))
    kw = {} if kind == "positive" else {"bases": nb}
    kwb = {} if kind == "positive" else {"bases_batch": nb}
    ok, G = ctx.call("gradient", case, lambda: tlist(s.gradient(smp, **kw)))
    ok2, PP = ctx.call("positive_phase_gradients", case, lambda: tlist(s.positive_phase_gradients(smp, **kwb)))
    ok3, EX = ctx.call("compute_exact_gradients", case, lambda: tlist(s.compute_exact_gradients(smp, space, **kwb)))
    if not (ok and ok2 and ok3):
        return None
    nnet = len(s.networks)
    ctx.require("gradient returns one vector per network", len(G) == nnet and len(PP) == nnet and len(EX) == nnet, case,
                [len(G), len(PP), len(EX)])
    npar = [getattr(s, net).num_pars for net in s.networks]
    ctx.require("gradient vectors have num_pars entries", [int(g.size) for g in G] == npar and [int(g.size) for g in EX] == npar,
                case, {"sizes": [int(g.size) for g in G], "num_pars": npar})
    scale = [max(1.0, float(np.max(np.abs(g)))) for g in G]
    # -- finite differences of the NLL, every parameter of every network
    if full_fd:
        f = make_nll(s, kind, space, bases, samples, Ucache)
        good, det = fd_matches(s, f, EX)
        ctx.require("compute_exact_gradients == finite-difference gradient of the NLL", good, case, det)
    # -- the analytic gradient of the NLL (own log-domain implementation of the state; also valid for improbable outcomes)
    if am is not None:
        analytic_relation(ctx, "compute_exact_gradients == analytic gradient of the NLL (independent log-domain implementation)",
                          kind, am, ph, int(smp.shape[1]), rows_to_groups(bases, samples, int(smp.shape[1])), EX, case)
    # -- positive phase = gradient / |batch|
    for k in range(nnet):
        ctx.require("positive_phase_gradients == gradient / |batch|",
                    bool(np.allclose(PP[k], G[k] / B, rtol=1e-9, atol=1e-11 * scale[k])), case, {"net": s.networks[k]})
    # -- per-sample (1-D call form) gradients sum to the batch gradient
    acc = [np.zeros_like(g) for g in G]
    ok1 = True
    for i in range(B):
        if kind == "positive":
            okk, g1 = ctx.call("gradient 1-D form", case, lambda: tlist(s.gradient(smp[i])))
        else:
            okk, g1 = ctx.call("gradient 1-D form", case, lambda: tlist(s.gradient(smp[i], bases=nb[i])))
        if not okk:
            ok1 = False
            break
        for k in range(nnet):
            acc[k] = acc[k] + g1[k]
    if ok1:
        for k in range(nnet):
            ctx.require("gradient(batch) == sum of per-sample gradients (1-D form)",
                        bool(np.allclose(acc[k], G[k], rtol=1e-8, atol=1e-9 * scale[k])), case,
                        {"net": s.networks[k], "max_diff": float(np.max(np.abs(acc[k] - G[k])))})
            ctx.require("positive_phase_gradients == mean of per-sample gradients",
                        bool(np.allclose(acc[k] / B, PP[k], rtol=1e-8, atol=1e-9 * scale[k])), case, {"net": s.networks[k]})
    # -- any row order, any split
    perm = ctx.rng.permutation(B)
    okp, Gp = ctx.call("gradient (permuted rows)", case, lambda: tlist(s.gradient(smp[perm], **({} if kind == "positive" else {"bases": nb[perm]}))))
    if okp:
        for k in range(nnet):
            ctx.require("gradient is invariant under row permutation",
                        bool(np.allclose(Gp[k], G[k], rtol=1e-8, atol=1e-9 * scale[k])), case, {"net": s.networks[k], "perm": perm.tolist()})
    if B >= 2:
        cut = int(ctx.rng.integers(1, B))
        oka, Ga = ctx.call("gradient (first part)", case, lambda: tlist(s.gradient(smp[:cut], **({} if kind == "positive" else {"bases": nb[:cut]}))))
        okb, Gb = ctx.call("gradient (second part)", case, lambda: tlist(s.gradient(smp[cut:], **({} if kind == "positive" else {"bases": nb[cut:]}))))
        if oka and okb:
            for k in range(nnet):
                ctx.require("gradient(batch) == gradient(part 1) + gradient(part 2)",
                            bool(np.allclose(Ga[k] + Gb[k], G[k], rtol=1e-8, atol=1e-9 * scale[k])), case, {"net": s.networks[k], "cut": cut})
    # -- public methods agree
    if kind == "positive":
        oka, AL = ctx.call("compute_exact_grads", case, lambda: tlist(s.compute_exact_grads(smp, space)))
        if oka:
            ctx.require("compute_exact_grads == compute_exact_gradients",
                        len(AL) == 1 and bool(np.allclose(AL[0], EX[0], rtol=1e-9, atol=1e-11 * scale[0])), case)
        okb, Gb = ctx.call("gradient with ignored bases argument", case, lambda: tlist(s.gradient(smp, nb)))
        if okb:
            ctx.require("Positive.gradient ignores bases", bool(np.allclose(Gb[0], G[0], rtol=1e-9, atol=1e-11 * scale[0])), case)
        okc, Ec = ctx.call("compute_exact_gradients with bases argument", case,
                           lambda: tlist(s.compute_exact_gradients(smp, space, bases_batch=nb)))
        if okc:
            ctx.require("Positive.compute_exact_gradients ignores bases", bool(np.allclose(Ec[0], EX[0], rtol=1e-9, atol=1e-11 * scale[0])), case)
    bases_call_forms(ctx, s, kind, space, smp, bases, nb, case, G, PP, EX, scale)
    same_object_calls(ctx, s, kind, space, smp, bases, nb, case, G, PP, EX, scale, snap0)
    one_d_public_forms(ctx, s, kind, space, smp, nb, case)
    return G, PP, EX


def same_object_calls(ctx, s, kind, space, smp, bases, nb, case, G, PP, EX, scale, snap0):
    """Histories on the caller's OWN argument objects.  A data loop hands the same tensors / arrays to the gradient
    methods again and again; the property makes every such call return the gradient of the data the caller holds.
      * 1-D form: ONE sample tensor object (a clone, not a view of the batch) and ONE basis object, called twice, then
        with a second basis; each call must be callable and return the per-sample gradient of the ORIGINAL row;
      * batch form: after all the calls above, the same `smp` / `nb` / `space` objects once more through all three public methods;
    shape / stride / value changes of the arguments are recorded in the evidence histogram (args_after_calls:*) — the
    requirement itself is only what the property states: the repeated call is callable and agrees."""
    B = len(bases)
    sc = max(scale)
    pos = kind == "positive"
    rows = list(range(B))
    rot = [i for i in rows if set(bases[i]) != {"Z"}]
    i = (rot or rows)[int(ctx.rng.integers(0, len(rot or rows)))]
    others = [j for j in rows if bases[j] != bases[i]]
    row = smp[i].clone()                                        # the caller's own 1-D tensor
    bobj = nb[i].copy()
    b2 = nb[others[int(ctx.rng.integers(0, len(others)))]].copy() if others else None
    r0, bsnap = snapshot(row), snapshot(bobj)
    ref = None
    for step in ("first call", "second call with the same sample tensor and basis objects", "third call: same sample tensor, another basis"):
        barg = bobj if not step.startswith("third") else b2
        if barg is None:
            continue
        c2 = dict(case, row=i, history="gradient 1-D form: " + step, basis_of_call="".join(barg))
        okk, g = ctx.call("gradient 1-D form (%s)" % step, c2, lambda: tlist(s.gradient(row) if pos else s.gradient(row, bases=barg)))
        if not okk:
            break
        okf, fresh = ctx.call("gradient 1-D form", c2, lambda: tlist(s.gradient(smp[i].clone()) if pos else s.gradient(smp[i].clone(), bases=barg.copy())))
        if okf:
            ctx.require("gradient 1-D form called again with the same tensor object == per-sample gradient of the caller's row",
                        close_all([np.broadcast_to(x, np.shape(y)) for x, y in zip(g, fresh)], fresh, sc), c2,
                        {"row_shape_now": list(row.shape), "row_now": row.reshape(-1).tolist(), "row_before": r0[4]})
        ctx.count("args_after_calls:1d_sample:" + ("unchanged" if snapshot(row) == r0 else "changed"))
        ctx.count("args_after_calls:1d_basis:" + ("unchanged" if snapshot(bobj) == bsnap else "changed"))
    # ---- batch form, same objects once more
    kwa = {} if pos else {"bases": nb}
    kwb = {} if pos else {"bases_batch": nb}
    c2 = dict(case, history="all public gradient methods once more with the same sample tensor / bases array / space objects")
    for name, fn, want in (("gradient", lambda: s.gradient(smp, **kwa), G),
                           ("positive_phase_gradients", lambda: s.positive_phase_gradients(smp, **kwb), PP),
                           ("compute_exact_gradients", lambda: s.compute_exact_gradients(smp, space, **kwb), EX)):
        okk, g = ctx.call(name + " (same argument objects again)", c2, lambda: tlist(fn()))
        if okk:
            ctx.require(name + " called again with the same argument objects returns the same gradient", close_all(g, want, sc), c2)
    now = (snapshot(smp), snapshot(nb), snapshot(space))
    for nm, a, b in zip(("samples", "bases", "space"), snap0, now):
        ctx.count("args_after_calls:%s:%s" % (nm, "unchanged" if a == b else "changed"))


LIST_OF_STRINGS_MATCH = {"call": "gradient", "bases_form": "list of basis strings"}


def close_all(A, Bv, sc):
    return len(A) == len(Bv) and all(np.shape(a) == np.shape(b) and np.allclose(a, b, rtol=1e-9, atol=1e-11 * sc) for a, b in zip(A, Bv))


def bases_call_forms(ctx, s, kind, space, smp, bases, nb, case, G, PP, EX, scale):
    """The same batch / the same single row with the bases handed over in every encoding the docstring allows
    (numpy.ndarray or list[str]): str / list / tuple / numpy row for the 1-D form; numpy matrix / list of lists /
    tuple of tuples / list of tuples for a batch; and the reference-basis forms without bases (2-D and 1-D) for EVERY state
    type.  Each must be callable and return the value of the canonical form."""
    B = len(bases)
    sc = max(scale)
    rows = list(range(B))
    rot = [i for i in rows if set(bases[i]) != {"Z"}]
    withy = [i for i in rot if "Y" in bases[i]]
    allz = [i for i in rows if set(bases[i]) == {"Z"}]
    picks = []
    for pool in (withy or rot, allz):
        if pool:
            picks.append(pool[int(ctx.rng.integers(0, len(pool)))])
    # ---- 1-D form, reference basis, no bases argument (all state types)
    i0 = (allz or rows)[0]
    ok1, g1 = ctx.call("gradient 1-D form without bases", case, lambda: tlist(s.gradient(smp[i0])))
    ok2, g2 = ctx.call("gradient batch of one row without bases", case, lambda: tlist(s.gradient(smp[i0:i0 + 1])))
    if ok1 and ok2:
        ctx.require("gradient(v) 1-D without bases == gradient of the batch of one row without bases", close_all(g1, g2, sc), case,
                    {"row": i0, "shapes": [list(np.shape(x)) for x in g1]})
    if kind == "positive":
        return
    # ---- 1-D form: encodings of the basis
    for i in picks:
        b = bases[i]
        okr, ref = ctx.call("gradient 1-D form", case, lambda: tlist(s.gradient(smp[i], bases=nb[i])))
        if not okr:
            continue
        for name, enc in (("str", b), ("list of letters", list(b)), ("tuple of letters", tuple(b)), ("numpy row", np.array(list(b)))):
            ctx.count("bases_form_1d:" + name)
            c2 = dict(case, bases_form=name, row=i)
            okk, g = ctx.call("gradient 1-D form, bases given as " + name, c2, lambda: tlist(s.gradient(smp[i], bases=enc)))
            if okk:
                ctx.require("gradient 1-D form does not depend on the encoding of the basis", close_all(g, ref, sc), c2, {"basis": b})
    nvv = nb.shape[1]
    full_nb, full_smp, full_B, full_res, full_case, full_bases = nb, smp, B, (G, PP, EX), case, bases
    if not ctx.thorough and B > 6:
        # quick tier: a sub-batch of 6 rows (a rotated one with Y and an all-Z one among them) carries the layouts; the
        # cost of a gradient call grows with the number of distinct bases, the layout handling does not depend on it
        keep = list(dict.fromkeys(picks + [int(x) for x in ctx.rng.permutation(B)]))[:6]
        nb, smp, B, bases = full_nb[keep].copy(), full_smp[keep].clone(), len(keep), [full_bases[i] for i in keep]
        okg, Gs = ctx.call("gradient", dict(case, rows_used=keep), lambda: tlist(s.gradient(smp, bases=nb)))
        okp, PPs = ctx.call("positive_phase_gradients", dict(case, rows_used=keep), lambda: tlist(s.positive_phase_gradients(smp, bases_batch=nb)))
        oke, EXs = ctx.call("compute_exact_gradients", dict(case, rows_used=keep), lambda: tlist(s.compute_exact_gradients(smp, space, bases_batch=nb)))
        if not (okg and okp and oke):
            return
        case = dict(case, rows_used=keep)
        G, PP, EX = Gs, PPs, EXs
        picks = list(range(min(2, len(picks))))             # picks were put first
    # ---- batched form: encodings of the bases, all three public methods
    forms = (("list of lists", [list(b) for b in bases]), ("tuple of tuples", tuple(tuple(b) for b in bases)),
             ("list of tuples", [tuple(b) for b in bases]), ("numpy matrix (fresh copy)", np.array([list(b) for b in bases])))
    for fi, (name, enc) in enumerate(forms):
        ctx.count("bases_form_2d:" + name)
        c2 = dict(case, bases_form=name)
        okk, g = ctx.call("gradient, bases given as " + name, c2, lambda: tlist(s.gradient(smp, bases=enc)))
        if okk:
            ctx.require("gradient does not depend on the encoding of the bases", close_all(g, G, sc), c2)
        if fi != ctx.evaluations % len(forms) and not ctx.thorough:      # quick tier: the other two methods take turns over the forms
            continue
        okk, g = ctx.call("positive_phase_gradients, bases given as " + name, c2, lambda: tlist(s.positive_phase_gradients(smp, bases_batch=enc)))
        if okk:
            ctx.require("positive_phase_gradients does not depend on the encoding of the bases", close_all(g, PP, sc), c2)
        okk, g = ctx.call("compute_exact_gradients, bases given as " + name, c2, lambda: tlist(s.compute_exact_gradients(smp, space, bases_batch=enc)))
        if okk:
            ctx.require("compute_exact_gradients does not depend on the encoding of the bases", close_all(g, EX, sc), c2)
    # ---- memory layouts: numpy.ndarray / torch.Tensor are the documented types, no layout is prescribed.  The same VALUES as
    #      Fortran-order / column-strided / row-strided / negative-stride arrays and as strided views of larger tensors.
    import torch
    nvv = nb.shape[1]
    wide = np.full((B, 2 * nvv), "X", dtype=nb.dtype); wide[:, ::2] = nb
    tall = np.full((2 * B, nvv), "Y", dtype=nb.dtype); tall[::2] = nb
    rev = nb[::-1].copy()
    wide_t = torch.full((B, 2 * nvv), 0.5, dtype=smp.dtype); wide_t[:, ::2] = smp
    tall_t = torch.full((2 * B, nvv), 0.5, dtype=smp.dtype); tall_t[::2] = smp
    layouts = (("bases: Fortran-order array", np.asfortranarray(nb), smp),
               ("bases: every second column of a wider table", wide[:, ::2], smp),
               ("bases: every second row of a taller table", tall[::2], smp),
               ("bases: transposed copy, transposed back", nb.T.copy().T, smp),
               ("bases: negative row stride", rev[::-1], smp),
               ("samples: every second column of a wider tensor", nb, wide_t[:, ::2]),
               ("samples: every second row of a taller tensor", nb, tall_t[::2]),
               ("samples: column-major storage", nb, smp.t().contiguous().t()),
               ("samples and bases: strided views", wide[:, ::2], wide_t[:, ::2]))
    for li, (name, barr, sten) in enumerate(layouts):
        ctx.count("layout:" + name)
        c2 = dict(case, layout=name, bases_strides=list(barr.strides), samples_strides=list(sten.stride()))
        okk, g = ctx.call("gradient, " + name, c2, lambda: tlist(s.gradient(sten, bases=barr)))
        if okk:
            ctx.require("gradient does not depend on the memory layout of samples / bases", close_all(g, G, sc), c2)
        if li != (ctx.evaluations + 1) % len(layouts) and not ctx.thorough:
            continue
        okk, g = ctx.call("positive_phase_gradients, " + name, c2, lambda: tlist(s.positive_phase_gradients(sten, bases_batch=barr)))
        if okk:
            ctx.require("positive_phase_gradients does not depend on the memory layout of samples / bases", close_all(g, PP, sc), c2)
        okk, g = ctx.call("compute_exact_gradients, " + name, c2, lambda: tlist(s.compute_exact_gradients(sten, space, bases_batch=barr)))
        if okk:
            ctx.require("compute_exact_gradients does not depend on the memory layout of samples / bases", close_all(g, EX, sc), c2)
    for i in picks[:1]:                                   # 1-D form: a strided sample row and a strided basis row
        okr, ref = ctx.call("gradient 1-D form", case, lambda: tlist(s.gradient(smp[i], bases=nb[i])))
        if okr:
            for name, brow, srow in (("1-D: basis row of a Fortran-order array", np.asfortranarray(nb)[i], smp[i]),
                                     ("1-D: every second entry of a longer basis row", wide[i, ::2], smp[i]),
                                     ("1-D: every second entry of a longer sample row", nb[i], wide_t[i, ::2]),
                                     ("1-D: sample column of the transposed batch", nb[i], smp.t().contiguous()[:, i])):
                ctx.count("layout:" + name)
                c2 = dict(case, layout=name, row=i)
                okk, g = ctx.call("gradient 1-D form, " + name, c2, lambda: tlist(s.gradient(srow, bases=brow)))
                if okk:
                    ctx.require("gradient 1-D form does not depend on the memory layout of the sample / basis", close_all(g, ref, sc), c2)
    nb, smp, B, (G, PP, EX), case, bases = full_nb, full_smp, full_B, full_res, full_case, full_bases
    # ---- a batch given as a list of whole basis strings (["XY", "ZZ", ...]): recorded; required only when a known-findings
    #      entry matching LIST_OF_STRINGS_MATCH is open (on /repo this form raises IndexError — reported to the integrator)
    try:
        g = tlist(s.gradient(smp, bases=list(bases)))
        good = close_all(g, G, sc)
        ctx.count("bases_form_2d:list of basis strings:" + ("agrees" if good else "differs"))
    except Exception as e:
        good = False
        ctx.count("bases_form_2d:list of basis strings:raised_" + type(e).__name__)
    if any(k.get("status") == "open" and all(k.get("match", {}).get(a) == b for a, b in LIST_OF_STRINGS_MATCH.items()) for k in ctx.known):
        ctx.require("gradient accepts a batch of bases given as a list of basis strings", good, dict(case, **LIST_OF_STRINGS_MATCH))
    # ---- other dtypes of the sample tensor: recorded only (the property does not fix a dtype; rotated bases need double on /repo)
    import torch
    for dt, nm in ((torch.float32, "float32"), (torch.int64, "int64")):
        try:
            g = tlist(s.gradient(smp.to(dt), bases=nb))
            ctx.count("samples_dtype:%s:%s" % (nm, "agrees" if close_all(g, G, sc) else "differs"))
        except Exception as e:
            ctx.count("samples_dtype:%s:raised_%s" % (nm, type(e).__name__))


ONE_D_MATCH = {"call": "positive_phase_gradients", "form": "1-D"}


def one_d_public_forms(ctx, s, kind, space, smp, nb, case):
    """1-D single-sample form handed to positive_phase_gradients / compute_exact_gradients.
    The property's quantifier names the 1-D form for the per-sample gradient (`gradient`, required above); for the two
    batch methods the docstrings ask for a batch.  On /repo they divide by samples.shape[0] = num_visible (audit b, M2).
    The outcome is recorded in the evidence histogram; it is turned into a requirement (reported as KNOWN-FINDING) exactly
    when /verif/known_findings.json carries an open C03 entry whose match contains ONE_D_MATCH."""
    i = int(ctx.rng.integers(0, smp.shape[0]))
    nv = int(smp.shape[1])
    try:
        if kind == "positive":
            g1 = tlist(s.gradient(smp[i]))
            p1 = tlist(s.positive_phase_gradients(smp[i]))
            e1 = tlist(s.compute_exact_gradients(smp[i], space))
            eb = tlist(s.compute_exact_gradients(smp[i:i + 1], space))
        else:
            g1 = tlist(s.gradient(smp[i], bases=nb[i]))
            p1 = tlist(s.positive_phase_gradients(smp[i], bases_batch=nb[i]))
            e1 = tlist(s.compute_exact_gradients(smp[i], space, bases_batch=nb[i]))
            eb = tlist(s.compute_exact_gradients(smp[i:i + 1], space, bases_batch=nb[i:i + 1]))
    except Exception as e:
        ctx.count("1d_batch_methods:raised_" + type(e).__name__)
        return
    sc = max(1.0, max(float(np.max(np.abs(g))) for g in g1))
    same = all(np.allclose(a, b, rtol=1e-9, atol=1e-11 * sc) for a, b in zip(p1, g1))
    by_nv = all(np.allclose(np.asarray(a) * nv, b, rtol=1e-9, atol=1e-11 * sc) for a, b in zip(p1, g1))
    exact_same = all(np.allclose(a, b, rtol=1e-9, atol=1e-11 * sc) for a, b in zip(e1, eb))
    ctx.count("1d_positive_phase:" + ("equals_per_sample_gradient" if same else "divides_by_num_visible" if by_nv else "other"))
    ctx.count("1d_compute_exact_gradients:" + ("equals_batch_of_one" if exact_same else "differs_from_batch_of_one"))
    if any(k.get("status") == "open" and all(k.get("match", {}).get(a) == b for a, b in ONE_D_MATCH.items()) for k in ctx.known):
        c2 = dict(case, **ONE_D_MATCH)
        ctx.require("1-D positive_phase_gradients == per-sample gradient (batch of one row)", same, c2,
                    {"row": i, "num_visible": nv, "divides_by_num_visible": by_nv})
        ctx.require("1-D compute_exact_gradients == compute_exact_gradients of the batch of one row", exact_same, c2, {"row": i})


# --------------------------------------------------------------------------- diagnostics on internal helpers
# am_grads / ph_grads / pi_grad / gamma_grad / rotated_gradient / effective_energy_gradient are NOT observables of the
# property (observe_at = gradient, positive_phase_gradients, compute_exact_gradients / compute_exact_grads).  A rewrite
# that moves a sign or a factor between them, or deletes a call form the library never uses, leaves every public value
# unchanged and must leave this check silent.  They are therefore only *recorded*: agreement with the model's rendering
# of today's internals goes to the evidence histogram (internal_agree:* / internal_differs:* / internal_unavailable:*)
# and the first few differences to coverage.internal_diagnostics; nothing here can produce a VIOLATION.
def diag(ctx, name, impl, model, **tol):
    import common
    try:
        ok, detail = common.close(impl, model, **tol)
    except Exception as e:                                    # shape the model does not know, etc.
        ok, detail = False, repr(e)[:200]
    ctx.count(("internal_agree:" if ok else "internal_differs:") + name)
    if not ok:
        lst = ctx.extra.setdefault("internal_diagnostics", [])
        if len(lst) < 10:
            lst.append({"what": name, "detail": str(detail)[:300]})
    return ok


def internal(ctx, name, fn):
    """call an internal helper; an exception (e.g. the helper or a call form was removed) is only counted"""
    try:
        return True, fn()
    except Exception as e:
        ctx.count("internal_unavailable:%s:%s" % (name, type(e).__name__))
        return False, None


def drho_diagnostic(ctx, s, space):
    """does d rho(v_i, v_j)/d theta equal rho(v_i, v_j) * (am_grads | ph_grads)[i, j, :] ?  (today's internal convention)"""
    okk, raw = internal(ctx, "am_grads/ph_grads", lambda: (s.am_grads(space).numpy(), s.ph_grads(space).numpy()))
    if not okk:
        return
    d = space.shape[0]
    pairs = [(int(ctx.rng.integers(0, d)), int(ctx.rng.integers(0, d))) for _ in range(2)] + [(0, d - 1)]

    def rho_c():
        r = s.rho(space, space).numpy()
        return r[0] + 1j * r[1]
    h = 1e-4
    r0 = rho_c()
    for which, net in enumerate(s.networks):
        name = "d_rho==rho*" + ("am_grads" if which == 0 else "ph_grads")
        try:
            g = raw[which][0] + 1j * raw[which][1]          # (d, d, G)
            good = True
            k = 0
            for p in getattr(s, net).parameters():
                fl = p.data.view(-1)
                for e in range(fl.numel()):
                    x0 = fl[e].item()
                    vals = []
                    for x in (x0 + h, x0 - h, x0 + h / 2, x0 - h / 2):
                        fl[e] = x
                        vals.append(rho_c())
                    fl[e] = x0
                    dr = (4 * (vals[2] - vals[3]) / h - (vals[0] - vals[1]) / (2 * h)) / 3
                    for (i, j) in pairs:
                        want = r0[i, j] * g[i, j, k]
                        lim = 1e-6 * max(1.0, abs(r0[i, j])) * max(1.0, float(np.max(np.abs(g[i, j]))))
                        if not abs(dr[i, j] - want) <= lim:
                            good = False
                    k += 1
        except Exception:
            good = False
        ctx.count(("internal_agree:" if good else "internal_differs:") + name)


# --------------------------------------------------------------------------- correspondence with the Coq model
def cplx_pairs(t):
    """complex torch tensor (2, ...) -> nested list with [re, im] leaves"""
    a = t.detach().numpy()
    return np.stack([a[0], a[1]], axis=-1)


def corr_layout(ctx, s, kind, am, ph, case):
    """parameters_to_vector / vector_to_grads: the order in which training writes gradients into the model (property text)."""
    import torch
    from torch.nn.utils import parameters_to_vector
    from qucumber.utils.gradients_utils import vector_to_grads
    m = ctx.get_model()
    nets = [("rbm_am", am)] + ([("rbm_ph", ph)] if ph is not None else [])
    for name, par in nets:
        rbm = getattr(s, name)
        flat = parameters_to_vector(rbm.parameters())
        ctx.agree_exact(name + " parameters_to_vector layout", flat.tolist(),
                        m.call("c03_p_flatten" if kind == "dm" else "c03_b_flatten", *par), case)
        vec = torch.tensor(ctx.rng.normal(size=flat.numel()), dtype=torch.double)
        okk, _ = ctx.call("vector_to_grads", case, lambda: vector_to_grads(vec, rbm.parameters()))
        if okk:
            got = [p.grad.tolist() for p in rbm.parameters()]
            if kind == "dm":
                want = m.call("c03_p_vector_to_grads", rbm.num_hidden, rbm.num_aux, rbm.num_visible, vec)
            else:
                want = m.call("c03_b_vector_to_grads", rbm.num_hidden, rbm.num_visible, vec)
            ctx.agree_exact(name + " vector_to_grads layout", got, want, case)
            back = torch.cat([p.grad.reshape(-1) for p in rbm.parameters()])
            ctx.require("vector_to_grads then reading .grad in parameters() order is the identity", bool(torch.equal(back, vec)), case)
            for p in rbm.parameters():
                p.grad = None


def diag_internals(ctx, s, kind, am, ph, space):
    """internal helpers vs the model's rendering of them — recorded only (see the comment above [diag])."""
    import torch
    m = ctx.get_model()
    sp = space.numpy()
    rows = sp[ctx.rng.permutation(len(sp))[: min(len(sp), 5)]]
    vt = torch.tensor(rows, dtype=torch.double)
    nets = [("rbm_am", am)] + ([("rbm_ph", ph)] if ph is not None else [])
    for name, par in nets:
        rbm = getattr(s, name)
        mrows, mbatch = m.call("c03_p_egrad" if kind == "dm" else "c03_b_egrad", *par, rows)
        okk, out = internal(ctx, name + ".effective_energy_gradient", lambda: (
            rbm.effective_energy_gradient(vt, reduce=False), rbm.effective_energy_gradient(vt, reduce=True)))
        if okk:
            diag(ctx, "effective_energy_gradient reduce=False", out[0], mrows)
            diag(ctx, "effective_energy_gradient reduce=True", out[1], mbatch)
    if kind == "complex":
        mam, mph = m.call("c03_cw_raw", *am, *ph, rows)
        okk, out = internal(ctx, "am_grads/ph_grads", lambda: (s.am_grads(vt), s.ph_grads(vt)))
        if okk:
            diag(ctx, "complex am_grads", cplx_pairs(out[0]), mam)
            diag(ctx, "complex ph_grads", cplx_pairs(out[1]), mph)
    if kind == "dm":
        vps = sp[ctx.rng.permutation(len(sp))[: len(rows)]]
        vpt = torch.tensor(vps, dtype=torch.double)
        for name, par in nets:                       # only the call form the library itself uses: expand=True
            rbm = getattr(s, name)
            for plus in (True, False):
                eta = 1 if plus else -1
                mexp, _ = m.call("c03_gamma_grad", *par, plus, rows, vps)
                okk, out = internal(ctx, "gamma_grad", lambda: rbm.gamma_grad(vt, vpt, eta=eta, expand=True))
                if okk:
                    diag(ctx, "gamma_grad eta=%+d" % eta, out[0], mexp)
        for phase in (True, False):
            mexp, _ = m.call("c03_pi_grad", *am, *ph, phase, rows, vps)
            okk, out = internal(ctx, "pi_grad", lambda: s.pi_grad(vt, vpt, phase=phase, expand=True))
            if okk:
                diag(ctx, "pi_grad phase=%s" % phase, cplx_pairs(out), mexp)
        mam, mph = m.call("c03_dm_raw", *am, *ph, rows)
        okk, out = internal(ctx, "am_grads/ph_grads", lambda: (s.am_grads(vt), s.ph_grads(vt)))
        if okk:
            diag(ctx, "mixed am_grads", cplx_pairs(out[0]), mam)
            diag(ctx, "mixed ph_grads", cplx_pairs(out[1]), mph)
        drho_diagnostic(ctx, s, space)


def corr_state_level(ctx, s, kind, am, ph, space, bases, samples, case, impl):
    import torch
    m = ctx.get_model()
    sp = space.numpy()
    G, PP, EX = impl
    if kind == "positive":
        mg, mpp, mex, mal = m.call("c03_pos_all", *am, samples, sp)
        sc = max(1.0, float(np.max(np.abs(mg))))
        ctx.agree("positive gradient", G[0], mg, case, scale=sc)
        ctx.agree("positive positive_phase_gradients", PP[0], mpp, case, scale=sc)
        ctx.agree("positive compute_exact_gradients", EX[0], mex, case, scale=sc)
        okk, AL = ctx.call("compute_exact_grads", case, lambda: tlist(s.compute_exact_grads(torch.tensor(samples, dtype=torch.double), space)))
        if okk:
            ctx.agree("positive compute_exact_grads", AL[0], mal, case, scale=sc)
        return
    fn = "c03_cw_all" if kind == "complex" else "c03_dm_all"
    mg, mpp, mex = m.call(fn, *am, *ph, bnum(bases), samples, sp)
    for k in range(2):
        sc = max(1.0, float(np.max(np.abs(mg[k]))))
        ctx.agree("%s gradient[%d]" % (kind, k), G[k], mg[k], case, rtol=1e-6, atol=1e-8, scale=sc)
        ctx.agree("%s positive_phase_gradients[%d]" % (kind, k), PP[k], mpp[k], case, rtol=1e-6, atol=1e-8, scale=sc)
        ctx.agree("%s compute_exact_gradients[%d]" % (kind, k), EX[k], mex[k], case, rtol=1e-6, atol=1e-8, scale=sc)
    # np.unique grouping
    uniq = np.unique(np_bases(bases), axis=0)
    ctx.agree_exact("np.unique(bases) == model's sorted distinct bases", bnum(["".join(r) for r in uniq]),
                    [[int(x) for x in r] for r in m.call("c03_unique", bnum(bases))], case)
    # rotated_gradient on the rows of a few bases; 1-D gradient form; bases=None form
    smp = torch.tensor(samples, dtype=torch.double)
    nb = np_bases(bases)
    seen = 0
    for b in dict.fromkeys(bases):                   # internal helper: recorded only
        if set(b) == {"Z"} or seen >= 4:
            continue
        seen += 1
        sel = [i for i, bb in enumerate(bases) if bb == b]
        okk, rg = internal(ctx, "rotated_gradient", lambda: tlist(s.rotated_gradient(np.array(list(b)), smp[sel])))
        if okk:
            mr = m.call("c03_cw_rot" if kind == "complex" else "c03_dm_rot", *am, *ph, bnum([b])[0], [samples[i] for i in sel])
            for k in range(2):
                sc = max(1.0, float(np.max(np.abs(mr[k]))))
                diag(ctx, "rotated_gradient[%d]" % k, rg[k], mr[k], rtol=1e-6, atol=1e-8, scale=sc)
    i = int(ctx.rng.integers(0, len(bases)))
    okk, g1 = ctx.call("gradient 1-D form", case, lambda: tlist(s.gradient(smp[i], bases=nb[i])))
    if okk:
        m1 = m.call(fn, *am, *ph, bnum([bases[i]]), [samples[i]], sp)[0]
        for k in range(2):
            ctx.agree("%s gradient 1-D form [%d]" % (kind, k), g1[k], m1[k], case, rtol=1e-6, atol=1e-8,
                      scale=max(1.0, float(np.max(np.abs(m1[k])))))
    okk, g1n = ctx.call("gradient 1-D form without bases", case, lambda: tlist(s.gradient(smp[i])))
    if okk:
        m1n = m.call(fn, *am, *ph, bnum(["Z" * len(bases[0])]), [samples[i]], sp)[0]
        for k in range(2):
            ctx.agree("%s gradient 1-D form without bases [%d]" % (kind, k), g1n[k], m1n[k], case, rtol=1e-6, atol=1e-8,
                      scale=max(1.0, float(np.max(np.abs(m1n[k])))))
    okk, g0 = ctx.call("gradient(bases=None)", case, lambda: tlist(s.gradient(smp)))
    if okk:
        m0 = m.call(fn, *am, *ph, bnum(["Z" * len(bases[0])] * len(bases)), samples, sp)[0]
        for k in range(2):
            ctx.agree("%s gradient(bases=None) [%d]" % (kind, k), g0[k], m0[k], case, rtol=1e-6, atol=1e-8,
                      scale=max(1.0, float(np.max(np.abs(m0[k])))))


# --------------------------------------------------------------------------- histories on ONE state object
def history_case(ctx, s, kind, space, bases, samples, case):
    """C03 quantifies over every parameter setting and data set; a real training run evaluates the gradients of ONE object
    again and again with the SAME `space` tensor.  After the full finite-difference comparison: a second, different batch
    at the same parameters (fresh tensors, and the first batch's tensor / basis array overwritten in place), then the
    parameters of the same object are moved by every mechanism a user / optimizer / loader has (.data = new tensor,
    .data.copy_, load_state_dict, in-place add_ on the Parameter) and compute_exact_gradients (same `space` object) is
    re-checked against finite differences of the NLL on several coordinates after each move."""
    import torch
    B = len(bases)
    Ucache = {}
    kwb = (lambda nbx: {}) if kind == "positive" else (lambda nbx: {"bases_batch": nbx})
    coords_all = flat_coords(s)

    def pick_coords():
        out = [coords_all[0]]                                   # an amplitude weight: always touched by the negative phase
        for ni in range(len(s.networks)):
            mine = [c for c in coords_all if c[0] == ni]
            for j in ctx.rng.choice(len(mine), size=min(2, len(mine)), replace=False):
                out.append(mine[int(j)])
        return out

    def params_now():
        return [[p.data.tolist() for p in getattr(s, net).parameters()] for net in s.networks]

    def recheck(what, smp_t, nb_a, bs, sm, hist_so_far):
        c2 = dict(case, history=list(hist_so_far), params_now=params_now(), bases=list(bs), samples=[list(r) for r in sm])
        ok, ex = ctx.call("compute_exact_gradients (%s)" % what, c2, lambda: tlist(s.compute_exact_gradients(smp_t, space, **kwb(nb_a))))
        if not ok:
            return
        # the analytic oracle at the CURRENT parameters (read back from the object, parameters() order): also valid when an
        # outcome became improbable after the move
        now = [[np.asarray(x, dtype=float) for x in net] for net in c2["params_now"]]
        nvv = int(space.shape[1])
        analytic_relation(ctx, "compute_exact_gradients == analytic gradient of the NLL (same object: %s)" % what, kind,
                          now[0], now[1] if len(now) > 1 else None, nvv, rows_to_groups(list(bs), [list(r) for r in sm], nvv), ex, c2)
        # finite differences: skipped when an outcome became (numerically) impossible after the move (step 1e-3 too coarse there)
        if kind != "positive":
            for b in set(bs):
                pr = outcome_probs(s, kind, space, b, Ucache)
                ix = [int(idx_of(r)[0]) for bb, r in zip(bs, sm) if bb == b]
                if np.min(pr[ix]) < 1e-7:
                    ctx.count("history_fd_skipped_improbable_outcome")
                    return
        f = make_nll(s, kind, space, list(bs), [list(r) for r in sm], Ucache)
        good, det = fd_spot_matches(s, f, ex, pick_coords())
        ctx.count("history_step:" + what)
        ctx.require("compute_exact_gradients == finite-difference gradient of the NLL (same object: %s)" % what, good, c2, det)

    history = []
    smp = torch.tensor(samples, dtype=torch.double)
    nb = np_bases(bases)
    # ---- a second, different batch at the same parameter setting
    for _ in range(5):
        sel = ctx.rng.integers(0, B, size=B)
        if [(bases[i], samples[i]) for i in sel] != list(zip(bases, samples)):
            break
    bases2 = [bases[i] for i in sel]; samples2 = [samples[i] for i in sel]
    if [(b, r) for b, r in zip(bases2, samples2)] != list(zip(bases, samples)):
        history.append("second batch (fresh tensors), same parameters")
        recheck(history[-1], torch.tensor(samples2, dtype=torch.double), np_bases(bases2), bases2, samples2, history)
        history.append("second batch written into the first batch's tensor and basis array in place")
        smp.copy_(torch.tensor(samples2, dtype=torch.double)); nb[...] = np_bases(bases2)
        recheck(history[-1], smp, nb, bases2, samples2, history)
        smp.copy_(torch.tensor(samples, dtype=torch.double)); nb[...] = np_bases(bases)
    # ---- move the parameters of the same object
    def deltas(rbm, name):
        out = {}
        for pn, p in rbm.named_parameters():
            d = torch.tensor(ctx.rng.normal(scale=0.25, size=tuple(p.shape)), dtype=torch.double)
            if kind == "dm" and name == "rbm_ph" and pn == "aux_bias":
                d = torch.zeros_like(p.data)                # documented: the auxiliary bias of the phase network stays 0
            out[pn] = d
        return out

    def move(mech):
        for net in s.networks:
            rbm = getattr(s, net)
            d = deltas(rbm, net)
            if mech == ".data = new tensor":
                for pn, p in rbm.named_parameters():
                    p.data = (p.data + d[pn]).clone()
            elif mech == ".data.copy_":
                for pn, p in rbm.named_parameters():
                    p.data.copy_(p.data + d[pn])
            elif mech == "load_state_dict":
                sd = {k: v.clone() for k, v in rbm.state_dict().items()}
                for pn in d:
                    sd[pn] = sd[pn] + d[pn]
                rbm.load_state_dict(sd)
            else:
                with torch.no_grad():
                    for pn, p in rbm.named_parameters():
                        p.add_(d[pn])
    for mech in (".data = new tensor", ".data.copy_", "load_state_dict", "in-place add_ on the Parameter"):
        okm, _ = ctx.call("moving the parameters by " + mech, dict(case, history=list(history)), lambda: move(mech))
        if not okm:
            return
        history.append("parameters moved by " + mech)
        recheck(history[-1], smp, nb, bases, samples, history)


# --------------------------------------------------------------------------- large same-basis groups (size regime)
# The property quantifies over data sets with ANY multiset of basis strings, "however the batch is ordered or grouped by
# basis".  A memory-bounding rewrite (process a same-basis group / a batch / the rows handed to a helper in pieces of at
# most L rows) is invisible on small batches.  The cases below put groups of L-1, L, L+1 rows for the usual block sizes L
# and primes just above them (a prime p leaves a remainder p % k != 0 for EVERY piece count 2 <= k < p) into one batch:
# in rotated bases, in the all-Z group, for every state type, and as the whole batch (bases=None form, Positive).
# Oracles (all vectorised over the rows: the NLL and the per-sample sum only need the count of every (basis, outcome)):
#   finite differences of the count-weighted NLL built from the implementation's own psi / rho / normalization;
#   gradient(batch) == sum over (basis, outcome) of count * per-sample gradient (1-D call form);
#   positive phase == gradient / |batch|; row permutation; split into contiguous parts; the extracted Coq model.
BLOCK_LIMITS = (256, 512, 1000, 1024, 2048, 4096)
BOUNDARY_SIZES = tuple(sorted({L + d for L in BLOCK_LIMITS for d in (-1, 0, 1)}))
PRIMES_ABOVE = (257, 521, 1009, 1031, 2053, 4099)         # smallest prime > each limit
LARGE_MATCH_KEY = "large_groups"


# --------------------------------------------------------------------------- second oracle: analytic, log-domain
def analytic_nll_grads(kind, am, ph, nv, groups):
    """Exact gradient of the data set's Born-rule NLL from an OWN implementation of the state (nothing of qucumber is
    used): RBM log-amplitudes 0.5 * (v.b + sum softplus(W v + c)) (+ a.(U v + d) for the purified state, summed over
    all auxiliary configurations), dense Kronecker rotations, everything shifted by the largest log-amplitude so that no
    intermediate can overflow, differentiated by torch autograd in complex128.  groups = [[basis, counts per outcome]].
    Mixed states: -ln(P + 1e-8) on the UNNORMALISED rotated probability of rotated rows (the library's regulariser),
    -ln rho(s, s) on all-Z rows.  Returns one flat numpy vector per network in the order [W, (U), b, c, (d)]."""
    import torch
    import torch.nn.functional as F
    dt = torch.double
    with torch.enable_grad():
        A = [torch.tensor(np.asarray(x, dtype=float), dtype=dt, requires_grad=True) for x in am]
        Pp = [torch.tensor(np.asarray(x, dtype=float), dtype=dt, requires_grad=True) for x in ph] if ph is not None else None
        space = torch.tensor(list(itertools.product([0.0, 1.0], repeat=nv)), dtype=dt)

        def gam(W, b, c):
            return space @ b + F.softplus(space @ W.t() + c, threshold=1e9).sum(-1)
        N = float(sum(int(np.sum(c)) for _, c in groups))
        tot = 0.0
        kappa = 1.0             # largest cancellation factor sum|terms| / |sum| of a rotated amplitude / probability in the data
        if kind != "dm":
            la = 0.5 * gam(*A)
            phs = 0.5 * gam(*Pp) if Pp is not None else torch.zeros_like(la)
            m = la.max().detach()
            psi = torch.exp(torch.complex(la - m, phs))
            logZ = torch.logsumexp(2 * la, 0)
            for b, c in groups:
                cw = torch.tensor(np.asarray(c, dtype=float), dtype=dt)
                nz = cw > 0
                U = torch.tensor(kron_u(b), dtype=torch.complex128)
                a = U @ psi
                kappa = max(kappa, float(((U.abs() @ psi.abs())[nz] / a[nz].abs()).max().detach()))
                tot = tot - (cw[nz] * (torch.log(a[nz].real ** 2 + a[nz].imag ** 2) + 2 * m)).sum()
        else:
            W, Uw, b_, c_, d_ = A
            Wp, Up, bp, cp, _dp = Pp
            na = Uw.shape[0]
            aux = torch.tensor(list(itertools.product([0.0, 1.0], repeat=na)), dtype=dt)
            la = 0.5 * (gam(W, b_, c_).unsqueeze(1) + (aux @ d_).unsqueeze(0) + space @ Uw.t() @ aux.t())
            phs = 0.5 * (gam(Wp, bp, cp).unsqueeze(1) + space @ Up.t() @ aux.t())
            m = la.max().detach()
            pur = torch.exp(torch.complex(la - m, phs))
            rho = pur @ pur.conj().t()                                  # rho / exp(2m)
            logZ = torch.logsumexp(2 * la.reshape(-1), 0)
            log_reg = math.log(1e-8)
            for b, c in groups:
                cw = torch.tensor(np.asarray(c, dtype=float), dtype=dt)
                nz = cw > 0
                if set(b) == {"Z"}:
                    tot = tot - (cw[nz] * (torch.log(torch.diagonal(rho).real[nz]) + 2 * m)).sum()
                else:
                    U = torch.tensor(kron_u(b), dtype=torch.complex128)
                    P = torch.diagonal(U @ rho @ U.conj().t()).real
                    Pabs = torch.diagonal(U.abs() @ rho.abs() @ U.abs().t()).real
                    kappa = max(kappa, float((Pabs[nz] / (P[nz].abs() + 1e-8 * math.exp(-2 * float(m)))).max().detach()))
                    tot = tot - (cw[nz] * torch.logaddexp(torch.log(P[nz]) + 2 * m, torch.full_like(P[nz], log_reg))).sum()
        loss = tot / N + logZ
        nets = [A] + ([Pp] if Pp is not None else [])
        out = []
        for net in nets:
            gs = torch.autograd.grad(loss, net, allow_unused=True, retain_graph=True)
            out.append(np.concatenate([(g if g is not None else torch.zeros_like(p)).reshape(-1).numpy() for g, p in zip(gs, net)]))
    return out, kappa


def own_outcome_kappas(kind, am, ph, nv, basis):
    """cancellation factor sum|terms| / |sum| of the rotated amplitude (pure) / regularised rotated probability (mixed) of every
    outcome of `basis`, from an own numpy rendering of the state (shifted by the largest log-amplitude; nothing of qucumber)"""
    sp = np.array(list(itertools.product([0.0, 1.0], repeat=nv)))

    def gam(W, b, c):
        return sp @ np.asarray(b, dtype=float) + np.logaddexp(0.0, sp @ np.asarray(W, dtype=float).T + np.asarray(c, dtype=float)).sum(-1)
    U = kron_u(basis)
    if kind != "dm":
        la = 0.5 * gam(*am)
        phs = 0.5 * gam(*ph) if ph is not None else np.zeros_like(la)
        psi = np.exp(la - la.max() + 1j * phs)
        with np.errstate(divide="ignore", invalid="ignore"):
            return (np.abs(U) @ np.abs(psi)) / np.abs(U @ psi)
    W, Uw, b_, c_, d_ = [np.asarray(x, dtype=float) for x in am]
    Wp, Up, bp, cp, _ = [np.asarray(x, dtype=float) for x in ph]
    aux = np.array(list(itertools.product([0.0, 1.0], repeat=Uw.shape[0])))
    la = 0.5 * (gam(W, b_, c_)[:, None] + (aux @ d_)[None, :] + sp @ Uw.T @ aux.T)
    phs = 0.5 * (gam(Wp, bp, cp)[:, None] + sp @ Up.T @ aux.T)
    m = la.max()
    pur = np.exp(la - m + 1j * phs)
    rho = pur @ pur.conj().T
    P = np.real(np.einsum("ij,jk,ik->i", U, rho, U.conj()))
    Pabs = np.einsum("ij,jk,ik->i", np.abs(U), np.abs(rho), np.abs(U))
    reg = 0.0 if set(basis) == {"Z"} else 1e-8 * math.exp(-2.0 * m)
    with np.errstate(divide="ignore", invalid="ignore"):
        return Pabs / (np.abs(P) + reg)


KAPPA_ROW = 1e4     # data rows of the numeric-regime cases: beyond this every float evaluation of the row's gradient (the library's batch
                    # path, its per-sample path, the model, the oracle) keeps fewer than ~12 digits and they differ from each other by rounding


def rows_to_groups(bases, samples, nv):
    cnt = {}
    for b, row in zip(bases, samples):
        cnt.setdefault(b, np.zeros(2 ** nv, dtype=int))[int(idx_of(row)[0])] += 1
    return [[b, c.tolist()] for b, c in cnt.items()]


KAPPA_MAX = 1e5     # beyond this the rotated amplitude of a data row is a difference of nearly equal numbers: neither the library
                    # nor this oracle resolves its gradient to 1e-7; such a data set is only counted (analytic_skipped_cancellation)


def analytic_matches(kind, am, ph, nv, groups, grads, tol=1e-7):
    """(True, None, err) iff every entry of every network's returned gradient equals the analytic one within tol * max(1, |g|_max);
    (None, info, nan) when the data set is too ill-conditioned for a verdict"""
    an, kappa = analytic_nll_grads(kind, am, ph, nv, groups)
    if not (kappa < KAPPA_MAX) or not all(np.all(np.isfinite(a)) for a in an):
        return None, {"cancellation_factor": kappa}, float("nan")
    worst = 0.0
    for ni, (a, g) in enumerate(zip(an, grads)):
        g = np.asarray(g, dtype=float).reshape(-1)
        if a.shape != g.shape:
            return False, {"net_index": ni, "shape_analytic": list(a.shape), "shape_grad": list(g.shape)}, float("inf")
        lim = tol * max(1.0, float(np.max(np.abs(a))))
        err = np.abs(a - g)
        if not np.all(err <= lim):
            k = int(np.argmax(~(err <= lim)))
            return False, {"net_index": ni, "param_index": k, "analytic": float(a[k]), "returned": float(g[k]),
                           "n_bad": int(np.sum(~(err <= lim)))}, float(np.max(err / max(1.0, float(np.max(np.abs(a))))))
        worst = max(worst, float(np.max(err)) / max(1.0, float(np.max(np.abs(a)))))
    return True, None, worst


def hilbert_rows_by_index(space):
    sp = space.numpy()
    return sp[np.argsort(idx_of(sp))]


def expand_groups(groups, perm_seed, nv):
    """groups = [[basis string, [count of outcome 0, count of outcome 1, ...]], ...] -> permuted rows
    (basis letters (N, nv), outcome indices (N,)); deterministic in perm_seed."""
    letters, outs = [], []
    for b, cnt in groups:
        cnt = np.asarray(cnt, dtype=int)
        k = int(cnt.sum())
        if k == 0:
            continue
        letters.append(np.tile(np.array(list(b)), (k, 1)))
        outs.append(np.repeat(np.arange(len(cnt)), cnt))
    letters = np.concatenate(letters, axis=0)
    outs = np.concatenate(outs)
    perm = np.random.default_rng(int(perm_seed)).permutation(len(outs))
    return letters[perm].reshape(-1, nv), outs[perm]


def make_nll_weighted(s, kind, space, groups, Ucache):
    """f() = NLL of the data set given as counts per (basis, outcome) — the same number as make_nll on the expanded rows"""
    G = [(b, np.asarray(c, dtype=float)) for b, c in groups if int(np.sum(c)) > 0]
    for b, _ in G:
        Ucache.setdefault(b, kron_u(b))
    N = float(sum(c.sum() for _, c in G))

    def f():
        arr, Z = state_arrays(s, kind, space)
        tot = 0.0
        for b, c in G:
            U = Ucache[b]
            nz = c > 0
            if kind == "dm":
                if set(b) == {"Z"}:
                    tot -= float(np.sum(c[nz] * np.log(np.real(np.diagonal(arr))[nz])))
                else:
                    P = np.real(np.einsum("ij,jk,ik->i", U, arr, U.conj()))
                    tot -= float(np.sum(c[nz] * np.log(P[nz] + 1e-8)))
            else:
                a = U @ arr
                tot -= float(np.sum(c[nz] * np.log(np.abs(a[nz]) ** 2)))
        return tot / N + math.log(Z)
    return f


def draw_group_counts(ctx, s, kind, space, basis, size, Ucache):
    """`size` rows measured in `basis`, spread at random over the outcomes of probability >= 1e-4"""
    p = outcome_probs(s, kind, space, basis, Ucache)
    good = np.where(p >= 1e-4)[0]
    cnt = np.zeros(len(p), dtype=int)
    if good.size == 0 or size == 0:
        return cnt.tolist()
    w = ctx.rng.dirichlet(np.ones(good.size))
    cnt[good] = ctx.rng.multinomial(int(size), w)
    return cnt.tolist()


def large_oracle(ctx, s, kind, space, groups, perm_seed, case, am=None, ph=None, corr=False):
    import torch
    nv = int(space.shape[1])
    nnet = len(s.networks)
    rows_of = hilbert_rows_by_index(space)
    nb, outs = expand_groups(groups, perm_seed, nv)
    N = len(outs)
    smp = torch.tensor(rows_of[outs], dtype=torch.double)
    pos = kind == "positive"
    kw = (lambda x: {}) if pos else (lambda x: {"bases": x})
    kwb = (lambda x: {}) if pos else (lambda x: {"bases_batch": x})
    ok, G = ctx.call("gradient (large same-basis groups)", case, lambda: tlist(s.gradient(smp, **kw(nb))))
    ok2, PP = ctx.call("positive_phase_gradients (large same-basis groups)", case, lambda: tlist(s.positive_phase_gradients(smp, **kwb(nb))))
    ok3, EX = ctx.call("compute_exact_gradients (large same-basis groups)", case, lambda: tlist(s.compute_exact_gradients(smp, space, **kwb(nb))))
    if not (ok and ok2 and ok3):
        return
    npar = [getattr(s, net).num_pars for net in s.networks]
    shapes_ok = len(G) == nnet and len(PP) == nnet and len(EX) == nnet and all(
        [int(np.size(g)) for g in X] == npar for X in (G, PP, EX))
    ctx.require("gradient vectors have num_pars entries (large same-basis groups)", shapes_ok, case,
                {"sizes": [[int(np.size(g)) for g in X] for X in (G, PP, EX)], "num_pars": npar})
    if not shapes_ok:
        return
    scale = [max(1.0, float(np.max(np.abs(g)))) for g in G]
    # -- per-sample (1-D call form) gradients, one call per distinct (basis, outcome), weighted by the counts
    acc = [np.zeros(n) for n in npar]
    per_group = []
    ok1 = True
    for b, cnt in groups:
        part = [np.zeros(n) for n in npar]
        for o, c in enumerate(cnt):
            if c == 0:
                continue
            row = torch.tensor(rows_of[o], dtype=torch.double)
            okk, g1 = ctx.call("gradient 1-D form", case, lambda: tlist(s.gradient(row, **kw(np.array(list(b))))))
            if not okk:
                ok1 = False
                break
            for k in range(nnet):
                part[k] = part[k] + c * np.broadcast_to(g1[k], (npar[k],))
        if not ok1:
            break
        per_group.append((b, int(np.sum(cnt)), part))
        for k in range(nnet):
            acc[k] = acc[k] + part[k]

    def group_diagnosis():
        """which same-basis groups, taken alone, already deviate from the sum of their per-sample gradients"""
        bad = []
        for b, k, part in per_group:
            if k == 0:
                continue
            sel = np.where((nb == np.array(list(b))).all(axis=1))[0]
            try:
                gg = tlist(s.gradient(smp[sel], **kw(nb[sel])))
                d = max(float(np.max(np.abs(np.broadcast_to(gg[j], (npar[j],)) - part[j]))) for j in range(nnet))
                if d > 1e-9 * max(scale):
                    bad.append({"basis": b, "rows": k, "max_diff_alone": d})
            except Exception as e:
                bad.append({"basis": b, "rows": k, "raised": repr(e)[:120]})
        return bad[:6]

    if ok1:
        for k in range(nnet):
            good = bool(np.allclose(acc[k], G[k], rtol=1e-8, atol=1e-9 * scale[k]))
            ctx.require("gradient(batch) == sum of per-sample gradients (1-D form), large same-basis groups", good, case,
                        None if good else {"net": s.networks[k], "max_diff": float(np.max(np.abs(acc[k] - G[k]))), "groups": group_diagnosis()})
            good = bool(np.allclose(acc[k] / N, PP[k], rtol=1e-8, atol=1e-9 * scale[k] / N))
            ctx.require("positive_phase_gradients == mean of per-sample gradients, large same-basis groups", good, case,
                        None if good else {"net": s.networks[k], "max_diff": float(np.max(np.abs(acc[k] / N - PP[k])))})
    for k in range(nnet):
        ctx.require("positive_phase_gradients == gradient / |batch| (large same-basis groups)",
                    bool(np.allclose(PP[k], G[k] / N, rtol=1e-9, atol=1e-11 * scale[k] / N)), case, {"net": s.networks[k]})
    # -- finite differences of the count-weighted NLL, every parameter of every network
    f = make_nll_weighted(s, kind, space, groups, {})
    good, det = fd_matches(s, f, EX)
    ctx.require("compute_exact_gradients == finite-difference gradient of the NLL (large same-basis groups)", good, case, det)
    # -- any row order, any split into contiguous parts
    perm = ctx.rng.permutation(N)
    # mixed states cost ~0.1 ms per rotated row and call: quick tier takes the permutation OR the split there
    which = "both" if (kind != "dm" or ctx.thorough) else ("perm" if ctx.rng.random() < 0.5 else "split")
    okp = False
    if which != "split":
        okp, Gp = ctx.call("gradient (permuted rows, large same-basis groups)", case, lambda: tlist(s.gradient(smp[perm], **kw(nb[perm]))))
    if okp:
        for k in range(nnet):
            ctx.require("gradient is invariant under row permutation (large same-basis groups)",
                        bool(np.allclose(Gp[k], G[k], rtol=1e-8, atol=1e-9 * scale[k])), case,
                        {"net": s.networks[k], "max_diff": float(np.max(np.abs(np.asarray(Gp[k]) - G[k])))})
    nparts = int(ctx.rng.integers(2, 9))
    cuts = sorted(set(int(c) for c in ctx.rng.integers(1, N, size=nparts - 1))) if N >= 2 else []
    edges = [0] + cuts + [N]
    tot = [np.zeros(n) for n in npar]
    okall = which != "perm"
    for a, bnd in zip(edges[:-1], edges[1:]):
        if not okall:
            break
        oks, gs = ctx.call("gradient (contiguous part of the batch, large same-basis groups)", case,
                           lambda: tlist(s.gradient(smp[a:bnd], **kw(nb[a:bnd]))))
        if not oks:
            okall = False
            break
        for k in range(nnet):
            tot[k] = tot[k] + np.broadcast_to(gs[k], (npar[k],))
    if okall:
        for k in range(nnet):
            ctx.require("gradient(batch) == sum of the gradients of its contiguous parts (large same-basis groups)",
                        bool(np.allclose(tot[k], G[k], rtol=1e-8, atol=1e-9 * scale[k])), case,
                        {"net": s.networks[k], "cuts": cuts, "max_diff": float(np.max(np.abs(tot[k] - G[k])))})
    # -- reference-basis form without bases on the whole (large) batch: one group of N rows on the all-Z path
    ok0, G0 = ctx.call("gradient(bases=None) (large batch)", case, lambda: tlist(s.gradient(smp)))
    if ok0:
        tot_cnt = np.zeros(rows_of.shape[0])
        np.add.at(tot_cnt, outs, 1.0)
        acc0 = [np.zeros(n) for n in npar]
        okz = True
        for o, c in enumerate(tot_cnt):
            if c == 0:
                continue
            okk, g1 = ctx.call("gradient 1-D form without bases", case, lambda: tlist(s.gradient(torch.tensor(rows_of[o], dtype=torch.double))))
            if not okk:
                okz = False
                break
            for k in range(nnet):
                acc0[k] = acc0[k] + c * np.broadcast_to(g1[k], (npar[k],))
        if okz:
            sc0 = max(1.0, float(np.max(np.abs(acc0[0]))))
            for k in range(nnet):
                ctx.require("gradient(bases=None) of a large batch == sum of per-sample gradients without bases",
                            bool(np.allclose(np.broadcast_to(G0[k], (npar[k],)), acc0[k], rtol=1e-8, atol=1e-9 * sc0)), case,
                            {"net": s.networks[k], "rows": N})
    if pos:
        oka, AL = ctx.call("compute_exact_grads (large batch)", case, lambda: tlist(s.compute_exact_grads(smp, space)))
        if oka:
            ctx.require("compute_exact_grads == compute_exact_gradients (large batch)",
                        len(AL) == 1 and bool(np.allclose(AL[0], EX[0], rtol=1e-9, atol=1e-11 * scale[0])), case)
        okb, Gb = ctx.call("gradient with ignored bases argument (large batch)", case, lambda: tlist(s.gradient(smp, nb)))
        if okb:
            ctx.require("Positive.gradient ignores bases (large batch)", bool(np.allclose(Gb[0], G[0], rtol=1e-9, atol=1e-11 * scale[0])), case)
    # -- correspondence with the extracted model on the expanded rows
    if corr:
        m = ctx.get_model()
        sp = space.numpy()
        samples = rows_of[outs].tolist()
        if pos:
            mg, mpp, mex, _ = m.call("c03_pos_all", *am, samples, sp)
            mg, mpp, mex = [mg], [mpp], [mex]
        else:
            mg, mpp, mex = m.call("c03_cw_all" if kind == "complex" else "c03_dm_all", *am, *ph, bnum(["".join(r) for r in nb]), samples, sp)
        for k in range(nnet):
            sc = max(1.0, float(np.max(np.abs(mg[k]))))
            ctx.agree("%s gradient[%d] (large same-basis groups)" % (kind, k), G[k], mg[k], case, rtol=1e-6, atol=1e-8, scale=sc)
            ctx.agree("%s positive_phase_gradients[%d] (large same-basis groups)" % (kind, k), PP[k], mpp[k], case, rtol=1e-6, atol=1e-8,
                      scale=max(1.0, sc / N))
            ctx.agree("%s compute_exact_gradients[%d] (large same-basis groups)" % (kind, k), EX[k], mex[k], case, rtol=1e-6, atol=1e-8,
                      scale=max(1.0, float(np.max(np.abs(mex[k])))))


def large_case(ctx, kind, nv, nh, na, sizes=None, corr=False, given=None):
    """sizes: {basis string: number of rows}.  One state, one batch holding all these groups (randomly interleaved)."""
    if given is None:
        am, ph = draw_params(ctx, kind, nv, nh, na)
    else:
        am, ph = given["am"], given["ph"]
    s = build(kind, nv, nh, na, am, ph)
    space = s.generate_hilbert_space()
    if given is None:
        Ucache = {}
        groups = [[b, draw_group_counts(ctx, s, kind, space, b, k, Ucache)] for b, k in sizes.items()]
        groups = [g for g in groups if sum(g[1]) > 0]
        perm_seed = int(ctx.rng.integers(0, 2 ** 31 - 1))
    else:
        groups, perm_seed = given["large_groups"], given["perm_seed"]
    if not groups:
        ctx.count("skipped_no_probable_outcome")
        return
    gs = {b: int(sum(c)) for b, c in groups}
    N = sum(gs.values())
    case = {"state": kind, "nv": nv, "nh": nh, "na": na, "am": gen.plist(*am), "ph": gen.plist(*ph) if ph is not None else None,
            LARGE_MATCH_KEY: [[b, [int(x) for x in c]] for b, c in groups], "perm_seed": perm_seed, "rows": N,
            "rows_per_basis": gs,
            "how_to_expand": "rows of basis b: outcome index o (site 0 = most significant bit) repeated counts[o] times, groups concatenated "
                             "in the listed order, then rows[numpy.random.default_rng(perm_seed).permutation(N)]"}
    rotated_big = [k for b, k in gs.items() if set(b) != {"Z"} and k > 255]
    nontriv = N > 255 and (kind == "positive" or bool(rotated_big))
    ctx.case({"state": kind, "nv": nv, "nh": nh, "na": na, "rows": N, "bases": len(gs), "largest_group": max(gs.values()),
              "w00": float(np.asarray(am[0])[0, 0]), "perm_seed": perm_seed}, nontrivial=nontriv)
    ctx.count("large:state:" + kind); ctx.count("large:rows", N)
    for b, k in gs.items():
        lim = [L for L in BLOCK_LIMITS if k > L]
        ctx.count("large:group_size_above:%d" % (max(lim) if lim else 0) + (":allZ" if set(b) == {"Z"} else ":rotated"))
    large_oracle(ctx, s, kind, space, groups, perm_seed, case, am=am, ph=ph, corr=corr)
    ctx.traces += 1
    ctx.count("completed_large:" + kind)


def spread_sizes(ctx, bases, sizes, small=(0, 4)):
    """assign the given group sizes to randomly chosen bases (rotated ones first), the other bases get a few rows"""
    order = [bases[i] for i in ctx.rng.permutation(len(bases))]
    out = {}
    for b, k in zip(order, sizes):
        out[b] = int(k)
    for b in order[len(sizes):]:
        out[b] = int(ctx.rng.integers(small[0], small[1]))
    return out


def fixed_large_cases(ctx):
    """always run, before anything a time budget could cut"""
    # (1) the whole batch is ONE rotated group just above 1024 rows (1025 = 2 pieces, one row over), bases with Y
    ctx.torch_seed()
    large_case(ctx, "complex", 2, 3, 0, {"XY": 1025}, corr=True)
    # (2) every boundary size L-1, L, L+1 of the usual block sizes and the primes above them, one group each, one batch
    b3 = gen.all_bases(3)
    rot3 = [b for b in b3 if set(b) != {"Z"}]
    sizes = [k for k in BOUNDARY_SIZES if k not in (2047, 4095)] + [p for p in PRIMES_ABOVE if p != 257] + [263]
    ctx.torch_seed()
    d = spread_sizes(ctx, rot3, sizes[:len(rot3)])
    d["ZZZ"] = 1025
    large_case(ctx, "complex", 3, 2, 0, d)
    # (3) mixed state: one doubly rotated group (16 rotation terms per row: the expensive path) above 1024, singly
    #     rotated groups and the all-Z group at other limits
    ctx.torch_seed()
    two = [b for b in gen.all_bases(2) if "Z" not in b]
    one = [b for b in gen.all_bases(2) if b.count("Z") == 1]
    d = {two[int(ctx.rng.integers(0, len(two)))]: int(ctx.rng.choice([1025, 1031]))}
    d.update(spread_sizes(ctx, one, [2053, int(ctx.rng.choice([1023, 1024, 1001]))], small=(0, 3)))
    d["ZZ"] = 1031
    large_case(ctx, "dm", 2, 1, 1, d)
    # (4) mixed state, one site: X / Y / Z groups across the larger limits
    ctx.torch_seed()
    large_case(ctx, "dm", 1, 2, 2, spread_sizes(ctx, ["X", "Y", "Z"], [1025, 513, 4099]), corr=False)
    # (5) positive wavefunction: the whole batch is one group (all-Z path)
    ctx.torch_seed()
    large_case(ctx, "positive", 2, 3, 0, {"ZZ": int(ctx.rng.choice([1025, 2053, 4099]))}, corr=True)


def random_large_case(ctx):
    kind = str(ctx.rng.choice(["complex", "dm", "positive"], p=[0.45, 0.4, 0.15]))
    pool = list(BOUNDARY_SIZES) + list(PRIMES_ABOVE) * 2 + [int(x) for x in ctx.rng.integers(1025, 5000, size=12)]
    big = [x for x in pool if x > 1024]

    def pick(k, cap=None):
        """k group sizes, the first one above 1024 rows"""
        pl = [x for x in pool if cap is None or x <= cap]
        bg = [x for x in big if cap is None or x <= cap]
        return [int(ctx.rng.choice(bg))] + [int(x) for x in ctx.rng.choice(pl, size=k - 1)]
    if kind == "positive":
        nv = int(ctx.rng.integers(1, 4))
        sizes = {"Z" * nv: pick(1)[0]}
        nh, na = int(ctx.rng.integers(1, 4)), 0
    elif kind == "complex":
        nv = int(ctx.rng.integers(1, 4 if not ctx.thorough else 5))
        allb = gen.all_bases(nv)
        k = int(ctx.rng.integers(1, min(len(allb), 6) + 1))
        sizes = spread_sizes(ctx, allb, pick(k))
        nh, na = int(ctx.rng.integers(1, 4)), 0
    else:
        nv = int(ctx.rng.integers(1, 3))
        allb = gen.all_bases(nv)
        cheap = [b for b in allb if sum(ch != "Z" for ch in b) <= 1]
        dear = [b for b in allb if b not in cheap]
        k = int(ctx.rng.integers(1, 4))
        sizes = spread_sizes(ctx, cheap, pick(min(k, len(cheap))), small=(0, 3))
        if dear:                                            # 4^2 rotation terms per row: one such group, at most ~2000 rows (quick)
            cap = 5000 if ctx.thorough else 2100
            sizes[dear[int(ctx.rng.integers(0, len(dear)))]] = pick(1, cap)[0]
            for b in dear:
                sizes.setdefault(b, int(ctx.rng.integers(0, 3)))
        nh, na = int(ctx.rng.integers(1, 3)), int(ctx.rng.integers(1, 3))
    ctx.torch_seed()
    large_case(ctx, kind, nv, nh, na, sizes)


# --------------------------------------------------------------------------- numeric regimes the ordinary stream never reaches
# ordinary stream: |parameters| <= 6 and only outcomes of probability >= 1e-4.  The property quantifies over every parameter
# setting and every data set, so (measured on the unchanged tree: analytic oracle agrees to < 1e-9 * |g|_max in all of them)
#   improbable_outcome : amplitude visible bias of -20..-30 (rarely +20..+30) on one site; data rows whose (rotated) outcome has
#                        probability 1e-16..1e-4 — unnormalised probability far below 1e-8 — without any cancellation
#   near_product_site  : one site within eps (1e-5..1e-1) of |+> or |+i> (all its couplings and biases ~ eps): an X / Y outcome
#                        there is a difference of nearly equal amplitudes (a data row is kept while its cancellation factor is < 1e4)
#   large_couplings    : half of the weights with magnitude 6..30 (pre-activations up to ~ +-100, sigmoids saturate, psi ~ e^150)
#   rare_rows          : an ordinary parameter draw, data rows of probability down to 1e-13 included
REGIMES = ("improbable_outcome", "near_product_site", "large_couplings", "rare_rows")


def regime_params(ctx, kind, nv, nh, na, regime, negative_bias=False):
    am, ph = draw_params(ctx, kind, nv, nh, na)
    nets = [am] + ([ph] if ph is not None else [])
    bi = 2 if kind == "dm" else 1                           # index of the visible bias in [W, (U), b, c, (d)]
    j = int(ctx.rng.integers(0, nv))
    if regime == "improbable_outcome":
        am[bi][j] = -ctx.rng.uniform(20.0, 30.0) * (1.0 if (ctx.rng.random() < 0.8 or negative_bias) else -1.0)
    elif regime == "near_product_site":
        eps = 10.0 ** ctx.rng.uniform(-5, -1)
        turn = kind != "positive" and ctx.rng.random() < 0.5        # |+i> instead of |+>: the Y outcome becomes the rare one
        for ni, net in enumerate(nets):
            net[0][:, j] = eps * ctx.rng.normal(size=net[0].shape[0])
            if kind == "dm":
                net[1][:, j] = eps * ctx.rng.normal(size=net[1].shape[0])
            net[bi][j] = eps * float(ctx.rng.choice([-1.0, 1.0])) * ctx.rng.uniform(0.5, 1.5) + (math.pi if (ni == 1 and turn) else 0.0)
    elif regime == "large_couplings":
        for net in nets:
            for wi in ([0, 1] if kind == "dm" else [0]):
                W = net[wi]
                mask = ctx.rng.random(W.shape) < 0.5
                mag = np.exp(ctx.rng.uniform(np.log(6.0), np.log(30.0), size=W.shape)) * ctx.rng.choice([-1.0, 1.0], size=W.shape)
                W[mask] = mag[mask]
    return am, ph


def regime_dataset(ctx, s, kind, nv, space, Ucache, pmin=1e-16, am=None, ph=None):
    """per basis: one ordinary outcome (p >= 1e-4) and up to two rare ones (pmin <= p < 1e-4); at most 9 bases + all-Z;
    only outcomes whose cancellation factor is below KAPPA_ROW (an improbable outcome WITHOUT cancellation is kept)"""
    allb = gen.all_bases(nv) if kind != "positive" else ["Z" * nv]
    if len(allb) > 9:
        z = "Z" * nv
        allb = [z] + [allb[i] for i in ctx.rng.choice(len(allb), size=9, replace=False) if allb[i] != z][:8]
    sp = space.numpy()
    rows = []
    for b in allb:
        p = outcome_probs(s, kind, space, b, Ucache)
        kap = own_outcome_kappas(kind, am, ph, nv, b)[idx_of(sp)] if am is not None else np.ones(len(p))
        wellc = kap < KAPPA_ROW
        ctx.count("regime_outcomes_dropped_cancellation", int(np.sum(~wellc & (p >= pmin))))
        for pool, k in ((np.where((p >= 1e-4) & wellc)[0], 1), (np.where((p >= pmin) & (p < 1e-4) & wellc)[0], 2)):
            if pool.size:
                for o in ctx.rng.choice(pool, size=min(k, pool.size), replace=False):
                    rows.append((b, sp[int(o)].tolist(), float(p[int(o)])))
    perm = ctx.rng.permutation(len(rows))
    rows = [rows[i] for i in perm]
    return [r[0] for r in rows], [r[1] for r in rows], (min(r[2] for r in rows) if rows else 1.0)


# --------------------------------------------------------------------------- one generated case
def one_case(ctx, kind, nv, nh, na, corr=True, given=None, regime=None, negative_bias=False):
    import torch
    if given is None:
        am, ph = draw_params(ctx, kind, nv, nh, na) if regime is None else regime_params(ctx, kind, nv, nh, na, regime, negative_bias)
    else:
        am, ph = given["am"], given["ph"]
    s = build(kind, nv, nh, na, am, ph)
    space = s.generate_hilbert_space()
    Ucache = {}
    if given is None and regime is None:
        bases, samples = draw_dataset(ctx, s, kind, nv, space, Ucache)
    elif given is None:
        bases, samples, _ = regime_dataset(ctx, s, kind, nv, space, Ucache, pmin=1e-13 if regime == "rare_rows" else 1e-16, am=am, ph=ph)
    else:
        bases, samples = given["bases"], given["samples"]
    if not bases:
        ctx.count("skipped_no_probable_outcome")
        return
    case = {"state": kind, "nv": nv, "nh": nh, "na": na, "am": gen.plist(*am), "ph": gen.plist(*ph) if ph is not None else None,
            "bases": list(bases), "samples": samples}
    distinct = set(bases)
    biases_ok = all(np.all(np.asarray(x) != 0) for x in (am[-2:] if kind != "dm" else am[2:]))
    nontriv = biases_ok and (kind == "positive" or (len(distinct) >= 2 and any("Y" in b for b in distinct)))
    ctx.case({"state": kind, "nv": nv, "nh": nh, "na": na, "rows": len(bases), "bases": len(distinct),
              "w00": float(np.asarray(am[0])[0, 0])}, nontrivial=nontriv)
    ctx.count("state:" + kind); ctx.count("nv:%d" % nv); ctx.count("rows", len(bases))
    ctx.count("bases_with_Y", sum(1 for b in distinct if "Y" in b)); ctx.count("all_Z_rows", sum(1 for b in bases if set(b) == {"Z"}))
    # finite differences need a smooth NLL at step 1e-3: no data row may be a difference of nearly equal amplitudes
    full_fd = True
    regime = regime or (given or {}).get("regime")
    if regime is not None:
        if kind != "positive":
            try:
                _, kappa = analytic_nll_grads(kind, am, ph, nv, rows_to_groups(bases, samples, nv))
            except Exception:
                kappa = float("inf")
            full_fd = kappa < 50.0
            if corr and not kappa < 1e3:            # the float model loses the same digits as the library there: no verdict from it
                corr = False
                ctx.count("regime_model_correspondence_skipped_cancellation")
        case["regime"] = regime
        ctx.count("regime:%s:%s" % (case["regime"], kind))
        ctx.count("regime_fd:" + ("run" if full_fd else "skipped_cancellation"))
    impl = oracle_case(ctx, s, kind, space, bases, samples, case, full_fd=full_fd, am=am, ph=ph)
    if corr and impl is not None:
        corr_state_level(ctx, s, kind, am, ph, space, bases, samples, case, impl)
        corr_layout(ctx, s, kind, am, ph, case)
        diag_internals(ctx, s, kind, am, ph, space)
    if impl is not None:
        history_case(ctx, s, kind, space, bases, samples, case)      # last: it moves the parameters of s
    ctx.traces += 1
    ctx.count("completed:" + kind)


def shapes(ctx, kind):
    if kind == "dm":
        if ctx.thorough:
            return [(1, 1, 2), (1, 2, 1), (2, 1, 3), (2, 3, 1), (2, 2, 2), (3, 2, 2), (3, 4, 1), (3, 1, 2), (4, 3, 2), (4, 2, 3)]
        return [(3, 2, 2), (2, 3, 1), (1, 2, 2), (2, 1, 3)]        # nv = 3 first: the budget never cuts the first two per state type
    if ctx.thorough:
        return [(nv, nh, 0) for nv in range(1, 5) for nh in range(1, 6) if (nv + nh) % 2 == 1 or nv == nh == 2]
    return [(3, 2, 0), (2, 3, 0), (1, 2, 0), (2, 1, 0), (3, 4, 0)]


KINDS = ("dm", "complex", "positive")      # mixed states first: their NLL clause has no theorem, only this check


def jobs(ctx, draws):
    """round-robin over state types and shapes, so that every state type and every shape is exercised early; after the first
    two rounds a numeric-regime case (see REGIMES) follows every third ordinary case"""
    per = {k: shapes(ctx, k) for k in KINDS}
    out = []
    r0 = int(ctx.rng.integers(0, len(REGIMES)))
    nreg = 0
    for d in range(draws):
        for i in range(max(len(v) for v in per.values())):
            for k in KINDS:
                if i < len(per[k]) and not (k == "positive" and d == draws - 1 and draws > 1):
                    out.append((k,) + tuple(per[k][i]) + (None,))
            if d > 0 or i >= 1:
                k = ("complex", "dm", "complex", "dm", "positive")[nreg % 5]
                sh = per[k][int(ctx.rng.integers(0, len(per[k])))]
                out.append((k,) + tuple(sh) + (REGIMES[(r0 + nreg) % len(REGIMES)],))
                nreg += 1
    return out


def fixed_regime_cases(ctx):
    """always run (before the budgeted stream): an improbable rotated outcome (unnormalised probability ~ 1e-9..1e-13, far
    below every 1e-8 guard) for a pure and for a mixed state, and one near-product / large-coupling case"""
    ctx.torch_seed()
    one_case(ctx, "complex", 2, 3, 0, regime="improbable_outcome", negative_bias=True)
    ctx.torch_seed()
    one_case(ctx, "dm", 2, 1, 2, regime="improbable_outcome", negative_bias=True)
    ctx.torch_seed()
    one_case(ctx, "complex", 2, 2, 0, regime=("near_product_site", "large_couplings")[int(ctx.rng.integers(0, 2))])


BUDGET_S = {"quick": 14, "thorough": 390}      # generation budget; the first two cases of every state type ignore it


def run(ctx):
    draws = 3 if ctx.thorough else 2
    # size regime first: fixed large same-basis groups, then a few random ones (cheap; never cut by the budget below)
    tl = time.time()
    fixed_large_cases(ctx)
    for _ in range(12 if ctx.thorough else 2):
        random_large_case(ctx)
    ctx.extra["large_cases_wall_s"] = round(time.time() - tl, 2)
    tl = time.time()
    fixed_regime_cases(ctx)
    ctx.extra["fixed_regime_cases_wall_s"] = round(time.time() - tl, 2)
    t0 = time.time()
    budget = BUDGET_S["thorough" if ctx.thorough else "quick"]
    for (kind, nv, nh, na, regime) in jobs(ctx, draws):
        done = ctx.hist.get("completed_stream:" + kind, 0)
        # never skip a state type before its first two ordinary cases ran (quick tier: nv = 3 and nv = 2, all 3^n bases)
        if time.time() - t0 > budget and (done >= 2 or regime is not None):
            ctx.count("skipped_time_budget:" + kind + (":regime" if regime else ""))
            continue
        ctx.torch_seed()
        one_case(ctx, kind, nv, nh, na, regime=regime)
        if regime is None:
            ctx.count("completed_stream:" + kind)
    for kind in KINDS:
        if ctx.hist.get("completed:" + kind, 0) == 0:
            ctx.disagreements.append({"what": "no %s case was completed in this run: the clause is unchecked" % kind,
                                      "case": {"state": kind}, "detail": "time budget / generator produced no data set"})


def search(ctx, broken, budget):
    """Wider oracle-only sweep when the proof or the correspondence broke."""
    t0 = time.time()
    n0 = len(ctx.failures)
    fixed_large_cases(ctx)
    if len(ctx.failures) > n0:
        return ctx.failures[n0]
    fixed_regime_cases(ctx)
    if len(ctx.failures) > n0:
        return ctx.failures[n0]
    for rnd in range(50):
        random_large_case(ctx)
        if len(ctx.failures) > n0:
            return ctx.failures[n0]
        for kind, sh in (("complex", (2, 3, 0)), ("dm", (2, 1, 2))):
            one_case(ctx, kind, *sh, corr=False, regime=REGIMES[rnd % len(REGIMES)])
            if len(ctx.failures) > n0:
                return ctx.failures[n0]
        for kind in ("positive", "complex", "dm"):
            for (nv, nh, na) in [(1, 1, 1), (1, 2, 2), (2, 1, 1), (2, 3, 2), (2, 2, 1), (3, 2, 2)]:
                one_case(ctx, kind, nv, nh, na if kind == "dm" else 0, corr=False)
                if len(ctx.failures) > n0:
                    return ctx.failures[n0]
                if time.time() - t0 > budget:
                    return None
    return None


def replay(ctx, rec):
    case = rec.get("failing", {}).get("case") or {}
    if not case.get("state"):
        run(ctx)
        return
    if case.get(LARGE_MATCH_KEY):
        print("replay of", case["state"], "nv=%s nh=%s na=%s" % (case["nv"], case["nh"], case["na"]), "rows per basis:", case.get("rows_per_basis"))
        large_case(ctx, case["state"], case["nv"], case["nh"], case["na"], corr=True,
                   given={"am": case["am"], "ph": case["ph"], LARGE_MATCH_KEY: case[LARGE_MATCH_KEY], "perm_seed": case["perm_seed"]})
        return
    print("replay of", case["state"], "nv=%s nh=%s na=%s" % (case["nv"], case["nh"], case["na"]), "rows=%d" % len(case["bases"]))
    one_case(ctx, case["state"], case["nv"], case["nh"], case["na"], corr=True,
             given={"am": case["am"], "ph": case["ph"], "bases": case["bases"], "samples": case["samples"], "regime": case.get("regime")})
