"""C12 — Training follows the documented event protocol and honours stop requests
(+ the step-counting clause of C06: optimizer steps = batch ends, scheduler steps = epoch ends).

Correspondence: the REAL `fit` of Positive/Complex wavefunctions and DensityMatrix (tiny models, tiny data) is
driven by a script (starting_epoch, epochs, N, pos_batch_size, which callback raises `stop_training` at which
callback-event index, 0-3 user callbacks plus passive ones, time on/off, scheduler on/off, stop pre-set).
Callback 0 is a recording CallbackBase subclass with all six hooks (it writes the timeline); the other callbacks
take the documented public forms in rotation: LambdaCallback with all / some / none of its hooks given (the others
left at their default None), CallbackBase subclasses overriding only some hooks, a bare CallbackBase(); the
callbacks are handed over as list / tuple / CallbackList, progbar on now and then.  A recording optimizer class and
a recording scheduler class passed through `optimizer=` / `scheduler=` complete the timeline (callback events,
optimizer.step, scheduler.step); a parameter snapshot at every entry gives the version counter.  Timeline,
(callback index, event) deliveries of the hooks that exist, final flag and final version are compared, exactly,
with the extracted Coq machine `Protocol.fit_cbs` run on the same script (`c12_fit`).  (A hook left at None is a
no-op handler that is still called: in the model it is a callback that never raises, and its deliveries are simply
not observable.)

Regimes added after red-team round 2 (all inside "a stop requested during a batch or at an epoch end", "histories",
"configurations"): integer arguments handed over as numpy integers (np.int64 / np.int32 / an element of an integer
array) instead of Python ints; LambdaCallback hooks that are bound methods, functools.partial objects, callable
instances and nested functions with a closure (any callable of the documented arity); k = 0..3; a stop requested not by
a callback but by the user's optimizer (inside a batch) or scheduler (at the end of an epoch), with and WITHOUT
callbacks; histories in which an earlier run on the same object was aborted by an exception raised in a callback
(KeyboardInterrupt / RuntimeError, caught by the caller) before an ordinary run.  For the model a request raised by the
optimizer in batch (e, b) is the request of a callback at BatchStart e b, one raised by the scheduler in epoch e is the
request of a callback at EpochEnd e (same flag at every later poll).

Regimes added after black-box seed round 6 (objects the caller hands over, and what happens to them later): the `callbacks=`
argument in every form the unchanged library accepts and serves (CB_FORMS: list, tuple, CallbackList built four ways, nested
CallbackList, generator expression / function, iter(), filter, map, chain, islice, reversed, dict / OrderedDict / MappingProxyType /
keys and values views, deque, UserList, list subclass, user classes with only __getitem__ / only __iter__ / a one-shot iterator,
one-element frozenset and numpy object array; also EMPTY containers of each form when there is no callback) - rotated through a fixed
block that runs first, the enumerated scripts and the random stream, always with the same trace oracle; histories in which the SAME
container object holding the SAME callback objects (and the same data / bases / optimizer_args objects) is handed to a second and third
fit call with other settings (re-iterable forms; a single-pass iterable cannot be handed over twice); after every call the user's
callback objects must still be listed in the caller's container, as often and in the same order as before (objects the call ADDED to
the caller's container, and writes to data / bases / optimizer_args, are counted as information: the consequences the property talks
about are checked by the next call on the same objects).

Oracle (independent of model and code; demands only what the property statement says): a Python recogniser of the
documented grammar, the reference full run, the stop rules, "parameters identical between consecutive events unless
they are BatchStart e b -> BatchEnd e b", optimizer/scheduler step counts (C06), optimizer.step inside its batch,
pre-stopped run emits nothing and changes nothing, the request persists after fit returns, callbacks are served in
list order.

Informational only (histogram keys `info:*`, never a verdict): what is printed (Timer wording, number of lines,
"prints nothing"), the return value of fit, whether every batch moved the parameters, the setter's treatment of
borderline values (0, 1, numpy.bool_) and the class of the exception it raises."""
import io, time as _time, contextlib, itertools, functools, collections, types as _types
import numpy as np

RULE = ("fixed regimes first (every form of the callbacks= argument x three state types [31 forms: sequences, mappings and views, single-pass iterables, "
        "user-defined iterables, CallbackLists built in four ways, empty containers], the SAME container / callback / data objects handed to 2-3 calls with other settings, N = 0 rows, arguments left at their defaults incl. starting_epoch, 2-3 fit calls on one object with and without a flag reset, the same callback object listed twice, "
        "numpy-integer arguments, stop requested by the optimizer / scheduler with and without callbacks, a run aborted by an exception in a callback followed by ordinary runs, "
        "LambdaCallback hooks as bound method / partial / callable instance / closure, k = 0, 2, 3), then "
        "ALL scripts with starting_epoch in {1,3}, epochs 0..3 (quick) / 0..4 (thorough), batches per epoch 0..3 / 0..4 (0 = no rows, positive state) "
        "(N and pos_batch_size chosen to give that count, dividing and non-dividing, neg_batch_size varied), "
        "a stop raised at every callback-event index of the run or never, by callback 0 of 1, or callback 0 / 1 of 2 "
        "(callback 0: full CallbackBase subclass; the others rotate through LambdaCallback with all/some/no hooks, partial "
        "CallbackBase subclasses, bare CallbackBase(), passed in one of the 31 container forms in rotation, progbar occasionally), "
        "time on/off, scheduler on/off, three state types "
        "(quick: full product for positive, a rotating third of the callback/time/scheduler product for complex and mixed; "
        "thorough: full product + random larger scripts incl. negative/zero epochs), plus stop pre-set (explicitly and by "
        "persistence from a previous stopped run), runs without callbacks, and a malformed stream for the stop_training "
        "setter; non-trivial := at least one epoch runs")
ASSUMPTIONS = ["callbacks, optimizer and scheduler only ever raise stop_training (lowering it during a run is outside the property)",
               "integer arguments are Python ints or numpy integers (np.int64 / np.int32); floats, strings and other number-likes are not generated",
               "the recording optimizer is SGD with lr = 0.1 and weight_decay = 0.05 (passed through optimizer_args), so every "
               "optimizer.step moves the non-zero weights even when the CD gradient of a tiny batch happens to cancel exactly",
               "the callbacks= argument is any iterable of callbacks that the unchanged fit() accepts (it only tests its truth value and copies it with list()): "
               "the docstring says list[CallbackBase], seed C12f was judged IN because a collection whose callbacks silently receive no event at all breaks every clause of the statement; "
               "not generated: numpy object arrays with 0 or >= 2 elements (their truth value raises on the unchanged tree), sets with >= 2 elements (no list order), a bare callback",
               "objects that fit ADDS to the caller's own callbacks container (e.g. a Timer ending up in the user's list) and writes to the data / bases / optimizer_args "
               "objects are informational; only consequences for the events of a later call on the same objects are demanded",
               "the Timer appended by time=True is not observed (what it prints is informational only); that time=True leaves "
               "the user callbacks' protocol untouched is observed"]

TS, ES, BS, BE, EE, TE, OPT, SCHED = range(8)
NAMES = ["TrainStart", "EpochStart", "BatchStart", "BatchEnd", "EpochEnd", "TrainEnd", "OptStep", "SchedStep"]

# (N, pos_batch_size) pairs for a given number of batches per epoch: dividing and non-dividing
SHAPES = {0: [(0, 1), (0, 3)], 1: [(3, 5), (2, 2), (1, 1), (3, 100)], 2: [(3, 2), (4, 2), (2, 1)], 3: [(5, 2), (6, 2), (3, 1)],
          4: [(7, 2), (4, 1), (10, 3)], 5: [(9, 2), (5, 1)], 6: [(11, 2), (6, 1)], 7: [(13, 2), (7, 1)]}


# ----------------------------------------------------------------------------- driving the real fit
class Tape:
    def __init__(self, state):
        import torch
        self.torch = torch
        self.state = state
        self.params = [p for net in state.networks for p in getattr(state, net).parameters()]
        self.timeline = []       # [code, e, b, snapshot]
        self.deliveries = []     # (callback index, code, e, b)
        self.zero_grad_steps = 0
        self.nvis = 0            # callback events recorded so far (by callback 0)
        self.n_opt = 0           # optimizer steps so far
        self.n_sched = 0         # scheduler steps so far
        self.abort_exc = None    # the exception object a scripted callback raised (aborted run)

    def snap(self):
        return self.torch.cat([p.detach().reshape(-1) for p in self.params]).clone()

    def last_cb(self):
        for ent in reversed(self.timeline):
            if ent[0] <= TE:
                return ent
        return None

    def internal(self, kind):
        last = self.timeline[-1] if self.timeline else None
        if kind == OPT:
            e, b = (last[1], last[2]) if (last is not None and last[0] == BS) else (-1, -1)
        else:
            lc = self.last_cb()
            e, b = (lc[1], 0) if (lc is not None and lc[0] in (ES, BS, BE, EE)) else (-1, 0)
        self.timeline.append([kind, e, b, self.snap()])


ALL6 = (TS, ES, BS, BE, EE, TE)
HOOK = {TS: "on_train_start", TE: "on_train_end", ES: "on_epoch_start", EE: "on_epoch_end", BS: "on_batch_start", BE: "on_batch_end"}
SUBSETS = [ALL6, (TS, EE, TE), (ES, BS, BE), (BE, EE), (BS,), (TS, BS, BE, EE, TE), (EE,), (ES, TE)]
EXTRAS = [[], [("lambda", ())], [("base", (EE,))], [("bare", ()), ("lambda", (BE,))], [("base", (BS, TE))], [("lambda", ALL6)]]


HOOK_KINDS = ["plain lambda", "bound method", "functools.partial", "callable instance", "closure"]
ABORT_EXC = {"KeyboardInterrupt": KeyboardInterrupt, "RuntimeError": RuntimeError}
INT_TYPES = ["int", "numpy.int64", "numpy.int32", "element of an integer array"]


def as_int_type(v, itype):
    """An integer argument in the encoding `itype` (None stays None)."""
    if v is None or not itype:
        return v
    if itype == 1:
        return np.int64(v)
    if itype == 2:
        return np.int32(v)
    return np.arange(v + 1)[v] if v >= 0 else np.array([v])[0]


def eff_raise(case):
    """Index (in the callback-visible trace of the full run) of the event at which the scripted stop request takes
    effect, or -1 if nobody asks to stop in this run.  A request by the optimizer in its n-th step = batch (e, b) is
    seen by the same polls as one made at BatchStart e b; one by the scheduler in its n-th step = epoch e as one made
    at EpochEnd e."""
    if case.get("abort"):
        return -1
    start, epochs = case["start"], case["epochs"]
    nb = -(-case["N"] // case["bs"])
    full = full_run(start, epochs, nb)
    who = case.get("int_raiser", "")
    if who:
        n = case.get("int_at", -1)
        n_ep = max(0, epochs + 1 - start)
        if who == "opt":
            if n < 0 or n >= n_ep * nb:
                return -1
            return full.index((BS, start + n // nb, n % nb))
        if not case["sched"] or n < 0 or n >= n_ep:
            return -1
        return full.index((EE, start + n, 0))
    r = case["raise_at"]
    if r < 0 or case["raiser"] >= case["ncb"] or r >= len(full):
        return -1
    return r


def callback_forms(case):
    """Per callback (user callbacks 0..ncb-1, then passive extras): (form, hooks that exist).
    Callback 0 is always the full recorder; a scripted raiser always owns the hook of the event it raises at."""
    fv = case.get("fv", 0)
    m = case["ncb"]
    if m == 0:
        return []
    nb = -(-case["N"] // case["bs"])
    full = full_run(case["start"], case["epochs"], nb)
    r = case["raise_at"]
    need = full[r][0] if 0 <= r < len(full) else None
    forms = [("base", ALL6)]
    for j in range(1, m):
        hooks = SUBSETS[(fv + 3 * j) % len(SUBSETS)]
        if j == case["raiser"] and need is not None and need not in hooks:
            hooks = tuple(sorted(set(hooks) | {need}))
        forms.append(("lambda" if j % 2 == 1 else "base", tuple(hooks)))
    forms += EXTRAS[fv % len(EXTRAS)]
    return forms


def callback_positions(case):
    """Object index served at each position of the callback list.  dup = 1: [cb0, cb1, .., cb1] (object 1 listed
    again at the end), dup = 2: [cb0, cb1, cb1, ..] (listed twice in a row).  Callback 0 (the recorder) is unique."""
    n = len(callback_forms(case))
    pos = list(range(n))
    dup = case.get("dup", 0)
    if n >= 2 and dup == 1:
        pos = pos + [1]
    elif n >= 2 and dup == 2:
        pos = [0, 1, 1] + pos[2:]
    return pos



# ----------------------------------------------------------------------------- the forms of the `callbacks=` argument
# Every form below is accepted by the unchanged library (fit only ever does `callbacks if callbacks else []` and
# list(...) on it) and gets every event delivered, in iteration order.  (Probed and NOT generated: a numpy object array
# with 0 or >= 2 elements - its truth value raises; a bare callback that is not a CallbackList - not iterable.)
CB_FORMS = ["list", "tuple", "CallbackList", "generator expression", "generator function", "iter(list)", "iter(tuple)",
            "filter(None, [None, .., None])", "map(identity, list)", "dict values view", "dict keys view",
            "dict (callbacks are the keys)", "OrderedDict (callbacks are the keys)", "MappingProxyType (callbacks are the keys)",
            "collections.deque", "user sequence (__getitem__ + __len__)", "user sequence (__getitem__ only)",
            "user iterable (__iter__ only, re-iterable)", "user one-shot iterator (__iter__ returns self)", "itertools.chain",
            "reversed(list)", "itertools.islice", "list subclass", "collections.UserList", "CallbackList built from a generator",
            "CallbackList built by append / insert", "CallbackList + CallbackList", "list holding a nested CallbackList",
            "frozenset (one element)", "numpy object array (one element)", "generator over a dict's items"]
NFORMS = len(CB_FORMS)                     # 31
ONE_SHOT = {3, 4, 5, 6, 7, 8, 18, 19, 20, 21, 30}      # single-pass: can be iterated exactly once
DEDUP = {10, 11, 12, 13}                   # the callbacks are dict keys: an object listed twice would collapse
SINGLE = {28, 29}                          # only meaningful / accepted with exactly one element


class _SeqLen:
    def __init__(self, x):
        self.x = list(x)

    def __getitem__(self, i):
        return self.x[i]

    def __len__(self):
        return len(self.x)


class _SeqNoLen:
    def __init__(self, x):
        self.x = list(x)

    def __getitem__(self, i):
        return self.x[i]


class _Iterable:
    def __init__(self, x):
        self.x = list(x)

    def __iter__(self):
        return iter(self.x)


class _OneShot:
    def __init__(self, x):
        self.it = iter(list(x))

    def __iter__(self):
        return self

    def __next__(self):
        return next(self.it)


class _ListSub(list):
    pass


def _genfn(x):
    for c in x:
        yield c


def eff_cform(case):
    """Index into CB_FORMS of the form in which the callbacks of this script are handed to fit."""
    cf = case.get("cform")
    if cf is None:
        cf = case.get("fv", 0) % 3             # replay files written before the container forms existed
    pos = callback_positions(case)
    if cf in DEDUP and len(set(pos)) != len(pos):
        cf = 9                                 # an object is listed twice: values view instead of keys
    if cf in SINGLE and len(pos) != 1:
        cf = 6
    return int(cf)


def wrap_callbacks(cbs, cf):
    """The list `cbs` of callback objects in container form `cf`."""
    from qucumber.callbacks.callback_list import CallbackList
    cbs = list(cbs)
    if cf == 0:
        return cbs
    if cf == 1:
        return tuple(cbs)
    if cf == 2:
        return CallbackList(cbs)
    if cf == 3:
        return (c for c in cbs)
    if cf == 4:
        return _genfn(cbs)
    if cf == 5:
        return iter(cbs)
    if cf == 6:
        return iter(tuple(cbs))
    if cf == 7:
        return filter(None, [None] + cbs + [None])
    if cf == 8:
        return map(lambda c: c, cbs)
    if cf == 9:
        return {i: c for i, c in enumerate(cbs)}.values()
    if cf == 10:
        return {c: i for i, c in enumerate(cbs)}.keys()
    if cf == 11:
        return {c: i for i, c in enumerate(cbs)}
    if cf == 12:
        return collections.OrderedDict((c, i) for i, c in enumerate(cbs))
    if cf == 13:
        return _types.MappingProxyType({c: i for i, c in enumerate(cbs)})
    if cf == 14:
        return collections.deque(cbs)
    if cf == 15:
        return _SeqLen(cbs)
    if cf == 16:
        return _SeqNoLen(cbs)
    if cf == 17:
        return _Iterable(cbs)
    if cf == 18:
        return _OneShot(cbs)
    if cf == 19:
        return itertools.chain(cbs[:1], cbs[1:])
    if cf == 20:
        return reversed(cbs[::-1])
    if cf == 21:
        return itertools.islice(cbs + [None], len(cbs))
    if cf == 22:
        return _ListSub(cbs)
    if cf == 23:
        return collections.UserList(cbs)
    if cf == 24:
        return CallbackList(c for c in cbs)
    if cf == 25:
        out = CallbackList([])
        for c in cbs[1:]:
            out.append(c)
        for c in cbs[:1]:
            out.insert(0, c)
        return out
    if cf == 26:
        return CallbackList(cbs[:1]) + CallbackList(cbs[1:])
    if cf == 27:
        return cbs[:1] + [CallbackList(cbs[1:])]
    if cf == 28:
        return frozenset(cbs)
    if cf == 29:
        arr = np.empty(len(cbs), dtype=object)
        for i, c in enumerate(cbs):
            arr[i] = c
        return arr
    return (c for _, c in {i: c for i, c in enumerate(cbs)}.items())


def container_snapshot(obj):
    """Identities of the callback objects a (re-iterable) container lists, nested CallbackLists expanded."""
    from qucumber.callbacks.callback_list import CallbackList
    return [("CallbackList", container_snapshot(c)) if isinstance(c, CallbackList) else id(c) for c in obj]


class Box:
    """What the callback objects of a script refer to at call time (so the SAME callback objects and the SAME
    container can be handed to a second fit call with another script)."""
    tape = None
    case = None


def can_reuse(shared, case):
    return bool(shared and case.get("reuse") and case["ncb"] > 0 and shared["reiterable"] and shared["cform"] == eff_cform(case)
                and shared["forms"] == callback_forms(case) and shared["positions"] == callback_positions(case))


def make_callbacks(box, case):
    """The callbacks of a script in their public forms (see callback_forms), listed as callback_positions says."""
    from qucumber.callbacks import CallbackBase, LambdaCallback
    def handle(j, nn_state, code, e, b):
        tape, case = box.tape, box.case                # the run in progress (the objects may serve several runs)
        raise_i = case["raise_at"]
        raiser = case["raiser"] if case["raiser"] < case["ncb"] else -1      # passive extras never raise
        if j == 0:
            tape.timeline.append([code, e, b, tape.snap()])
            tape.nvis += 1
        k = tape.nvis - 1          # ordinal of the current callback event (callback 0 always runs first)
        tape.deliveries.append((j, code, e, b))
        if j == raiser and k == raise_i:
            if case.get("abort"):                      # the run is aborted by an exception the caller catches
                tape.abort_exc = ABORT_EXC[case["abort"]]("scripted abort in a callback")
                raise tape.abort_exc
            nn_state.stop_training = True

    def hook_fn(j, code, bound):
        if code in (TS, TE):
            f = (lambda self, s: handle(j, s, code, 0, 0)) if bound else (lambda s: handle(j, s, code, 0, 0))
        elif code in (ES, EE):
            f = (lambda self, s, ep: handle(j, s, code, ep, 0)) if bound else (lambda s, ep: handle(j, s, code, ep, 0))
        else:
            f = (lambda self, s, ep, b: handle(j, s, code, ep, b)) if bound else (lambda s, ep, b: handle(j, s, code, ep, b))
        return f

    def lambda_hook(j, code):
        """The hook handed to LambdaCallback, in rotating kinds of callable (all of the documented arity)."""
        kind = HOOK_KINDS[(case.get("hk", 0) + j + code) % len(HOOK_KINDS)]
        if kind == "plain lambda":
            return hook_fn(j, code, False)
        if kind == "bound method":                     # on_epoch_end=logger.log
            return type("Log%d" % j, (), {"log": hook_fn(j, code, True)})().log
        if kind == "functools.partial":
            return functools.partial(hook_fn(j, code, True), object())
        if kind == "callable instance":
            return type("Call%d" % j, (), {"__call__": hook_fn(j, code, True)})()
        inner = hook_fn(j, code, False)                # nested function with a closure
        if code in (TS, TE):
            def closure_hook(s):
                return inner(s)
        elif code in (ES, EE):
            def closure_hook(s, ep):
                return inner(s, ep)
        else:
            def closure_hook(s, ep, b):
                return inner(s, ep, b)
        return closure_hook

    out = []
    for j, (form, hooks) in enumerate(callback_forms(case)):
        if form == "bare":
            out.append(CallbackBase())
        elif form == "base":
            cls = type("Rec%d" % j, (CallbackBase,), {HOOK[c]: hook_fn(j, c, True) for c in hooks})
            out.append(cls())
        else:
            out.append(LambdaCallback(**{HOOK[c]: lambda_hook(j, c) for c in hooks}))
    return [out[j] for j in callback_positions(case)]


def make_optimizer(tape, case=None):
    import torch

    class RecSGD(torch.optim.SGD):
        def step(self, closure=None):
            tape.zero_grad_steps += int(all(p.grad is None or not bool(p.grad.any()) for p in tape.params))
            r = super().step(closure)
            tape.internal(OPT)
            if case is not None and case.get("int_raiser") == "opt" and tape.n_opt == case.get("int_at", -1):
                tape.state.stop_training = True        # a stop requested during a batch, not by a callback
            tape.n_opt += 1
            return r
    return RecSGD


def make_scheduler(tape, case=None):
    class RecSched:
        def __init__(self, optimizer, **kw):
            self.optimizer = optimizer

        def step(self):
            tape.internal(SCHED)
            if case is not None and case.get("int_raiser") == "sched" and tape.n_sched == case.get("int_at", -1):
                tape.state.stop_training = True        # a stop requested at the end of an epoch, not by a callback
            tape.n_sched += 1
    return RecSched


def build_state(kind, dseed):
    import torch
    from qucumber.nn_states import PositiveWaveFunction, ComplexWaveFunction, DensityMatrix
    torch.manual_seed(dseed)
    if kind == "positive":
        return PositiveWaveFunction(2, 2, gpu=False)
    if kind == "complex":
        return ComplexWaveFunction(2, 2, gpu=False)
    return DensityMatrix(2, 2, 2, gpu=False)


def build_data(kind, N, dseed, form="numpy"):
    rng = np.random.default_rng(dseed)
    data = rng.integers(0, 2, size=(N, 2)).astype(float)
    if form == "tensor":
        import torch
        data = torch.tensor(data, dtype=torch.double)
    if kind == "positive":
        return data, None
    bases = np.array([list(b) for b in rng.choice(["ZZ", "XZ", "ZY", "XX", "ZZ"], size=N)]).reshape(N, 2)
    if N:
        bases[0] = ["Z", "Z"]      # the negative phase needs at least one reference-basis sample
    return data, bases


def parse_timer(out):
    msgs, other = [], []
    for line in out.splitlines():
        line = line.strip()
        if not line:
            continue
        if line.startswith("Training terminated at epoch:"):
            rest = line[len("Training terminated at epoch:"):]
            if "batch:" in rest:
                e, b = rest.split(", batch:")
                msgs.append([0, int(e), int(b)])
            else:
                msgs.append([1, int(rest), 0])
        elif line.startswith("Total time elapsed during training:"):
            msgs.append([2, 0, 0])
        else:
            other.append(line)
    return msgs, other


def drive(case, state=None, shared=None):
    """Run the real fit for one script. Returns a dict of observations (or raises).  `shared`: the argument objects of
    the previous call of the history; they are handed over AGAIN (the same container of the same callback objects, the
    same data / bases arrays, the same optimizer_args dict) when the script says reuse and they fit this script."""
    import torch
    kind = case["state"]
    s = state if state is not None else build_state(kind, case["dseed"])
    tape = Tape(s)
    m = case["ncb"]
    fv = case.get("fv", 0)
    cf = eff_cform(case)
    prev = shared if can_reuse(shared, case) else None
    data_key = (kind, case["N"], case["dseed"], case.get("data_form", "numpy"))
    if prev is not None and prev["data_key"] == data_key:
        data, bases, oargs = prev["data"], prev["bases"], prev["oargs"]
    else:
        data, bases = build_data(kind, case["N"], case["dseed"], case.get("data_form", "numpy"))
        oargs = {"weight_decay": 0.05}
    if prev is not None:
        box, objs, cbs = prev["box"], prev["objs"], prev["container"]
    else:
        box = Box()
        objs = make_callbacks(box, case)
        cbs = wrap_callbacks(objs, cf)
    box.tape, box.case = tape, case
    reiterable = cf not in ONE_SHOT
    cont_before = container_snapshot(cbs) if (m and reiterable) else None
    arg_before = (np.array(data, copy=True) if not torch.is_tensor(data) else data.clone(), None if bases is None else bases.copy(), dict(oargs))
    if case["prestopped"] == "explicit":
        s.stop_training = True
    before = tape.snap()
    flag_before = s.stop_training
    I = lambda v: as_int_type(v, case.get("itype", 0))
    kw = dict(epochs=I(case["epochs"]), pos_batch_size=I(case["bs"]), neg_batch_size=I(case["neg_bs"]), k=I(case.get("k", 1)), lr=0.1,
              starting_epoch=I(case["start"]), time=case["time"], callbacks=(cbs if m else (wrap_callbacks([], cf) if fv % 2 else None)),
              optimizer=make_optimizer(tape, case), optimizer_args=oargs)
    if case.get("defaults"):
        # every argument that has its documented default value is left out (starting_epoch=1, time=False,
        # neg_batch_size=None, k=1, callbacks=None, epochs=100, pos_batch_size=100; lr takes its default too)
        DEF = {"epochs": 100, "pos_batch_size": 100, "neg_batch_size": None, "k": 1, "starting_epoch": 1, "time": False}
        for name, dv in DEF.items():
            if kw[name] is dv or (dv is not None and not isinstance(dv, bool) and kw[name] == dv):
                del kw[name]
        del kw["lr"]
        if not m:
            del kw["callbacks"]
    if case["sched"]:
        kw["scheduler"] = make_scheduler(tape, case)
    if bases is not None:
        kw["input_bases"] = bases
    if fv % 16 == 5:
        kw["progbar"] = True
    args = [data]
    if case.get("positional") and "epochs" in kw and "pos_batch_size" in kw:
        args += [kw.pop("epochs"), kw.pop("pos_batch_size")]      # fit(data, epochs, pos_batch_size, ...)
    buf = io.StringIO()
    torch.manual_seed(case["dseed"] + 1)
    ret, aborted = None, False
    with contextlib.redirect_stdout(buf), contextlib.redirect_stderr(io.StringIO()):
        try:
            ret = s.fit(*args, **kw)
        except BaseException as ex:
            if tape.abort_exc is None or ex is not tape.abort_exc:
                raise
            aborted = True                             # the caller catches the exception its callback raised
    after = tape.snap()
    # versions: number of parameter changes seen so far
    log, v, prev = [], 0, before
    for code, e, b, sn in tape.timeline:
        if not torch.equal(sn, prev):
            v += 1
        prev = sn
        log.append([code, int(e), int(b), v])
    tmsgs, other = parse_timer(buf.getvalue())
    cont_after = container_snapshot(cbs) if (m and reiterable) else None
    same = lambda a, b: (a is None and b is None) or (torch.equal(a, b) if torch.is_tensor(a) else np.array_equal(a, b))
    args_same = {"data": same(arg_before[0], data), "input_bases": same(arg_before[1], bases), "optimizer_args": arg_before[2] == oargs}
    nxt = {"box": box, "objs": objs, "container": cbs, "reiterable": reiterable, "cform": cf, "forms": callback_forms(case),
           "positions": callback_positions(case), "data_key": data_key, "data": data, "bases": bases, "oargs": oargs}
    return {"shared": nxt, "reused": prev is not None, "cform": cf, "container_before": cont_before, "container_after": cont_after,
            "args_same": args_same, "state_obj": s, "zero_grad_steps": tape.zero_grad_steps, "log": log, "timeline": tape.timeline, "before": before, "after": after,
            "flag_before": flag_before, "flag": s.stop_training, "deliveries": [list(map(int, d)) for d in tape.deliveries],
            "timer": tmsgs, "other_output": other, "ret": ret, "aborted": aborted}


# ----------------------------------------------------------------------------- the independent oracle
def full_run(start, epochs, nb):
    t = [(TS, 0, 0)]
    for e in range(start, epochs + 1):
        t.append((ES, e, 0))
        for b in range(nb):
            t.append((BS, e, b))
            t.append((BE, e, b))
        t.append((EE, e, 0))
    t.append((TE, 0, 0))
    return t


def grammar_problems(tr, start, epochs=None, nb=None):
    """Recogniser of  TS (ES e (BS e b BE e b)^{b=0..} EE e)^{e=start..} TE ; returns a list of problems."""
    if not tr or tr[0] != (TS, 0, 0):
        return ["does not begin with TrainStart"]
    i, e = 1, start
    n = len(tr)
    while i < n and tr[i][0] == ES:
        if tr[i] != (ES, e, 0):
            return ["event %d: expected EpochStart %d, got %r" % (i, e, tr[i])]
        if epochs is not None and e > epochs:
            return ["event %d: epoch %d beyond the last epoch %d" % (i, e, epochs)]
        i += 1
        b = 0
        while i < n and tr[i][0] == BS:
            if tr[i] != (BS, e, b):
                return ["event %d: expected BatchStart %d %d, got %r" % (i, e, b, tr[i])]
            if nb is not None and b >= nb:
                return ["event %d: batch %d beyond the %d batches of an epoch" % (i, b, nb)]
            if i + 1 >= n or tr[i + 1] != (BE, e, b):
                return ["event %d: BatchStart %d %d not followed by its BatchEnd" % (i, e, b)]
            i += 2
            b += 1
        if i >= n or tr[i] != (EE, e, 0):
            return ["event %d: expected EpochEnd %d, got %r" % (i, e, tr[i] if i < n else None)]
        i += 1
        e += 1
    if i >= n or tr[i] != (TE, 0, 0):
        return ["event %d: expected TrainEnd, got %r" % (i, tr[i] if i < n else None)]
    if i != n - 1:
        return ["%d events after TrainEnd" % (n - 1 - i)]
    return []


def oracle(ctx, case, obs):
    """The property relation evaluated on the implementation's own observations."""
    import torch
    start, epochs = case["start"], case["epochs"]
    nb = -(-case["N"] // case["bs"])
    tl = obs["timeline"]
    vis = [(c, int(e), int(b)) for c, e, b, _ in tl if c <= TE]
    vsn = [sn for c, e, b, sn in tl if c <= TE]
    pre = bool(obs["flag_before"])
    m = case["ncb"]
    R = lambda what, ok, detail="": ctx.require(what, bool(ok), case, detail)
    show = lambda t: [(NAMES[c], e, b) for c, e, b in t][:40]

    # ---- the caller's container of callbacks is the caller's: a later call that is handed the same object must serve the
    #      same callbacks in the same order (the history with the SAME container checks the consequence with the trace oracle)
    if obs.get("container_before") is not None:
        bef, aft = obs["container_before"], obs["container_after"]
        kept = [x for x in aft if x in bef]            # objects the call ADDED to the caller's container are not the user's
        R("the caller's callbacks container still lists the user's callback objects, each as often as before and in the same order, after fit",
          kept == bef, {"container": CB_FORMS[obs["cform"]], "listed before": len(bef), "of them listed after": len(kept)})
        ctx.count("info:the caller's callbacks container %s" % ("is as it was after fit" if aft == bef else "GREW / was re-nested by fit"))
    for name, same in obs.get("args_same", {}).items():          # not part of the property: informational
        ctx.count("info:argument object %s %s by fit" % (name, "left as it was" if same else "WRITTEN"))
    if obs.get("aborted"):
        # a callback raised an exception and the caller caught it: nothing is demanded of the aborted run beyond
        # causality (what was emitted before the exception is the beginning of the full run)
        want = full_run(start, epochs, nb)[:case["raise_at"] + 1]
        R("aborted run: the events emitted before the exception are those of the full run", vis == want, {"got": show(vis), "want": show(want)})
        return
    if pre:
        R("pre-stopped run emits no event and takes no optimizer/scheduler step", len(tl) == 0 and not obs["deliveries"], show([(c, e, b) for c, e, b, _ in tl]))
        R("pre-stopped run changes no parameter", torch.equal(obs["before"], obs["after"]))
        R("pre-stopped run: the request persists", obs["flag"] is True)
        ctx.count("info:pre-stopped run printed %s" % ("nothing" if not obs["timer"] and not obs["other_output"] else "something"))
        return
    if m == 0:
        # no user callback: only the internal steps are observable
        n_opt = sum(1 for c, *_ in tl if c == OPT)
        n_sch = sum(1 for c, *_ in tl if c == SCHED)
        n_ep = max(0, epochs + 1 - start)
        if eff_raise(case) < 0:
            R("without callbacks: one optimizer step per batch of every epoch", n_opt == n_ep * nb, (n_opt, n_ep, nb))
            R("without callbacks: one scheduler step per epoch", n_sch == (n_ep if case["sched"] else 0), (n_sch, n_ep))
            R("flag stays down when nobody asks to stop", obs["flag"] is False)
        else:
            # the user's optimizer / scheduler asks to stop (public stop_training setter) and there is no callback
            n = case["int_at"]
            if case["int_raiser"] == "opt":            # during batch n % nb of epoch number n // nb of the run
                want_opt, want_ep, when = n + 1, n // nb + 1, "during a batch (by the optimizer)"
            else:                                      # at the end of epoch number n of the run
                want_opt, want_ep, when = (n + 1) * nb, n + 1, "at an epoch end (by the scheduler)"
            R("without callbacks, stop requested %s: no further batch or epoch begins (optimizer steps)" % when,
              n_opt == want_opt, {"optimizer steps": n_opt, "expected": want_opt})
            R("without callbacks, stop requested %s: the scheduler steps once per epoch begun" % when,
              n_sch == (want_ep if case["sched"] else 0), {"scheduler steps": n_sch, "epochs begun": want_ep})
            R("without callbacks, stop requested %s: the request persists" % when, obs["flag"] is True)
        return

    # ---- grammar
    probs = grammar_problems(vis, start, epochs, nb)
    R("event trace is generated by the documented grammar", not probs, {"problems": probs, "trace": show(vis)})
    R("TrainStart exactly once", sum(1 for x in vis if x[0] == TS) == 1, show(vis))
    R("TrainEnd exactly once and last", sum(1 for x in vis if x[0] == TE) == 1 and vis and vis[-1][0] == TE, show(vis))

    # ---- stop rules
    full = full_run(start, epochs, nb)
    r = eff_raise(case)
    who = case.get("int_raiser", "")
    raised = (0 <= r < len(vis))
    if r < 0:
        R("no stop request: every epoch start..epochs with all its batches", vis == full, {"got": show(vis), "want": show(full)})
    else:
        R("the run reaches the event at which the stop is requested", raised, {"got": show(vis), "index": r})
    if raised:
        R("events up to the stop request are those of the full run", vis[:r + 1] == full[:r + 1],
          {"got": show(vis[:r + 1]), "want": show(full[:r + 1])})
        X = vis[r]
        rest = vis[r + 1:]
        if X[0] == BS:
            R("stop during a batch (raised %s): only its BatchEnd, the EpochEnd and TrainEnd follow" % ("by the optimizer" if who else "at BatchStart"),
              rest == [(BE, X[1], X[2]), (EE, X[1], 0), (TE, 0, 0)], show(rest))
        elif X[0] == BE:
            R("stop during a batch (raised at BatchEnd): only the EpochEnd and TrainEnd follow",
              rest == [(EE, X[1], 0), (TE, 0, 0)], show(rest))
        elif X[0] == EE:
            R("stop at an epoch end%s: only TrainEnd follows" % (" (raised by the scheduler)" if who else ""), rest == [(TE, 0, 0)], show(rest))
        elif X[0] in (ES, TS):
            R("stop at train/epoch start: at most the one following batch runs",
              sum(1 for x in rest if x[0] == BS) <= 1 and sum(1 for x in rest if x[0] == ES) <= (1 if X[0] == TS else 0)
              and rest and rest[-1] == (TE, 0, 0), show(rest))
            if X[0] == ES:
                R("stop at epoch start: the epoch's end event still fires", (EE, X[1], 0) in rest, show(rest))
        elif X[0] == TE:
            R("nothing after TrainEnd", rest == [], show(rest))
    R("the stop request persists after fit returns (and is not invented)", obs["flag"] is bool(raised), (obs["flag"], raised))

    # ---- parameters change only inside batches (whether every batch moved them is informational)
    ok_same, ok_changed, where = True, True, None
    if vsn:
        if not torch.equal(obs["before"], vsn[0]):
            ok_same, where = False, "before fit -> first event"
        if not torch.equal(obs["after"], vsn[-1]):
            ok_same, where = False, "last event -> after fit"
    for i in range(len(vis) - 1):
        same = torch.equal(vsn[i], vsn[i + 1])
        inside = (vis[i][0] == BS and vis[i + 1] == (BE, vis[i][1], vis[i][2]))
        if inside and same:
            ok_changed, where = False, show(vis[i:i + 2])
        if not inside and not same:
            ok_same, where = False, show(vis[i:i + 2])
    R("parameters identical between consecutive events unless BatchStart e b -> BatchEnd e b", ok_same, where)
    ctx.count("info:every batch moved the parameters" if ok_changed else "info:some batch left the parameters unchanged")

    # ---- optimizer / scheduler steps (C06 step counting)
    codes = [c for c, *_ in tl]
    n_opt, n_be = codes.count(OPT), codes.count(BE)
    n_sch, n_ee = codes.count(SCHED), codes.count(EE)
    R("number of optimizer steps == number of BatchEnd events", n_opt == n_be, (n_opt, n_be))
    R("number of scheduler steps == number of EpochEnd events (scheduler given) / 0", n_sch == (n_ee if case["sched"] else 0), (n_sch, n_ee))
    okpos, schpos = True, True
    for i, c in enumerate(codes):
        if c == OPT:
            okpos &= (i > 0 and codes[i - 1] == BS and i + 1 < len(codes) and codes[i + 1] == BE)
        if c == SCHED:
            schpos &= (i + 1 < len(codes) and codes[i + 1] == EE and i > 0 and codes[i - 1] in (BE, ES))
    R("optimizer.step lies between BatchStart and its BatchEnd", okpos, [NAMES[c] for c in codes][:60])
    if case["sched"]:
        ctx.count("info:scheduler.step directly before EpochEnd" if schpos else "info:scheduler.step elsewhere in the epoch")

    # ---- dispatch order
    forms = callback_forms(case)
    positions = callback_positions(case)
    want = [[j, c, e, b] for (c, e, b) in vis for j in positions if c in forms[j][1]]
    R("every event reaches the callbacks (every hook that exists) in list order", obs["deliveries"] == want,
      {"got": obs["deliveries"][:12], "want": want[:12], "forms": forms, "list positions -> callback object": positions})

    # ---- what is printed is not part of the property: informational
    if not case["time"]:
        ctx.count("info:time=False printed %s" % ("nothing" if not obs["timer"] and not obs["other_output"] else "something"))


# ----------------------------------------------------------------------------- one case
def model_run(ctx, case):
    m = ctx.get_model()
    nb = int(m.call("c12_num_batches", case["N"], case["bs"]))
    raiser = case["raiser"]
    r = case["raise_at"] if (case["raise_at"] >= 0 and raiser < case["ncb"] and not case.get("abort")) else -1
    pre = 1 if case["prestopped"] else 0
    total = len(callback_positions(case))      # list positions: user callbacks + passive extras (+ a repeated object)
    jr = raiser if raiser < case["ncb"] else total
    if case.get("int_raiser"):
        # a request by the optimizer / scheduler: in the model, callback 0 raises at the equivalent callback event
        # (a virtual callback when the run has none: only the internal steps, flag and version are compared then)
        r, jr, total = eff_raise(case), 0, max(total, 1)
    out = m.call("c12_fit", case["start"], case["epochs"], nb, pre, 1 if case["sched"] else 0, r,
                 total, jr, 1 if case["time"] else 0, 0)
    log, stop, ver, dl, tm, rec = out
    I = lambda rows: [[int(x) for x in row] for row in rows]
    return {"nb": nb, "log": I(log), "stop": bool(stop), "ver": int(ver), "deliveries": I(dl), "timer": I(tm), "recognised": bool(rec)}


def run_case(ctx, case, state=None, shared=None):
    case = dict(case, callbacks_as=(CB_FORMS[eff_cform(case)] if (case["ncb"] or case.get("fv", 0) % 2) else "None"))
    nb_py = -(-case["N"] // case["bs"])
    n_ep = max(0, case["epochs"] + 1 - case["start"])
    desc = {k: case.get(k, 0) for k in ("state", "start", "epochs", "N", "bs", "neg_bs", "raise_at", "ncb", "raiser", "time", "sched", "prestopped", "fv",
                                           "defaults", "positional", "data_form", "dup", "itype", "hk", "k", "int_raiser", "int_at", "abort", "reuse")}
    desc["cform"] = eff_cform(case)
    desc["history"] = len(case.get("hist", []))
    ctx.case(desc, nontrivial=(n_ep >= 1 and not case["prestopped"]))
    ctx.count("state:" + case["state"]); ctx.count("nb:%d" % nb_py); ctx.count("epochs_run:%d" % n_ep)
    ctx.count("ncb:%d" % case["ncb"]); ctx.count("time:%s" % case["time"]); ctx.count("sched:%s" % case["sched"])
    ctx.count("stop:" + ("preset" if case["prestopped"] else "run aborted by an exception in a callback" if case.get("abort") else
                         "scripted, by the %s" % {"opt": "optimizer", "sched": "scheduler"}[case["int_raiser"]] if case.get("int_raiser") else
                         "never" if case["raise_at"] < 0 else "scripted"))
    ctx.count("integer arguments as:" + INT_TYPES[case.get("itype", 0)])
    ctx.count("k:%d" % case.get("k", 1))
    forms = callback_forms(case)
    for j_, (form, hooks) in enumerate(forms):
        if j_ == 0:
            continue
        ctx.count("callback form:%s/%s" % (form, "all hooks" if len(hooks) == 6 else "no hook" if not hooks else "some hooks"))
        if form == "lambda":
            for c_ in hooks:
                ctx.count("LambdaCallback hook given as:" + HOOK_KINDS[(case.get("hk", 0) + j_ + c_) % len(HOOK_KINDS)])
    if case["ncb"]:
        ctx.count("callbacks passed as:" + CB_FORMS[eff_cform(case)])
        ctx.count("callbacks container is %s" % ("a single-pass iterable" if eff_cform(case) in ONE_SHOT else "re-iterable"))
        ctx.count("callbacks container / callback objects / data / optimizer_args are the SAME objects as in the previous call:%s" % can_reuse(shared, case))
        ctx.count("progbar:%s" % (case.get("fv", 0) % 16 == 5))
        ctx.count("same callback object listed twice:%s" % (len(callback_positions(case)) > len(forms)))
    ctx.count("arguments at their default are omitted:%s" % bool(case.get("defaults")))
    ctx.count("starting_epoch omitted (default):%s" % bool(case.get("defaults") and case["start"] == 1))
    ctx.count("data as:%s%s" % (case.get("data_form", "numpy"), ", epochs/pos_batch_size positional" if case.get("positional") else ""))
    ctx.count("earlier fit calls on the same object:%d" % len(case.get("hist", [])))
    if not case["ncb"] and case.get("fv", 0) % 2:
        ctx.count("no callbacks, passed as an empty:" + CB_FORMS[eff_cform(case)])
    ok, obs = ctx.call("fit", case, drive, case, state, shared)
    if not ok:
        return None
    if obs["aborted"]:
        # the model says nothing about a run cut short by an exception; the NEXT runs on this object are checked in full
        oracle(ctx, case, obs)
        ctx.traces += 1
        return obs
    mod = model_run(ctx, case)
    m = case["ncb"]
    ctx.count("optimizer steps with an exactly zero CD gradient", obs["zero_grad_steps"])
    # ---- correspondence
    ctx.agree_exact("batches per epoch (ceil(N/pos_batch_size))", nb_py, mod["nb"], case)
    if m > 0 or case["prestopped"]:
        ctx.agree_exact("timeline (callback events, optimizer/scheduler steps, parameter versions)", obs["log"], mod["log"], case)
        positions = callback_positions(case)
        ctx.agree_exact("deliveries (callback index, event) to the hooks that exist", obs["deliveries"],
                        [[positions[d[0]]] + d[1:] for d in mod["deliveries"]
                         if d[0] < len(positions) and d[1] in forms[positions[d[0]]][1]], case)
        if case["time"]:           # informational: the property does not say what the timing callback prints
            same = (obs["timer"] == ([] if case["prestopped"] else mod["timer"])) and not obs["other_output"]
            ctx.count("info:Timer output %s" % ("as modelled" if same else "differs from the model"))
        if not case["prestopped"]:
            ctx.agree_exact("model recogniser accepts the model trace", True, mod["recognised"], case)
    else:
        ctx.agree_exact("optimizer/scheduler steps without callbacks",
                        [r[:1] for r in obs["log"]], [r[:1] for r in mod["log"] if r[0] >= OPT], case)
    ctx.agree_exact("final stop flag", bool(obs["flag"]), mod["stop"], case)
    ctx.agree_exact("final parameter version", obs["log"][-1][3] if obs["log"] else 0, mod["ver"], case)
    ctx.count("info:fit returned %s" % ("None" if obs["ret"] is None else type(obs["ret"]).__name__))
    # ---- oracle
    oracle(ctx, case, obs)
    ctx.traces += 1
    return obs


def mk(kind, start, epochs, N, bs, raise_at=-1, ncb=1, raiser=0, time=False, sched=False, prestopped="", neg_bs=None, dseed=11, fv=0,
       defaults=None, positional=None, data_form=None, dup=None, itype=None, hk=None, k=None, int_raiser="", int_at=-1, abort="",
       cform=None, reuse=False):
    fv = int(fv)
    return {"cform": int((fv % 3 if fv % 4 == 0 else fv % NFORMS) if cform is None else cform), "reuse": bool(reuse),
            "itype": int((1 if fv % 11 == 4 else 2 if fv % 11 == 8 else 3 if fv % 13 == 6 else 0) if itype is None else itype),
            "hk": int(fv % 5 if hk is None else hk), "k": int([1, 1, 1, 2, 1, 3, 1, 0][fv % 8] if k is None else k),
            "int_raiser": int_raiser, "int_at": int(int_at), "abort": abort,
            "defaults": bool(fv % 2 == 1 if defaults is None else defaults),
            "positional": bool(fv % 5 == 2 if positional is None else positional),
            "data_form": (("tensor" if fv % 4 == 2 else "numpy") if data_form is None else data_form),
            "dup": int((1 if fv % 7 == 3 else 2 if fv % 7 == 5 else 0) if dup is None else dup),
            "fv": fv, "state": kind, "start": int(start), "epochs": int(epochs), "N": int(N), "bs": int(bs), "neg_bs": neg_bs,
            "raise_at": int(raise_at), "ncb": int(ncb), "raiser": int(raiser), "time": bool(time), "sched": bool(sched),
            "prestopped": prestopped, "dseed": int(dseed)}


CONFIGS = [(ncb, raiser, time, sched) for (ncb, raiser) in ((1, 0), (2, 0), (2, 1)) for time in (False, True) for sched in (False, True)]


def scripts(max_epochs, max_nb):
    for start in (1, 3):
        for epochs in range(0, max_epochs + 1):
            for nb in range(0, max_nb + 1):
                n_events = len(full_run(start, epochs, nb))
                for r in [-1] + list(range(n_events)):
                    yield start, epochs, nb, r


def enumerate_cases(ctx, max_epochs, max_nb, full_product):
    k = 0
    for si, (start, epochs, nb, r) in enumerate(scripts(max_epochs, max_nb)):
        for ki, kind in enumerate(("positive", "complex", "mixed")):
            if nb == 0 and kind != "positive":
                continue              # no reference-basis row to sample negatives from: outside fit's working domain
            if full_product:
                cfgs = CONFIGS
            elif kind == "positive":
                cfgs = [c for c in CONFIGS if c[3] == (si % 2 == 0)]
            else:
                cfgs = [CONFIGS[(2 * si + ki + i * 5) % len(CONFIGS)] for i in range(2)]
            for (ncb, raiser, time, sched) in cfgs:
                N, bs = SHAPES[nb][k % len(SHAPES[nb])]
                neg = [None, bs + 1, 1][k % 3] if (k % 4 == 0 and N > 0) else None
                k += 1
                yield mk(kind, start, epochs, N, bs, r, ncb, raiser, time, sched, neg_bs=neg, dseed=int(ctx.rng.integers(1, 10 ** 6)), fv=k)


def extras(ctx):
    """pre-stopped runs, persistence, runs without callbacks, out-of-range script indices, setter stream."""
    fv = 0
    for kind in ("positive", "complex", "mixed"):
        for (start, epochs, nb) in ((1, 2, 2), (3, 3, 1), (1, 0, 3), (2, 3, 3)):
            N, bs = SHAPES[nb][0]
            fv += 7
            for (ncb, time, sched) in ((1, False, False), (2, True, True), (1, True, False)):
                yield ("single", mk(kind, start, epochs, N, bs, -1, ncb, 0, time, sched, prestopped="explicit", fv=fv))
            # persistence: a stopped run, then another fit on the same object without resetting the flag
            yield ("persist", mk(kind, start, epochs, N, bs, 2, 2, 1, True, True, fv=fv))
            # no callbacks at all
            yield ("single", mk(kind, start, epochs, N, bs, -1, 0, 0, False, True, fv=fv))
            yield ("single", mk(kind, start, epochs, N, bs, -1, 0, 0, False, False, fv=fv))
            # no callbacks, and the scheduler / the optimizer asks to stop
            yield ("single", mk(kind, start, epochs, N, bs, -1, 0, 0, False, True, fv=fv, int_raiser="sched", int_at=fv % 2))
            yield ("single", mk(kind, start, epochs, N, bs, -1, 0, 0, bool(fv % 2), bool(fv % 3), fv=fv, int_raiser="opt", int_at=fv % 3))
            # the scripted index lies beyond the run / the raiser does not exist: nobody stops
            yield ("single", mk(kind, start, epochs, N, bs, 10 ** 3, 1, 0, True, True, fv=fv))
            yield ("single", mk(kind, start, epochs, N, bs, 1, 1, 1, False, True, fv=fv))


def random_case(ctx, kind=None):
    rng = ctx.rng
    kind = kind or ["positive", "complex", "mixed"][int(rng.integers(0, 3))]
    start = int(rng.integers(-2, 7)) if rng.integers(0, 3) else 1
    epochs = start + int(rng.integers(-2, 6))
    nb = int(rng.integers(0 if kind == "positive" else 1, 8))
    N, bs = SHAPES[nb][int(rng.integers(0, len(SHAPES[nb])))]
    n_events = len(full_run(start, epochs, nb))
    r = int(rng.integers(-1, n_events))
    ncb = int(rng.integers(1, 4))
    sched = bool(rng.integers(0, 2))
    who, at = "", -1
    if rng.integers(0, 5) == 0:                    # the stop is requested by the optimizer / the scheduler, with or without callbacks
        who = ["opt", "sched"][int(rng.integers(0, 2))]
        n_ep = max(0, epochs + 1 - start)
        at = int(rng.integers(0, max(1, (n_ep * nb if who == "opt" else n_ep)) + 1))
        sched = sched or who == "sched"
        r = -1
        ncb = int(rng.integers(0, 3))
    return mk(kind, start, epochs, N, bs, r, ncb, int(rng.integers(0, max(ncb, 1))), bool(rng.integers(0, 2)), sched,
              neg_bs=([None, 1, bs + 2][int(rng.integers(0, 3))] if N else None), dseed=int(rng.integers(1, 10 ** 6)),
              fv=int(rng.integers(0, 420)), itype=(int(rng.integers(1, 4)) if rng.integers(0, 3) == 0 else 0),
              hk=int(rng.integers(0, 5)), k=int(rng.choice([1, 1, 2, 3, 0])), int_raiser=who, int_at=at,
              cform=int(rng.integers(0, 3) if rng.integers(0, 3) == 0 else rng.integers(0, NFORMS)))


def random_cases(ctx, n):
    """random larger scripts; about a third of them are histories of 2-3 fit calls on the same object."""
    i = 0
    while i < n:
        first = random_case(ctx)
        if ctx.rng.integers(0, 3) == 0:
            steps = [(first, None)]
            if ctx.rng.integers(0, 3) == 0 and not first["int_raiser"]:
                # the first run of the history is aborted by an exception raised in a callback
                first["abort"] = ["KeyboardInterrupt", "RuntimeError"][int(ctx.rng.integers(0, 2))]
            for _ in range(int(ctx.rng.integers(1, 3))):
                nxt = random_case(ctx, first["state"])
                if ctx.rng.integers(0, 2) == 0:       # the same container / callback objects / data objects, other settings
                    nb = -(-first["N"] // first["bs"])
                    st, ep = nxt["start"], nxt["epochs"]
                    alt = reuse_variant(first, start=st, epochs=ep, raise_at=int(ctx.rng.integers(-1, len(full_run(st, ep, nb)))),
                                        time=nxt["time"], sched=nxt["sched"], k=nxt["k"], itype=nxt["itype"])
                    nxt = alt if alt is not None else nxt
                steps.append((nxt, [None, "reset"][int(ctx.rng.integers(0, 2))]))
            yield ("history", steps)
            i += len(steps)
        else:
            yield ("single", first)
            i += 1


def setter_stream(ctx):
    """malformed stream for the stop_training setter.  The property only needs the flag to be a settable, sticky
    boolean: a genuine bool must be accepted and stored (oracle).  For clearly non-boolean values the comparison with
    the model is "raises vs does not raise" (never the exception class); borderline values (0, 1, numpy.bool_) and
    the exception class are informational."""
    m = ctx.get_model()
    vals = [(0, 0, False, "False", "bool"), (1, 0, True, "True", "bool"), (2, 3, 3, "3", "clear"), (3, 0, None, "None", "clear"),
            (4, 0, "yes", "'yes'", "clear"), (4, 0, [True], "[True]", "clear"), (4, 0, 2.5, "2.5", "clear"),
            (2, 1, 1, "1", "borderline"), (2, 0, 0, "0", "borderline"), (4, 0, np.bool_(True), "numpy.bool_(True)", "borderline")]
    for kind in ("positive", "complex", "mixed"):
        for (k, z, val, label, cls) in vals:
            s = build_state(kind, 5)
            for cur in (False, True):
                case = {"call": "stop_training setter", "state": kind, "value": label, "current": cur}
                ctx.case(case, nontrivial=False)
                ctx.count("setter:" + cls)
                s.stop_training = cur
                try:
                    s.stop_training = val
                    raised, err = False, None
                except Exception as ex:
                    raised, err = True, type(ex).__name__
                mod_raises = (len(m.call("c12_set_stop", k, z)) == 0)
                if cls == "bool":
                    ctx.agree_exact("stop_training setter accepts a bool", raised, mod_raises, case)
                    ctx.require("a boolean is accepted and stored", (not raised) and s.stop_training is val, case, err)
                elif cls == "clear":
                    ctx.agree_exact("stop_training setter on a non-boolean: raises vs does not raise", raised, mod_raises, case)
                    ctx.count("info:setter error class:%s" % err)
                    if raised:
                        ctx.count("info:flag %s after a rejected assignment" % ("kept" if s.stop_training is cur else "changed"))
                else:
                    ctx.count("info:setter on %s: %s" % (label, "rejected" if raised else "accepted"))
    ctx.require("the flag of a fresh object is down", build_state("positive", 1).stop_training is False, {"call": "fresh flag"})


def recogniser_cross_check(ctx, n):
    """the Python recogniser (oracle) and the Coq recogniser agree on perturbed traces."""
    m = ctx.get_model()
    rng = ctx.rng
    for _ in range(n):
        start = int(rng.integers(-1, 4)); epochs = start + int(rng.integers(-1, 3)); nb = int(rng.integers(1, 4))
        t = full_run(start, epochs, nb)
        kind = int(rng.integers(0, 5))
        i = int(rng.integers(0, len(t))); j = int(rng.integers(0, len(t)))
        if kind == 1:
            t = t[:i] + t[i + 1:]
        elif kind == 2:
            t[i], t[j] = t[j], t[i]
        elif kind == 3:
            t = t[:i] + [t[i]] + t[i:]
        elif kind == 4:
            c, e, b = t[i]
            t[i] = (c, e + 1, b) if c in (ES, EE) else (c, e, b + 1) if c in (BS, BE) else (c, e, b)
        py = not grammar_problems(t, start)
        coq = bool(m.call("c12_recognise", start, [list(x) for x in t]))
        case = {"call": "recogniser", "start": start, "trace": [list(x) for x in t]}
        ctx.count("recogniser:" + ("accept" if py else "reject"))
        ctx.agree_exact("Python recogniser vs Coq recogniser", py, coq, case)


def compact(case):
    return {k: v for k, v in case.items() if k != "hist"}


def prepare_state(case):
    """Re-create the object a case with a history starts from: the earlier fit calls (and flag resets) are re-run."""
    s, shared = None, None
    for prior, action in case.get("hist", []):
        if action == "reset" and s is not None:
            s.stop_training = False
        obs = drive(prior, s, shared)
        s, shared = obs["state_obj"], obs["shared"]
    if s is not None and case.get("reset_before"):
        s.stop_training = False
    return s, shared


def run_history(ctx, steps):
    """Several fit calls on the SAME object.  steps: [(case, action)], action None | "reset" (stop_training = False
    before the call).  Every call must follow the protocol on its own: a finished run leaves nothing behind except
    the flag, and a flag left up (no reset) makes the next call a pre-stopped one."""
    state, hist, shared = None, [], None
    for case, action in steps:
        case = dict(case, hist=list(hist), reset_before=(action == "reset"))
        if state is not None and action == "reset":
            state.stop_training = False
        if state is not None and state.stop_training:
            case["prestopped"] = "persisted"
        obs = run_case(ctx, case, state=state, shared=shared)
        if obs is None:
            return
        state, shared = obs["state_obj"], obs["shared"]
        hist.append([compact(dict(case, reset_before=False)), action])


def run_one(ctx, tag, item):
    if tag == "history":
        run_history(ctx, item)
    elif tag == "persist":
        run_history(ctx, [(item, None), (dict(item, raise_at=-1), None)])
    else:
        run_case(ctx, item)


def n0_other_regimes(ctx):
    """N = 0 rows where the negative phase has to SAMPLE from an empty pool (complex / mixed: no reference-basis row;
    positive with neg_batch_size != pos_batch_size).  On the present code torch.randint(0, ...) raises after
    on_train_start.  Reported as information unless the integrator lists it as an open known finding with
    match {"regime": "N=0, negatives sampled from an empty pool"} (then it is a `require`)."""
    listed = any(k.get("status") == "open" and k.get("match", {}).get("regime") == "N=0, negatives sampled from an empty pool"
                 for k in ctx.known)
    for kind, neg in (("positive", 2), ("complex", None), ("mixed", None)):
        case = mk(kind, 1, 2, 0, 3, -1, 1, 0, False, False, neg_bs=neg, fv=0)
        case["regime"] = "N=0, negatives sampled from an empty pool"
        ctx.case({k: case[k] for k in ("state", "N", "bs", "neg_bs", "regime")}, nontrivial=False)
        try:
            obs = drive(case)
            vis = [(c, int(e), int(b)) for c, e, b, _ in obs["timeline"] if c <= TE]
            ok, detail = (vis == full_run(1, 2, 0)), "trace %r" % (vis,)
        except Exception as ex:
            ok, detail = False, "fit raised %s: %s" % (type(ex).__name__, str(ex)[:120])
        ctx.count("info:%s: %s" % (case["regime"], "protocol intact" if ok else "fit raised / protocol broken"))
        if listed:
            ctx.require("N = 0 rows with sampled negatives: the run follows the protocol", ok, case, detail)


def reuse_variant(first, rng=None, **changes):
    """A second script for the SAME callback objects in the SAME container (and the same data / optimizer_args objects):
    `first` with other settings, kept only if the callback objects fit it (same hooks exist); else None."""
    new = dict(first, abort="", int_raiser="", int_at=-1, reuse=True, **changes)
    if callback_forms(new) != callback_forms(first) or callback_positions(new) != callback_positions(first):
        new["raise_at"] = -1
        if callback_forms(new) != callback_forms(first):
            return None
    return new


def container_regimes(ctx):
    """(1) every container form x state type, with and without a scripted stop, time on/off, 1-3 listed callbacks plus
    passive ones, an object listed twice; (2) no callbacks, handed over as an EMPTY container of every form; (3) the
    same container object (re-iterable forms) handed to a second and third fit call with other settings."""
    P = dict(itype=0, k=1, defaults=False, positional=False)
    n = 0
    for kind in ("positive", "complex", "mixed"):
        for cf in range(NFORMS):
            for (r, ncb, raiser) in (((-1, 2, 0), (4, 2, 1), (6, 1, 0)) if kind == "positive" else ((3 + cf % 4, 2, cf % 2),)):
                n += 1
                single = cf in SINGLE
                yield ("single", mk(kind, 1, 2, 3, 2, r, 1 if single else ncb, 0 if single else raiser, bool(n % 2), bool(n % 3 == 0),
                                    fv=(0 if single else [0, 1, 2, 4, 5, 3][n % 6]), cform=cf, dup=(0 if n % 4 else 1 + n % 3 % 2), **P))
        for cf in range(NFORMS):                      # no callbacks at all: an empty container of this form (fv odd)
            if cf not in SINGLE and (kind == "positive" or cf % 3 == 0):
                yield ("single", mk(kind, 1, 2, 3, 2, -1, 0, 0, bool(cf % 2), True, fv=1, cform=cf, dup=0, **dict(P, defaults=False)))
        for cf in range(NFORMS):                      # the SAME container again (single-pass forms cannot be handed over twice)
            if cf in ONE_SHOT or (kind != "positive" and cf % 2 == (kind == "mixed")):
                continue
            n += 1
            single = cf in SINGLE
            a = mk(kind, 1, 2, 3, 2, [-1, 3, 6][n % 3], 1 if single else 2, 0, True, bool(n % 2), fv=(0 if single else [0, 2, 4][n % 3]),
                   cform=cf, dup=(0 if n % 3 else 1), **P)
            b = reuse_variant(a, start=2, epochs=3, raise_at=[4, -1, 1][n % 3], time=bool(n % 2), sched=True)
            c = reuse_variant(a, start=1, epochs=1, raise_at=-1, time=True, k=2)
            yield ("history", [(a, None)] + [(x, "reset") for x in (b, c) if x is not None])


def fixed_first(ctx):
    """Regimes that always run first: zero rows, arguments left at their defaults, several fit calls on one object,
    the same callback object listed twice."""
    # ================= every form of the `callbacks=` argument (seed round 6) =================
    for tag, item in container_regimes(ctx):
        yield (tag, item)
    fv = 0
    # ---- N = 0 rows (zero batches per epoch): TrainStart (EpochStart e EpochEnd e)* TrainEnd
    for (start, epochs) in ((1, 2), (3, 4), (1, 0)):
        for bs in (1, 3):
            for form in ("numpy", "tensor"):
                n_ev = len(full_run(start, epochs, 0))
                for r in (-1, 0, 1, 2, n_ev - 1):
                    if r >= n_ev:
                        continue
                    fv += 1
                    yield ("single", mk("positive", start, epochs, 0, bs, r, 2, fv % 2, bool(fv % 3 == 0), bool(fv % 2), fv=fv,
                                        data_form=form, defaults=bool(fv % 2), dup=0))
    for kind in ("positive", "complex", "mixed"):
        # ---- every argument with a documented default left out (starting_epoch = 1, time = False, k, lr, neg_batch_size ...)
        for (epochs, N, bs, r) in ((2, 3, 2, -1), (2, 3, 2, 4), (3, 2, 100, -1), (100, 3, 100, 7), (0, 3, 2, -1)):
            for ncb in (1, 2):
                fv += 1
                yield ("single", mk(kind, 1, epochs, N, bs, r, ncb, 0, False, bool(fv % 2), fv=fv, defaults=True, positional=bool(fv % 2), dup=0))
        yield ("single", mk(kind, 1, 2, 3, 2, -1, 0, 0, False, True, fv=1, defaults=True))
        # ---- histories on one object
        a = lambda **kw: mk(kind, 1, 2, 3, 2, kw.pop("r", -1), 2, kw.pop("raiser", 0), kw.pop("time", False), kw.pop("sched", True),
                            defaults=kw.pop("defaults", True), dup=0, **kw)
        yield ("history", [(a(fv=2), None), (a(fv=4), None)])                                   # unstopped, then again (defaults)
        yield ("history", [(a(fv=6, defaults=False), None), (a(fv=3), None), (a(fv=9, time=True), None)])
        yield ("history", [(a(fv=8, r=3), None), (a(fv=10), "reset")])                           # stopped, flag reset, full run
        yield ("history", [(a(fv=12, r=6, raiser=1, time=True), None), (a(fv=14, r=1), "reset"), (a(fv=16), "reset")])
        yield ("history", [(a(fv=18, r=2), None), (a(fv=20), None), (a(fv=22), "reset")])        # stopped, pre-stopped, reset, full
        yield ("history", [(mk(kind, 3, 4, 3, 2, -1, 1, 0, False, False, fv=24), None), (a(fv=26), None)])   # explicit start 3, then default
        # ---- the same callback object listed twice
        for dup in (1, 2):
            for (r, raiser) in ((-1, 0), (3, 1), (4, 0), (0, 1)):
                fv += 1
                yield ("single", mk(kind, 1, 2, 3, 2, r, 2, raiser, bool(fv % 2), bool(fv % 3 == 0), fv=6 * fv, dup=dup))
                yield ("single", mk(kind, 3, 3, 2, 2, r, 1, 0, False, True, fv=6 * fv + 5, dup=dup))
    # ================= regimes of red-team round 2 =================
    P = dict(itype=0, k=1, dup=0, defaults=False, positional=False)          # everything else plain
    for kind in ("positive", "complex", "mixed"):
        # ---- integer arguments as numpy integers (epochs, starting_epoch, pos/neg batch size, k): same protocol
        for itype in (1, 2, 3):
            for (start, epochs, N, bs, r, neg) in ((1, 2, 3, 2, -1, None), (2, 3, 3, 2, 4, 3), (3, 2, 3, 1, -1, None)):
                fv += 1
                yield ("single", mk(kind, start, epochs, N, bs, r, 2, fv % 2, False, bool(fv % 2), neg_bs=neg, fv=fv,
                                    **dict(P, itype=itype, k=1 + fv % 2, defaults=bool(itype == 3))))
        # ---- a stop requested by the optimizer (during a batch) / the scheduler (at an epoch end), WITHOUT and with callbacks
        for ncb in (0, 1, 2):
            for time in ((False, True) if ncb == 0 else (False,)):
                fv += 1
                yield ("single", mk(kind, 1, 4, 3, 2, -1, ncb, 0, time, True, fv=2 * fv, int_raiser="sched", int_at=0, **P))
                yield ("single", mk(kind, 2, 4, 3, 2, -1, ncb, 0, time, True, fv=2 * fv, int_raiser="sched", int_at=1, **P))
                yield ("single", mk(kind, 1, 3, 3, 2, -1, ncb, 0, time, bool(fv % 2), fv=2 * fv, int_raiser="opt", int_at=0, **P))
                yield ("single", mk(kind, 1, 3, 5, 2, -1, ncb, 0, time, bool(fv % 2 == 0), fv=2 * fv, int_raiser="opt", int_at=4, **P))
        yield ("history", [(mk(kind, 1, 3, 3, 2, -1, 0, 0, False, True, fv=0, int_raiser="sched", int_at=0, **P), None),   # persists ...
                           (mk(kind, 1, 2, 3, 2, -1, 1, 0, False, True, fv=0, **P), None),                                # ... pre-stopped
                           (mk(kind, 1, 2, 3, 2, -1, 1, 0, False, True, fv=0, **P), "reset")])
        # ---- an earlier run on the object was aborted by an exception raised in a callback (caught by the caller)
        full_idx = {"TS": 0, "BS": 2, "BE": 3, "EE": 6, "ES2": 7, "TE": 14}             # start 1, epochs 2, 2 batches per epoch
        for (ev, exc, raiser) in (("EE", "KeyboardInterrupt", 1), ("BS", "RuntimeError", 0), ("TS", "KeyboardInterrupt", 0),
                                  ("BE", "KeyboardInterrupt", 0), ("TE", "RuntimeError", 1), ("ES2", "RuntimeError", 1)):
            fv += 1
            aborted = mk(kind, 1, 2, 3, 2, full_idx[ev], 2, raiser, False, bool(fv % 2), fv=4 + 8 * (fv % 3), abort=exc, **P)
            plain = lambda r_=-1, fv_=0: mk(kind, 1, 2, 3, 2, r_, 2, 0, False, True, fv=fv_, **P)
            if ev in ("EE", "BS"):
                yield ("history", [(aborted, None), (plain(), None), (plain(3, 6), None), (plain(-1, 12), "reset")])
            else:
                yield ("history", [(aborted, None), (plain(fv_=6 * (fv % 4)), None)])
        # ---- LambdaCallback hooks: plain lambda / bound method / functools.partial / callable instance / closure
        for hk in (range(5) if kind == "positive" else (1, 3)):
            for fv_ in (5, 13, 21):                   # callback 1 = LambdaCallback with all six hooks; list / tuple / CallbackList
                yield ("single", mk(kind, 1, 2, 3, 2, [-1, 3, 6][hk % 3], 2, 1, False, bool(hk % 2), fv=fv_, **dict(P, hk=hk)))
        # ---- k (contrastive-divergence steps) other than 1
        for k_ in (0, 2, 3):
            yield ("single", mk(kind, 1, 2, 3, 2, [-1, 5, 2][k_ % 3], 1, 0, False, True, fv=0, **dict(P, k=k_)))


def run(ctx):
    for tag, item in fixed_first(ctx):
        run_one(ctx, tag, item)
    n0_other_regimes(ctx)
    if ctx.thorough:
        gen = enumerate_cases(ctx, 4, 4, True)
    else:
        gen = enumerate_cases(ctx, 3, 3, False)
    for case in gen:
        run_case(ctx, case)
    for tag, case in extras(ctx):
        run_one(ctx, tag, case)
    for tag, item in random_cases(ctx, 300 if ctx.thorough else 45):
        run_one(ctx, tag, item)
    setter_stream(ctx)
    recogniser_cross_check(ctx, 400 if ctx.thorough else 100)
    ctx.extra["exhaustive_within"] = ("starting_epoch in {1,3}, epochs 0..%d, batches/epoch 0..%d (0: positive state only), stop at every "
                                      "event index or never" % ((4, 4) if ctx.thorough else (3, 3)))


def search(ctx, broken, budget):
    """Wider oracle sweep when proof or correspondence broke: the fixed regimes, then the thorough enumeration and
    random scripts / histories, until the first failing input."""
    t0 = _time.time()
    n0 = len(ctx.failures)

    def sweep():
        for tag, item in fixed_first(ctx):
            yield tag, item
        for case in enumerate_cases(ctx, 4, 4, True):
            yield "single", case
        for tag, item in random_cases(ctx, 500):
            yield tag, item

    for tag, item in sweep():
        steps = item if tag == "history" else [(item, None), (dict(item, raise_at=-1), None)] if tag == "persist" else [(item, None)]
        state, shared = None, None
        for case, action in steps:
            try:
                if state is not None and action == "reset":
                    state.stop_training = False
                obs = drive(case, state, shared)
                oracle(ctx, case, obs)
                state, shared = obs["state_obj"], obs["shared"]
            except Exception as ex:
                ctx.require("fit raised " + type(ex).__name__, False, case, repr(ex)[:300])
                break
        if len(ctx.failures) > n0:
            return ctx.failures[n0]
        if _time.time() - t0 > budget:
            return None
    return None


def replay(ctx, rec):
    case = rec.get("failing", {}).get("case", {})
    print("replay of", {k: v for k, v in case.items() if k not in ("dseed", "hist")}, "after %d earlier fit calls" % len(case.get("hist", [])))
    if case.get("call"):
        setter_stream(ctx)
        return
    if case.get("regime"):
        n0_other_regimes(ctx)
        return
    if case.get("prestopped") == "persisted" and not case.get("hist"):      # replay files written before histories existed
        run_history(ctx, [(dict(case, raise_at=2, prestopped=""), None), (dict(case, prestopped=""), None)])
        return
    state, shared = prepare_state(case)
    run_case(ctx, case, state=state, shared=shared)
