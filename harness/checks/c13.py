"""C13 — Streaming observable statistics equal the statistics of all drawn samples.

Correspondence (implementation vs extracted Coq model, QModel.Stats):
  * `_update_statistics` step by step and folded over every composition of random data sets
    (model: c13_update / c13_merge_chunks), `statistics_from_samples` (c13_from_samples);
  * the schedule of `ObservableBase.statistics` / `System.statistics`: number of chains, number of draws,
    k arguments, num_samples arguments, which tensor the first call receives, reported count
    (c13_schedule), and the whole result with the sampler replaying the recorded per-draw observable values
    (c13_statistics, c13_system).
Oracle (property relation evaluated on the implementation itself, independent numpy one-pass statistics):
  * the running triple after every chunk of every composition = one-pass (mean, var ddof=1, count) of the prefix;
  * returned mean / variance / std_error / num_samples = one-pass statistics of the observable applied to every
    chain state captured at the (wrapped, called-through) public `nn_state.sample`;
  * count = chains * draws >= requested (chains = number of chain states every draw returns; the docstring's rule
    deriving it from num_chains is compared with the model for information only); k = [burn_in, steps, ..., steps];
    every draw starts from the previous draw's returned chain states by value, zero-step draws return them unchanged
    and (torch.bernoulli wrapped) the first Gibbs conditional of each draw is the one computed from them; the caller's
    initial chains are untouched unless overwrite, and then hold the final chain states;
  * System gives each observable the dictionary it gets alone on the same chain states;
  * every field (mean, variance, std_error, num_samples) of every returned dictionary is compared separately, for each entry point
    (statistics, statistics_from_samples, System.statistics, System.statistics_from_samples) and each observable kind: plain,
    sums, and products with negative / zero / fractional (dyadic and not) / large scalars (SCALED_KEYS); std_error is never negative.
A leading sample(k=0, initial_state=None) call whose result only seeds the next call is chain initialisation, not a
draw (split_init_call); all relations above are required on the draws."""
import inspect
import itertools
import math
import time

import numpy as np

import gen

RULE = ("(a) merge: random data sets of n = 1..8 values (normal / integer-valued / constant / offset), ALL 2^(n-1) "
        "compositions into non-empty chunks, per-chunk statistics by torch.var_mean as in the library; a case is "
        "(data set, composition); non-trivial := >= 2 chunks and non-constant data. "
        "(b) statistics: ALL (num_samples 1..8 quick / 1..12 thorough) x (num_chains 0..num_samples+2) x "
        "(burn_in, steps in 0..3), state kind (Positive / Complex / DensityMatrix, nv 2..3, random non-zero biases) "
        "and observable (SigmaZ, SigmaX, SigmaY, |SigmaZ|, NeighbourInteraction open/periodic, 2*SigmaZ-SigmaX, "
        "0.5*SigmaX+NeighbourInteraction+1.0) rotating over the cases; plus user-supplied initial chains of every "
        "length 1..num_samples+2 with overwrite on/off; (c) System: 0..4 observables incl. composites over all "
        "(num_samples, num_chains), each compared with the observable alone on the replayed chain states. "
        "fixed cases run first: sizes of 4100..25000 samples / up to 25000 chains / statistics_from_samples on 4097..20000 "
        "rows (SigmaZ, NeighbourInteraction, one SigmaX), Systems with ONE and with ZERO observables (incl. initial chains), "
        "histories of 2-3 statistics() calls on the SAME observable / System object (each must burn in once and start fresh "
        "chains unless initial chains are passed), initial chains of dtype float32 / int64 / uint8 (caller's tensor after "
        "overwrite is required only for float64); the random stream repeats all of these regimes. "
        "also fixed-first and repeated on the random stream: SWAP (region as list / int / two sites; its value for a chain state "
        "depends on the neighbouring row of the batch) alone, inside composites and inside Systems; Systems and "
        "System.statistics_from_samples whose members are composites with leaves that SHARE a name but not a configuration "
        "(SigmaZ vs SigmaZ(absolute=True), SWAP of different regions); user chains handed over as strided views of a larger "
        "buffer (every second row / column, transposed, offset) with overwrite on/off; states carrying what earlier public "
        "operations leave behind (stop_training set directly or by a fit that a callback stopped, a completed fit; the flag "
        "changing between the calls of a history); burn_in / steps of 1000..6000 Gibbs steps (at and next to 1024/2048/4096). "
        "products whose scalar is negative (unary minus, negative int / float on either side, multiples of negated observables, "
        "minus of minus / of a sum), zero (0, -0.0), fractional (0.25, 0.1, 0.3, -1/3) or large (1e6, 1234567.891), and sums containing "
        "them, are members of the rotating observable list, run fixed-first through statistics() alone / in Systems / with initial "
        "chains / in histories, and statistics_from_samples + System.statistics_from_samples run on EVERY observable of the list for "
        "every state kind with 1, 2, 9 and random numbers of rows; all four fields of every dictionary are compared one by one. "
        "call forms rotate over keyword / positional / all-keyword, plus calls relying on the signature defaults "
        "(num_chains, burn_in, steps); torch.bernoulli is wrapped during every run to tie each draw's first Gibbs "
        "conditional to the chain states it starts from. "
        "non-trivial := >= 2 draws and the drawn observable values are not all equal")
ASSUMPTIONS = [
    "sampler contract: nn_state.sample returns as many chain states as requested / as initial_state holds "
    "(hypothesis of the Coq theorems; observed to hold on every wrapped call of this run)",
    "torch.var_mean computes the mean and the unbiased variance up to rounding (nan for a single value)",
    "observables of one System have distinct names (System stores them in a dict keyed by name); the LEAVES of composite "
    "members may share names (SigmaZ / SigmaZ(absolute=True), SWAP of different regions) and are generated",
    "the k argument of every sample() call is the observation point for the burn-in / steps schedule (properties.jsonl observe_at): "
    "an implementation that splits one draw's Gibbs steps over several sample() calls would be reported although the total is right",
    "user chains are 2-D tensors or strided views of dense buffers; expanded (stride 0) or otherwise self-overlapping views cannot be "
    "overwritten in place by torch and are not generated",
]

OBS_KEYS = ["Z", "X", "Y", "absZ", "NN", "NNp", "2Z-X", "mix",
            # observables whose value for one chain state depends on the OTHER rows of the batch (SWAP pairs every row with
            # its neighbour), region given as list / int / two sites; composites whose leaves SHARE a name but differ in
            # configuration (SigmaZ vs SigmaZ(absolute=True), SWAP of different regions)
            "SWAP0", "SWAP1", "SWAP01", "2Z+1", "3absZ", "SWAP0-1", "hSWAP1", "Z+absZ", "SWAP0+SWAP1"]
# composites whose OUTERMOST node is a product, by sign / size of the scalar: negative (unary minus, negative int / float on
# either side, a positive multiple of a negated observable, minus of minus, minus of a sum), zero (0, -0.0), fractional
# (dyadic and non-dyadic), large; and sums that contain such products.  Every one of them goes through statistics(),
# statistics_from_samples() and both System entry points, and every field of every returned dictionary is compared.
SCALED_KEYS = ["-Z", "-1.5X", "2(-NN)", "NN*-3", "-(-Z)", "-(Z+X)", "-(2Z-X)", "-SWAP0", "-absZ", "-2.5(-0.5Y)", "-0.1Y", "-NN/3",
               "0Z", "-0.0X", "0(-NN)", "0.25NNp", "0.1Y", "X*0.3", "1e6Z", "-1e6X", "1234567.891NN", "3-Z", "X-2.5NN", "1-(-Z)"]
NEGATIVE_KEYS = SCALED_KEYS[:12]
OBS_KEYS = OBS_KEYS + SCALED_KEYS
LAYOUTS = ["contiguous", "rows2", "cols2", "transposed", "offset"]
PAIRS16 = [(b, s) for b in range(4) for s in range(4)]


# ------------------------------------------------------------------------------------ helpers
def make_obs(key):
    from qucumber.observables import SigmaZ, SigmaX, SigmaY, NeighbourInteraction
    if key == "Z":
        return SigmaZ()
    if key == "X":
        return SigmaX()
    if key == "Y":
        return SigmaY()
    if key == "absZ":
        o = SigmaZ(absolute=True)
        o.name = "AbsSigmaZ"
        return o
    if key == "NN":
        return NeighbourInteraction()
    if key == "NNp":
        return NeighbourInteraction(periodic_bcs=True, c=1)
    if key == "2Z-X":
        return 2 * SigmaZ() - SigmaX()
    if key == "mix":
        return 0.5 * SigmaX() + NeighbourInteraction() + 1.0
    from qucumber.observables import SWAP
    if key == "SWAP0":
        return SWAP([0])
    if key == "SWAP1":
        return SWAP(1)
    if key == "SWAP01":
        return SWAP([0, 1])
    if key == "2Z+1":
        return 2 * SigmaZ() + 1
    if key == "3absZ":
        return 3 * SigmaZ(absolute=True)
    if key == "SWAP0-1":
        return SWAP([0]) - 1
    if key == "hSWAP1":
        return 0.5 * SWAP([1])
    if key == "Z+absZ":
        return SigmaZ() + SigmaZ(absolute=True)
    if key == "SWAP0+SWAP1":
        return SWAP([0]) + SWAP([1])
    NN = NeighbourInteraction
    scaled = {
        "-Z": lambda: -SigmaZ(), "-1.5X": lambda: -1.5 * SigmaX(), "2(-NN)": lambda: 2 * (-NN()), "NN*-3": lambda: NN() * -3,
        "-(-Z)": lambda: -(-SigmaZ()), "-(Z+X)": lambda: -(SigmaZ() + SigmaX()), "-(2Z-X)": lambda: -(2 * SigmaZ() - SigmaX()),
        "-SWAP0": lambda: -SWAP([0]), "-absZ": lambda: -SigmaZ(absolute=True), "-2.5(-0.5Y)": lambda: -2.5 * (-0.5 * SigmaY()),
        "-0.1Y": lambda: -0.1 * SigmaY(), "-NN/3": lambda: NN() * (-1.0 / 3.0),
        "0Z": lambda: 0 * SigmaZ(), "-0.0X": lambda: -0.0 * SigmaX(), "0(-NN)": lambda: 0.0 * (-NN()),
        "0.25NNp": lambda: 0.25 * NN(periodic_bcs=True, c=1), "0.1Y": lambda: 0.1 * SigmaY(), "X*0.3": lambda: SigmaX() * 0.3,
        "1e6Z": lambda: 1e6 * SigmaZ(), "-1e6X": lambda: -1e6 * SigmaX(), "1234567.891NN": lambda: 1234567.891 * NN(),
        "3-Z": lambda: 3 - SigmaZ(), "X-2.5NN": lambda: SigmaX() - 2.5 * NN(), "1-(-Z)": lambda: 1 - (-SigmaZ()),
    }
    if key in scaled:
        return scaled[key]()
    raise ValueError(key)


def distinct_names(keys):
    """drop keys whose observable has the same .name as an earlier one (a System is a dict keyed by name)"""
    out, seen = [], set()
    for k in keys:
        n = make_obs(k).name
        if n not in seen:
            seen.add(n)
            out.append(k)
    return out


def layout_view(init, layout):
    """the caller's initial chains as a strided VIEW of a larger buffer (same values, same shape, same dtype):
    every second row / every second column / transposed storage / a row range with a storage offset"""
    import torch
    L, nv = init.shape
    if layout == "rows2":
        buf = torch.full((2 * L, nv), 7, dtype=init.dtype)
        view = buf[::2]
    elif layout == "cols2":
        buf = torch.full((L, 2 * nv), 7, dtype=init.dtype)
        view = buf[:, ::2]
    elif layout == "transposed":
        buf = torch.full((nv, L), 7, dtype=init.dtype)
        view = buf.t()
    elif layout == "offset":
        buf = torch.full((L + 2, nv), 7, dtype=init.dtype)
        view = buf[1:L + 1]
    else:
        return init
    view.copy_(init)
    return view


def prepare_state(ctx, state, sspec, prep):
    """what an earlier PUBLIC operation leaves behind on the state before statistics() is called:
      stop_flag   -- the documented public property nn_state.stop_training set to True (what EarlyStopping does);
      clear_flag  -- ... set back to False;
      stopped_fit -- a real fit() ended by a callback that sets stop_training (fit never clears the flag);
      fit         -- a real, complete fit().
    After a fit the parameters are written back from the case description, so the case stays self-contained."""
    import torch
    if not prep:
        return
    ctx.count("state_prep:" + prep)
    if prep == "stop_flag":
        state.stop_training = True
        return
    if prep == "clear_flag":
        state.stop_training = False
        return
    from qucumber.callbacks import LambdaCallback
    nv = sspec["nv"]
    g = torch.Generator().manual_seed(12345)
    data = torch.randint(0, 2, (8, nv), generator=g).double()
    kw = {}
    if sspec["kind"] != "positive":
        kw["input_bases"] = np.array([["Z"] * nv] * 8)
    cbs = []
    if prep == "stopped_fit":
        cbs = [LambdaCallback(on_epoch_end=lambda s, ep: setattr(s, "stop_training", True))]
    state.stop_training = False
    state.fit(data, epochs=2, pos_batch_size=4, lr=0.01, callbacks=cbs, **kw)
    fresh = build_state(sspec)
    for net in state.networks:
        for p, q in zip(getattr(state, net).parameters(), getattr(fresh, net).parameters()):
            p.data = q.data.clone()


def new_state(ctx, kind, nv, nh, na=1):
    """A real QuCumber state with moderate random parameters (all biases non-zero); returns (state, spec)."""
    rng = ctx.rng

    def arr(*shape):
        x = rng.normal(size=shape) * 0.8
        x[np.abs(x) < 1e-3] = 0.37
        return x
    if kind == "dm":
        p = {"am": [arr(nh, nv), arr(na, nv), arr(nv), arr(nh), arr(na)],
             "ph": [arr(nh, nv), arr(na, nv), arr(nv), arr(nh), np.zeros(na)]}
    elif kind == "complex":
        p = {"am": [arr(nh, nv), arr(nv), arr(nh)], "ph": [arr(nh, nv), arr(nv), arr(nh)]}
    else:
        p = {"am": [arr(nh, nv), arr(nv), arr(nh)]}
    spec = {"kind": kind, "nv": nv, "nh": nh, "na": na, "params": {k: [a.tolist() for a in v] for k, v in p.items()}}
    return build_state(spec), spec


def build_state(spec):
    from qucumber.nn_states import PositiveWaveFunction, ComplexWaveFunction, DensityMatrix
    kind, nv, nh, na = spec["kind"], spec["nv"], spec["nh"], spec.get("na", 1)
    P = {k: [np.asarray(a, dtype=float) for a in v] for k, v in spec["params"].items()}
    if kind == "dm":
        s = DensityMatrix(nv, nh, na, gpu=False)
        gen.set_prbm(s.rbm_am, *P["am"])
        gen.set_prbm(s.rbm_ph, *P["ph"])
    elif kind == "complex":
        s = ComplexWaveFunction(nv, nh, gpu=False)
        gen.set_brbm(s.rbm_am, *P["am"])
        gen.set_brbm(s.rbm_ph, *P["ph"])
    else:
        s = PositiveWaveFunction(nv, nh, gpu=False)
        gen.set_brbm(s.rbm_am, *P["am"])
    return s


def one_pass(vals):
    """independent one-pass statistics: mean, unbiased variance (nan for < 2 values), std_error, count"""
    x = np.asarray(vals, dtype=float)
    n = len(x)
    mean = float(np.sum(x) / n) if n else float("nan")
    var = float(np.sum((x - mean) ** 2) / (n - 1)) if n > 1 else float("nan")
    se = float(np.sqrt(var / n)) if n > 1 else float("nan")
    return mean, var, se, n


def near(a, b, scale=1.0, rtol=1e-9, atol=1e-12):
    a, b = float(a), float(b)
    if math.isnan(a) or math.isnan(b):
        return math.isnan(a) and math.isnan(b)
    return abs(a - b) <= rtol * max(abs(a), abs(b)) + atol * scale


def compositions(n):
    """all 2^(n-1) ways of writing n as an ordered sum of positive integers"""
    for cuts in itertools.product([0, 1], repeat=n - 1):
        out, run = [], 1
        for c in cuts:
            if c:
                out.append(run)
                run = 1
            else:
                run += 1
        out.append(run)
        yield out


def split(data, comp):
    out, i = [], 0
    for c in comp:
        out.append(list(data[i:i + c]))
        i += c
    return out


class Recorder:
    """Instance-level wrapper of the public nn_state.sample: records k / num_samples / initial_state of every
    call and a copy of the returned chain states; calls through to the real sampler (or replays states)."""

    def __init__(self, state, replay=None, spy=None):
        self.state = state
        self.spy = spy
        self.real = state.sample
        self.sig = inspect.signature(self.real)
        self.replay = replay
        self.calls = []

    def __call__(self, *a, **kw):
        ba = self.sig.bind(*a, **kw)
        ba.apply_defaults()
        init = ba.arguments.get("initial_state")
        rec = {"k": int(ba.arguments["k"]), "num_samples": int(ba.arguments["num_samples"]),
               "init": None if init is None else init.detach().clone(),
               "init_ptr": None if init is None else init.data_ptr(),
               "overwrite": bool(ba.arguments.get("overwrite"))}
        b0 = len(self.spy.calls) if self.spy is not None else 0
        if self.replay is not None:
            out = self.replay[min(len(self.calls), len(self.replay) - 1)].clone()
        else:
            out = self.real(*a, **kw)
        rec["bern"] = self.spy.calls[b0:] if self.spy is not None else None
        rec["ret"] = out.detach().clone()
        self.calls.append(rec)
        return out

    def __enter__(self):
        self.state.sample = self
        return self

    def __exit__(self, *exc):
        try:
            del self.state.sample
        except AttributeError:
            self.state.__dict__.pop("sample", None)
        return False


class BernoulliSpy:
    """Records the probability tensor handed to every torch.bernoulli call (values at entry)."""

    def __init__(self):
        self.calls = []

    def __enter__(self):
        import torch
        self.torch = torch
        self.orig = torch.bernoulli
        spy = self

        def wrapped(inp, *a, **k):
            spy.calls.append(inp.detach().clone().numpy().astype(float))
            return spy.orig(inp, *a, **k)
        torch.bernoulli = wrapped
        return self

    def __exit__(self, *exc):
        self.torch.bernoulli = self.orig
        return False


def first_conditionals(state, prev):
    """independent numpy evaluation of the conditionals a Gibbs step can start with, given visible states prev:
    P(h=1|v) = sigmoid(v W^T + c) and, for the purification RBM, P(a=1|v) = sigmoid(v U^T + d)"""
    v = prev.numpy().astype(float)
    rbm = state.rbm_am
    out = []

    def sig(x):
        return 1.0 / (1.0 + np.exp(-x))
    if hasattr(rbm, "weights_W"):
        out.append(sig(v @ rbm.weights_W.data.numpy().T + rbm.hidden_bias.data.numpy()))
        out.append(sig(v @ rbm.weights_U.data.numpy().T + rbm.aux_bias.data.numpy()))
    else:
        out.append(sig(v @ rbm.weights.data.numpy().T + rbm.hidden_bias.data.numpy()))
    return out


def continues_from(ctx, case, state, call, start, draw):
    """Effect-level continuity: the chain states the draw returns must come from `start` (the previous draw's
    returned states / the supplied initial chains), not from states the sampler re-initialised internally.
      k = 0: the returned states are `start`, value for value;
      k >= 1: the first conditional sampled inside the draw (first torch.bernoulli call whose probability tensor
              has the shape of P(h|v) or P(a|v)) is the one computed from `start` (independent numpy evaluation).
    If the sampler does not draw through torch.bernoulli the second part is unobservable and only counted."""
    import torch
    if call["k"] == 0:
        ctx.require("zero Gibbs steps leave the continuing chains as they were (returned states == starting states)",
                    call["ret"].shape == start.shape and torch.equal(call["ret"], start), case, {"draw": draw})
        return
    bern = call.get("bern")
    if not bern:
        ctx.count("continuity_effect:bernoulli_not_observed")
        return
    cands = first_conditionals(state, start)
    for p in bern:
        same_shape = [c for c in cands if c.shape == p.shape]
        if not same_shape:
            continue
        ok = any(np.allclose(p, c, rtol=1e-9, atol=1e-12) for c in same_shape)
        ctx.require("the first Gibbs conditional of a draw is computed from the chain states the draw starts from "
                    "(previous draw's returned states / supplied initial chains)", ok, case,
                    {"draw": draw, "k": call["k"], "p_first_row": p.reshape(len(p), -1)[0].tolist(),
                     "expected_first_row": same_shape[0][0].tolist()})
        ctx.count("continuity_effect:checked")
        return
    ctx.count("continuity_effect:no_conditional_shaped_call")


# ------------------------------------------------------------------------------------ (a) merge
def merge_case(ctx, data, comp, steps_vs_model=True):
    import torch
    from qucumber.observables.utils import _update_statistics
    m = ctx.get_model()
    case = {"part": "merge", "data": [float(x) for x in data], "chunks": list(comp)}
    chunks = split(case["data"], comp)
    scale = max(1.0, max(abs(x) for x in case["data"]))
    nontriv = len(comp) >= 2 and len(set(case["data"])) > 1
    ctx.case({"part": "merge", "data0": case["data"][0], "n": len(data), "chunks": list(comp)}, nontrivial=nontriv)
    ctx.count("merge:n=%d" % len(data))
    ctx.count("merge:chunks_of_len_1", sum(1 for c in comp if c == 1))
    run = (0.0, 0.0, 0)
    seen = []
    for ch in chunks:
        t = torch.tensor(ch, dtype=torch.double)
        var, mean = torch.var_mean(t)
        var, mean = var.item(), mean.item()
        ok, new = ctx.call("_update_statistics", case, _update_statistics, run[0], run[1], run[2], mean, var, len(ch))
        if not ok:
            return
        if steps_vs_model:
            r = m.call("c13_update", run[0], run[1], run[2], mean, var, len(ch))
            ctx.agree("_update_statistics vs model update_statistics", [new[0], new[1], new[2]], r, case, scale=scale * scale)
        run = new
        seen.extend(ch)
        rm, rv, _, rn = one_pass(seen)
        okm = near(run[0], rm, scale)
        okv = near(run[1], rv, scale * scale)
        ctx.require("streaming merge == one-pass statistics of the concatenation",
                    okm and okv and run[2] == rn, case,
                    {"after_values": len(seen), "running": [float(run[0]), float(run[1]), run[2]], "one_pass": [rm, rv, rn]})
    r = m.call("c13_merge_chunks", chunks)
    ctx.agree("folded _update_statistics vs model merge_chunks", [run[0], run[1], run[2]], r, case, scale=scale * scale)
    ctx.traces += 1


def data_sets(ctx, n):
    rng = ctx.rng
    out = [rng.normal(size=n) * float(rng.choice([0.1, 1.0, 10.0])),
           rng.integers(-3, 4, size=n).astype(float),
           rng.choice([-1.0, 1.0], size=n),
           rng.normal(size=n) + float(rng.choice([-30.0, 30.0, 5.0]))]
    if n >= 2:
        out.append(np.full(n, float(rng.normal())))
    return out


def merge_edge_cases(ctx):
    """direct calls on corner inputs (correspondence only, plus the two defined corner results)"""
    from qucumber.observables.utils import _update_statistics
    m = ctx.get_model()
    nan = float("nan")
    edge = [(0.0, 0.0, 0, 0.0, 0.0, 0), (1.5, nan, 0, 0.0, nan, 0), (0.0, 0.0, 0, 2.5, nan, 1), (0.0, 0.0, 0, 2.5, 1.25, 4),
            (1.0, nan, 1, 3.0, nan, 1), (1.0, nan, 1, 3.0, 0.5, 3), (2.0, 0.75, 5, -1.0, nan, 1),
            (2.0, nan, 5, -1.0, 0.3, 2), (2.0, 0.4, 5, -1.0, nan, 2), (2.0, 0.4, 5, 0.0, 0.0, 0), (7.0, nan, 1, 0.0, 0.0, 0)]
    for e in edge:
        case = {"part": "merge-edge", "args": [repr(x) for x in e]}
        ctx.case(case, nontrivial=True)
        ok, r = ctx.call("_update_statistics", case, _update_statistics, *e)
        if ok:
            ctx.agree("_update_statistics corner input vs model", [r[0], r[1], r[2]], m.call("c13_update", *e), case)
    case = {"part": "merge-edge", "args": "two single values 1.0, 3.0 (num_chains = 1)"}
    ok, r = ctx.call("_update_statistics", case, _update_statistics, 1.0, nan, 1, 3.0, nan, 1)
    if ok:
        ctx.require("two single-value chunks merge to (2, 2, 2)", near(r[0], 2.0) and near(r[1], 2.0) and r[2] == 2, case, r)


def run_merge(ctx, search=False):
    nmax = 8
    reps = 2 if ctx.thorough else 1
    for n in range(1, nmax + 1):
        for _ in range(reps):
            for data in data_sets(ctx, n):
                for comp in compositions(n):
                    merge_case(ctx, data, comp, steps_vs_model=(ctx.thorough or n <= 6))
    merge_edge_cases(ctx)


# ------------------------------------------------------------------------------------ (b), (c) statistics
def split_init_call(calls, results, obs0, state, ks_without_init=None):
    """Which recorded sample() calls are DRAWS?  A leading call with k = 0 and initial_state None whose result is
    only handed on as the next call's initial_state is chain INITIALISATION, not a draw.  Decided by what the
    returned dictionary is consistent with: try "all calls", then "all but a leading k=0 / None-init call"; a
    candidate is consistent when the reported count is its number of rows and the reported mean is the mean of the
    observable over its rows.  Without any observable (empty System) the k arguments decide (ks_without_init =
    (burn_in, steps, num_samples)).
    Returns (init_call or None, draws); falls back to all calls."""
    cands = [(None, calls)]
    if len(calls) >= 2 and calls[0]["k"] == 0 and calls[0]["init"] is None:
        cands.append((calls[0], calls[1:]))
    if len(cands) == 1:
        return cands[0]
    if not results:
        # nothing is computed from the draws: the k arguments decide, then (k schedule satisfied by both readings,
        # i.e. burn_in = 0) the number of draws needed for the requested number of samples
        burn, steps, S = ks_without_init
        good = [(ic, dr) for ic, dr in cands if [c["k"] for c in dr] == [burn] + [steps] * (len(dr) - 1)]
        if len(good) == 1:
            return good[0]
        for ic, dr in good:
            rows = int(dr[0]["ret"].shape[0])
            if rows and len(dr) == -(-S // rows):
                return ic, dr
        return cands[0]
    for ic, dr in cands:
        try:
            vals = [x for v in apply_obs(obs0, state, dr) for x in v]
            if int(results[0]["num_samples"]) == len(vals) and near(results[0]["mean"], one_pass(vals)[0], max([1.0] + [abs(x) for x in vals])):
                return ic, dr
        except Exception:
            pass
    return cands[0]


def check_calls(ctx, case, state, calls, S, nc, burn, steps, init_before, init_call=None):
    """schedule / continuity oracle on the recorded DRAWS (sample() calls whose result enters the statistics;
    init_call: a leading chain-initialisation call, see split_init_call); returns (chains, draws) or None.
    chains = number of chain states each draw returned (the same for every draw).  The documented rule that
    derives it from num_chains / num_samples is NOT demanded here (the property statement does not contain it);
    it is compared with the model's num_chains_eff for information only (histogram chains_rule:*)."""
    import torch
    draws = len(calls)
    if not ctx.require("at least one draw", draws >= 1, case):
        return None
    rows = [int(c["ret"].shape[0]) for c in calls]
    chains = rows[0]
    ctx.require("every draw returns the same number of parallel chains (>= 1)",
                chains >= 1 and all(r == chains for r in rows), case, {"rows_per_draw": rows})
    ks = [c["k"] for c in calls]
    ctx.require("k schedule is [burn_in, steps, ..., steps]", ks == [burn] + [steps] * (draws - 1), case,
                {"k": ks, "burn_in": burn, "steps": steps})
    c0 = calls[0]
    if init_before is None and init_call is not None:
        ctx.count("first_draw_init:from_initialisation_call")
        start = init_call["ret"]
        ok0 = c0["init"] is not None and c0["init"].shape == start.shape and torch.equal(c0["init"], start)
        ctx.require("the first draw starts from the chains the initialisation call returned", ok0, case)
        if ok0 and state is not None:
            continues_from(ctx, case, state, c0, start, 0)
    elif init_before is None:
        ctx.count("first_draw_init:" + ("none" if c0["init"] is None else "given_by_statistics"))
    else:
        ok0 = c0["init"] is not None and c0["init"].shape == init_before.shape and torch.equal(c0["init"], init_before)
        ctx.require("first draw starts from the supplied initial chains", ok0, case)
        if ok0 and state is not None:
            continues_from(ctx, case, state, c0, init_before, 0)
    for i in range(1, draws):
        ci = calls[i]
        prev = calls[i - 1]["ret"]
        ok = ci["init"] is not None and ci["init"].shape == prev.shape and torch.equal(ci["init"], prev)
        ctx.require("each draw continues from the previous draw's chain states", ok, case, {"draw": i})
        if ok and state is not None:
            continues_from(ctx, case, state, ci, prev, i)
    return chains, draws


def check_result(ctx, case, what, res, vals, S, chains, draws):
    """returned dictionary vs independent one-pass statistics of all drawn observable values"""
    allv = [x for v in vals for x in v]
    rm, rv, rse, rn = one_pass(allv)
    scale = max([1.0] + [abs(x) for x in allv])
    n = res["num_samples"]
    ctx.require(what + ": num_samples == chains * draws >= requested",
                n == chains * draws and n == rn and n >= S, case, {"num_samples": n, "chains": chains, "draws": draws, "requested": S})
    ctx.require(what + ": mean == one-pass mean of all drawn values", near(res["mean"], rm, scale), case,
                {"impl": float(res["mean"]), "one_pass": rm})
    ctx.require(what + ": variance == one-pass unbiased variance of all drawn values", near(res["variance"], rv, scale * scale), case,
                {"impl": float(res["variance"]), "one_pass": rv, "values": allv if len(allv) <= 40 else len(allv)})
    ctx.require(what + ": std_error == sqrt(variance / count)", near(res["std_error"], rse, scale), case,
                {"impl": float(res["std_error"]), "one_pass": rse})
    ctx.require(what + ": std_error is not negative", not (float(res["std_error"]) < 0), case, {"impl": float(res["std_error"])})
    if n >= 2:
        ctx.require(what + ": variance is a definite value when the total count is >= 2",
                    not math.isnan(float(res["variance"])) and not math.isnan(float(res["std_error"])), case)


def apply_obs(obs, state, calls):
    return [[float(x) for x in obs.apply(state, c["ret"].clone()).reshape(-1).tolist()] for c in calls]


def impl_tags(calls):
    import torch
    tags = []
    for i, c in enumerate(calls):
        if c["init"] is None:
            tags.append(-2)
        elif i == 0:
            tags.append(-1)
        else:
            p = calls[i - 1]["ret"]
            tags.append(i - 1 if (c["init"].shape == p.shape and torch.equal(c["init"], p)) else -99)
    return tags


def sig_defaults(fn):
    """defaults of num_chains / burn_in / steps as the public signature declares them"""
    ps = inspect.signature(fn).parameters
    return int(ps["num_chains"].default), int(ps["burn_in"].default), int(ps["steps"].default)


def call_statistics(target, state, S, nc, burn, steps, init, ow, form):
    """the call forms of the public API: keywords, positional, all defaults, nn_state/num_samples by keyword"""
    extra = {} if init is None else dict(initial_state=init, overwrite=ow)
    if form == "positional":
        if init is None:
            return target.statistics(state, S, nc, burn, steps)
        return target.statistics(state, S, nc, burn, steps, init, ow)
    if form == "defaults":
        return target.statistics(state, S, **extra)
    if form == "allkw":
        return target.statistics(nn_state=state, num_samples=S, steps=steps, burn_in=burn, num_chains=nc, **extra)
    return target.statistics(state, S, num_chains=nc, burn_in=burn, steps=steps, **extra)


DTYPES = {"float64": "double", "float32": "float32", "int64": "int64", "uint8": "uint8"}


def stat_case(ctx, spec, state=None):
    """spec: part, state{...}, obs | obs_list, S, nc, burn, steps, init (list of rows or None), init_dtype, overwrite,
    torch_seed, form (kw | positional | defaults | allkw; with `defaults` nc / burn / steps are those of the signature),
    then: list of dicts overriding S / nc / burn / steps / init / overwrite / form / torch_seed for further statistics()
    calls made on the SAME observable / System object and the same state (a history on one object)."""
    from qucumber.observables import System
    state = state if state is not None else build_state(spec["state"])
    is_system = spec["part"] == "system"
    keys = spec["obs_list"] if is_system else [spec["obs"]]
    obs_list = [make_obs(k) for k in keys]
    target = System(*obs_list) if is_system else obs_list[0]
    prev_final = None
    try:
        for j, (cs, prep) in enumerate([(spec, spec.get("prep"))] +
                                       [(dict(spec, **t), t.get("prep")) for t in spec.get("then", [])]):
            prepare_state(ctx, state, spec["state"], prep)
            prev_final = one_statistics_call(ctx, spec, cs, j, state, is_system, keys, obs_list, target, prev_final)
            if prev_final is None:
                return
    finally:
        state.stop_training = False          # states are shared between cases


def one_statistics_call(ctx, case, spec, call_index, state, is_system, keys, obs_list, target, prev_final):
    """one statistics() call of a history; returns the final chain states (or None when the call could not be judged)"""
    import torch
    m = ctx.get_model()
    form = spec.get("form", "kw")
    S, nc, burn, steps, ow = spec["S"], spec["nc"], spec["burn"], spec["steps"], bool(spec["overwrite"])
    if form == "defaults":
        nc, burn, steps = sig_defaults(target.statistics)
    dtype_name = spec.get("init_dtype", "float64")
    init = None if spec["init"] is None else torch.tensor(spec["init"], dtype=torch.double).to(getattr(torch, DTYPES[dtype_name]))
    layout = spec.get("init_layout", "contiguous") if init is not None else "contiguous"
    if init is not None:
        init = layout_view(init, layout)
        ctx.count("init_layout:" + layout + ("" if init.is_contiguous() else "(non-contiguous)"))
    init_before = None if init is None else init.clone()
    L = None if init is None else int(init.shape[0])
    if call_index:
        ctx.count("history:call_%d_on_same_object" % (call_index + 1))
    torch.manual_seed(spec["torch_seed"])
    with BernoulliSpy() as spy:
        with Recorder(state, spy=spy) as rec:
            ok, res = ctx.call(("System" if is_system else "Observable") + ".statistics", case,
                               call_statistics, target, state, S, nc, burn, steps, init, ow, form)
    if not ok:
        return None
    all_calls = rec.calls
    results = None
    try:
        results = [res[o.name] for o in obs_list] if is_system else [res]
    except Exception as e:
        ctx.require("statistics returns a dictionary per observable", False, case, repr(e))
        return None
    if is_system:
        ctx.require("System.statistics returns exactly one dictionary per observable",
                    isinstance(res, dict) and set(res.keys()) == set(o.name for o in obs_list), case,
                    {"keys": sorted(map(str, res.keys())) if isinstance(res, dict) else repr(type(res))})
    init_call, calls = split_init_call(all_calls, results, obs_list[0] if obs_list else None, state,
                                       (burn, steps, S)) if all_calls else (None, all_calls)
    if init_call is not None:
        ctx.count("leading_initialisation_call")
    cd = check_calls(ctx, case, state, calls, S, nc, burn, steps, init_before, init_call)
    if cd is None:
        return None
    chains, draws = cd
    # a new statistics() call starts fresh chains unless initial chains are passed: it must not carry on from the
    # chain states an earlier call on the same object ended with
    c0 = calls[0]
    if init is None and init_call is None and prev_final is not None and c0["init"] is not None:
        ctx.require("a new statistics() call does not continue the chains of the previous call on the same object",
                    not (c0["init"].shape == prev_final.shape and torch.equal(c0["init"], prev_final)), case,
                    {"call_index": call_index})
    # the caller's tensor
    if init is not None:
        ctx.count("first_draw_tensor:" + ("caller's" if calls[0]["init_ptr"] == init.data_ptr() else "copy"))
        if ow and dtype_name == "float64":
            ctx.require("overwrite=True: the caller's initial_state holds the final chain states",
                        torch.equal(init, calls[-1]["ret"]), case)
        elif ow:
            # other dtypes: the statement does not say what the caller's tensor holds afterwards -- informational
            fin = torch.equal(init.to(torch.double), calls[-1]["ret"])
            fst = torch.equal(init.to(torch.double), calls[0]["ret"])
            ctx.count("overwrite_non_float64:caller_holds_" + ("final_states" if fin else "first_draw_states" if fst else "other"))
        else:
            ctx.require("overwrite=False: the caller's initial_state is left unchanged", torch.equal(init, init_before), case)
    # values drawn, per observable
    vals = [apply_obs(o, state, calls) for o in obs_list]         # vals[obs][draw][chain]
    for o, r, v in zip(obs_list, results, vals):
        check_result(ctx, case, ("System[%s]" % o.name) if is_system else "statistics", r, v, S, chains, draws)
    allv = [x for v in vals[0] for x in v] if vals else []
    nontriv = draws >= 2 and (len(set(allv)) > 1 or not vals)
    ctx.case({"part": spec["part"], "state": spec["state"]["kind"], "obs": keys, "S": S, "nc": nc, "burn": burn, "steps": steps,
              "L": L, "ow": ow, "form": form, "dtype": dtype_name, "call": call_index, "layout": layout,
              "stop_flag": bool(state.stop_training)}, nontrivial=nontriv)
    ctx.count("stop_training_flag:" + ("set" if state.stop_training else "clear"))
    ctx.count("k_range:" + ("burn>=2048" if burn >= 2048 else "burn>=500" if burn >= 500 else "burn<500") +
              ("/steps>=2048" if steps >= 2048 else "/steps>=100" if steps >= 100 else ""))
    ctx.count("num_observables=%d" % len(obs_list) if is_system else "single_observable")
    ctx.count("size:" + ("S<=12" if S <= 12 else "S<=1000" if S <= 1000 else "S>1000"))
    if init is not None:
        ctx.count("init_dtype:" + dtype_name)
    ctx.count("%s:%s" % (spec["part"], spec["state"]["kind"]))
    ctx.count("form:" + form)
    ctx.count("draws=%d" % draws if draws < 6 else "draws>=6")
    ctx.count("chains=1" if chains == 1 else "chains>1")
    ctx.count("nc:" + ("0" if nc == 0 else "1" if nc == 1 else ">S" if nc > S else "divisor" if S % nc == 0 else "non-divisor"))
    if init is not None:
        ctx.count("init:overwrite" if ow else "init:clone")
    for k in keys:
        ctx.count("obs:" + k)
    # ---- informational only: the docstring's rule for the number of chains (not part of the property statement)
    rule = m.call("c13_schedule", init is not None, L or 0, nc, S, burn, steps, ow, 0)
    if int(rule[0]) == chains:
        ctx.count("chains_rule:as_documented")
    else:
        ctx.count("chains_rule:differs_from_docstring(informational)")
        ctx.extra["note_chains_rule"] = ("the number of chains observed differs from the documented rule "
                                         "(len(initial_state) | num_samples if num_chains is 0 or larger | num_chains) in some cases; "
                                         "the property statement does not constrain it, so this is not a violation")
    num_args = [c["num_samples"] for c in calls]
    ctx.count("num_samples_arg:" + ("chains_every_call" if all(x == chains for x in num_args) else "other"))
    # ---- correspondence with the Coq model, evaluated for the number of chains observed
    sch = m.call("c13_schedule", init is not None, L or 0, nc, S, burn, steps, ow, chains)
    ctx.agree_exact("number of draws vs model num_draws (for the observed number of chains)", draws, int(sch[1]), case)
    ctx.agree_exact("k arguments vs model k_schedule", [c["k"] for c in calls], [int(x) for x in sch[2]], case)
    if results:
        ctx.agree_exact("reported count vs model chains*draws", int(results[0]["num_samples"]), int(sch[3]), case)
    if not is_system:
        r = m.call("c13_statistics", vals[0], init is not None, L or 0, nc, S, burn, steps, chains)
        ctx.agree("statistics dictionary vs model statistics",
                  [res["mean"], res["variance"], res["std_error"], res["num_samples"]], r[0], case)
        ctx.agree_exact("k of every call vs model trace", [c["k"] for c in calls], [int(x) for x in r[1]], case)
        tags = impl_tags(calls)
        mtags = [int(x) for x in r[3]]
        if init is None:            # what the first draw starts from without user chains is not constrained
            tags, mtags = tags[1:], mtags[1:]
        ctx.agree_exact("initial_state of every call vs model trace (chain continuity)", tags, mtags, case)
    else:
        per_draw = [[vals[j][d] for j in range(len(obs_list))] for d in range(draws)]
        r = m.call("c13_system", per_draw, len(obs_list), init is not None, L or 0, nc, S, burn, steps, chains)
        for o, rr, mm in zip(obs_list, results, r):
            ctx.agree("System dictionary of %s vs model system_statistics" % o.name,
                      [rr["mean"], rr["variance"], rr["std_error"], rr["num_samples"]], mm, case)
        # each observable alone on the same chain states
        replay_states = [c["ret"] for c in all_calls]
        for o, rr in zip(obs_list, results):
            i2 = None if init is None else init_before.clone()
            with Recorder(state, replay=replay_states) as rec2:
                ok, alone = ctx.call("Observable.statistics (alone, replayed chain states)", case,
                                     call_statistics, o, state, S, nc, burn, steps, i2, False, form)
            if not ok:
                continue
            if init is None and rec2.calls and rec2.calls[0]["num_samples"] != chains:
                # alone, the observable would run a different number of chains than the System did: the System's
                # chain states cannot be "the same chain states" for it; nothing the property constrains
                ctx.count("system_vs_alone:different_chain_count(incomparable)")
                continue
            same_states = len(rec2.calls) == len(all_calls)
            good = same_states and all(near(alone[k], rr[k]) for k in ("mean", "variance", "std_error")) \
                and alone["num_samples"] == rr["num_samples"]
            ctx.require("System gives each observable what it gets alone on the same chain states", good, case,
                        {"observable": o.name, "system": {k: float(v) for k, v in rr.items()},
                         "alone": {k: float(v) for k, v in alone.items()}})
            ctx.count("system_vs_alone:compared")
    ctx.traces += 1
    return calls[-1]["ret"]


FIELDS = ("mean", "variance", "std_error", "num_samples")


def check_fields(ctx, case, what, rr, vals, extra=None):
    """EVERY field of one returned dictionary against the independent one-pass statistics of the observable values `vals`
    (one requirement per field, so the failing relation names the field); the standard error is never negative."""
    rm, rv, rse, rn = one_pass(vals)
    scale = max([1.0] + [abs(x) for x in vals])
    detail = dict(extra or {})
    missing = [k for k in FIELDS if not (hasattr(rr, "keys") and k in rr.keys())]
    if not ctx.require(what + ": the dictionary reports mean, variance, std_error and num_samples", not missing, case,
                       dict(detail, missing=missing)):
        return False
    detail.update({"impl": {k: float(rr[k]) for k in FIELDS}, "one_pass": {"mean": rm, "variance": rv, "std_error": rse, "num_samples": rn},
                   "values": vals if len(vals) <= 40 else len(vals)})
    ok = ctx.require(what + ": num_samples == number of sample rows", rr["num_samples"] == rn, case, detail)
    ok &= ctx.require(what + ": mean == one-pass mean of the observable values", near(rr["mean"], rm, scale), case, detail)
    ok &= ctx.require(what + ": variance == one-pass unbiased variance of the observable values",
                      near(rr["variance"], rv, scale * scale), case, detail)
    ok &= ctx.require(what + ": std_error == sqrt(one-pass variance / count)", near(rr["std_error"], rse, scale), case, detail)
    ok &= ctx.require(what + ": std_error is not negative", not (float(rr["std_error"]) < 0), case, detail)
    return bool(ok)


def from_samples_case(ctx, state, sspec, key, rows, samples=None, model=True):
    """ObservableBase.statistics_from_samples and System(o).statistics_from_samples of ONE observable on given rows: each
    returned dictionary, field by field, against the one-pass statistics of o.apply on the same rows"""
    import torch
    from qucumber.observables import System
    m = ctx.get_model()
    o = make_obs(key)
    if samples is None:
        samples = torch.tensor(ctx.rng.integers(0, 2, size=(rows, sspec["nv"])).astype(float), dtype=torch.double)
    else:
        samples = torch.tensor(samples, dtype=torch.double)
    case = {"part": "from_samples", "state": sspec, "obs": key, "rows": rows,
            "samples": samples.tolist() if rows <= 64 else "random 0/1 rows (%d)" % rows}
    ctx.case({"part": "from_samples", "state": sspec["kind"], "obs": key, "rows": rows, "s0": samples[:8].tolist()}, nontrivial=rows >= 2)
    ctx.count("from_samples:rows" + ("<=64" if rows <= 64 else ">1000"))
    ctx.count("from_samples:obs:" + key)
    vals = [float(x) for x in o.apply(state, samples.clone()).reshape(-1).tolist()]
    ok, r = ctx.call("statistics_from_samples", case, o.statistics_from_samples, state, samples.clone())
    if ok and check_fields(ctx, case, "statistics_from_samples", r, vals, {"observable": o.name}) and model:
        ctx.agree("statistics_from_samples vs model", [r["mean"], r["variance"], r["std_error"], r["num_samples"]],
                  m.call("c13_from_samples", vals), case, scale=max([1.0] + [x * x for x in vals]))
    ok, rs = ctx.call("System.statistics_from_samples", case, System(o).statistics_from_samples, state, samples.clone())
    if ok:
        good = isinstance(rs, dict) and set(rs.keys()) == {o.name}
        ctx.require("System.statistics_from_samples returns exactly one dictionary per observable", good, case,
                    {"keys": sorted(map(str, rs.keys())) if isinstance(rs, dict) else repr(type(rs))})
        if good:
            check_fields(ctx, case, "System.statistics_from_samples[one observable]", rs[o.name], vals, {"observable": o.name})
    ctx.traces += 1


def from_samples_system_case(ctx, state, sspec, keys, rows, samples=None):
    """System.statistics_from_samples on a set of observables: each gets what it gets alone on the same rows"""
    import torch
    from qucumber.observables import System
    keys = distinct_names(keys)
    obs = [make_obs(k) for k in keys]
    if samples is None:
        samples = torch.tensor(ctx.rng.integers(0, 2, size=(rows, sspec["nv"])).astype(float), dtype=torch.double)
    else:
        samples = torch.tensor(samples, dtype=torch.double)
    case = {"part": "from_samples_system", "state": sspec, "obs_list": keys, "rows": rows, "samples": samples.tolist()}
    ctx.case({"part": "from_samples_system", "state": sspec["kind"], "obs": keys, "rows": rows, "s0": samples[:8].tolist()},
             nontrivial=rows >= 2 and len(keys) >= 2)
    ctx.count("from_samples_system:observables=%d" % len(keys))
    ok, rs = ctx.call("System.statistics_from_samples", case, System(*obs).statistics_from_samples, state, samples.clone())
    if not ok:
        return
    good = isinstance(rs, dict) and set(rs.keys()) == set(o.name for o in obs)
    ctx.require("System.statistics_from_samples returns exactly one dictionary per observable", good, case,
                {"keys": sorted(map(str, rs.keys())) if isinstance(rs, dict) else repr(type(rs))})
    if not good:
        return
    for k, o in zip(keys, obs):
        ctx.count("from_samples_system:obs:" + k)
        vals = [float(x) for x in o.apply(state, samples.clone()).reshape(-1).tolist()]
        check_fields(ctx, case, "System.statistics_from_samples gives each observable the one-pass statistics of its own values",
                     rs[o.name], vals, {"observable": o.name, "key": k})
    ctx.traces += 1


def from_samples_all_keys(ctx, states, row_counts, model_every=1):
    """statistics_from_samples (alone and through System) of EVERY observable of OBS_KEYS -- plain, sums, products with
    negative / zero / fractional / large scalars -- on every state kind, for the given numbers of rows; then Systems made
    of the scaled composites together with plain observables"""
    n = 0
    for st, sspec in states:
        for key in OBS_KEYS:
            for rows in row_counts:
                n += 1
                from_samples_case(ctx, st, sspec, key, rows, model=(n % model_every == 0))
        for j in range(0, len(SCALED_KEYS), 6):
            from_samples_system_case(ctx, st, sspec, SCALED_KEYS[j:j + 6] + ["Z", "X", "NN"], row_counts[-1] + j)


def make_states(ctx, copies):
    out = []
    for _ in range(copies):
        out.append(new_state(ctx, "positive", int(ctx.rng.choice([2, 3])), int(ctx.rng.choice([1, 2, 3]))))
        out.append(new_state(ctx, "complex", int(ctx.rng.choice([2, 3])), int(ctx.rng.choice([1, 2, 3]))))
        out.append(new_state(ctx, "dm", 2, int(ctx.rng.choice([1, 2])), int(ctx.rng.choice([1, 2]))))
    return out


def rand_init(ctx, L, nv):
    return ctx.rng.integers(0, 2, size=(L, nv)).astype(float).tolist()


def run_statistics(ctx, Smax, sweeps, deadline=None):
    states = make_states(ctx, 1)
    idx = 0

    def pick(i):
        st, sspec = states[i % len(states)]
        return st, sspec, OBS_KEYS[(i // len(states)) % len(OBS_KEYS)]
    # (b) every (S, nc, burn_in, steps), without initial chains
    for sweep in range(sweeps):
        for S in range(1, Smax + 1):
            for nc in range(0, S + 3):
                for (burn, steps) in PAIRS16:
                    st, sspec, key = pick(idx + sweep)
                    idx += 1
                    spec = {"part": "statistics", "state": sspec, "obs": key, "S": S, "nc": nc, "burn": burn, "steps": steps,
                            "init": None, "overwrite": False, "torch_seed": ctx.torch_seed(),
                            "form": ("kw", "positional", "allkw")[(idx // 5) % 3]}
                    if idx % 11 == 0:   # a history: further calls on the same observable object
                        spec["then"] = [{"torch_seed": ctx.torch_seed()} for _ in range(1 + idx % 2)]
                        if idx % 3 == 0:
                            spec["then"][0]["prep"] = "stop_flag"
                    elif idx % 13 == 0:
                        spec["prep"] = ("stop_flag", "stopped_fit", "fit")[(idx // 13) % 3]
                    stat_case(ctx, spec, st)
            if deadline and time.time() > deadline:
                return
    # user-supplied initial chains: every length 1..S+2, overwrite on/off, num_chains ignored
    for S in range(1, Smax + 1):
        for L in range(1, S + 3):
            for ow in (False, True):
                st, sspec, key = pick(idx)
                burn, steps = PAIRS16[(idx * 7 + 5) % 16]
                idx += 1
                part = "system" if idx % 3 == 0 else "statistics"
                spec = {"part": part, "state": sspec, "S": S, "nc": int(ctx.rng.integers(0, S + 3)), "burn": burn, "steps": steps,
                        "init": rand_init(ctx, L, sspec["nv"]), "overwrite": ow, "torch_seed": ctx.torch_seed(),
                        "form": ("kw", "positional", "allkw")[idx % 3],
                        "init_dtype": ("float64", "float32", "float64", "int64", "float64", "uint8")[(idx // 2) % 6],
                        "init_layout": LAYOUTS[int(ctx.rng.integers(0, len(LAYOUTS)))] if idx % 2 else "contiguous"}
                if idx % 9 == 0:
                    spec["prep"] = ("stop_flag", "stopped_fit", "fit")[(idx // 9) % 3]
                if part == "system":
                    spec["obs_list"] = system_keys(ctx)
                else:
                    spec["obs"] = key
                stat_case(ctx, spec, st)
    # (c) System over every (S, nc)
    for rep in range(2 * sweeps):
        for S in range(1, Smax + 1):
            for nc in range(0, S + 3):
                st, sspec, _ = pick(idx)
                burn, steps = PAIRS16[(idx * 5 + 3 + rep) % 16]
                idx += 1
                spec = {"part": "system", "state": sspec, "obs_list": system_keys(ctx), "S": S, "nc": nc, "burn": burn, "steps": steps,
                        "init": None, "overwrite": False, "torch_seed": ctx.torch_seed(),
                        "form": ("kw", "positional", "allkw")[idx % 3]}
                if idx % 5 == 0:        # a history: further calls on the same System object
                    spec["then"] = [{"torch_seed": ctx.torch_seed()} for _ in range(1 + idx % 2)]
                    if idx % 2 == 0:
                        spec["then"][-1]["prep"] = "stop_flag"
                elif idx % 7 == 0:
                    spec["prep"] = ("stop_flag", "stopped_fit", "fit")[(idx // 7) % 3]
                stat_case(ctx, spec, st)
    # default arguments (num_chains / burn_in / steps as the signature declares them), with and without initial chains
    for S in range(1, Smax + 1, 1 if ctx.thorough else 2):
        for part in ("statistics", "system"):
            for with_init in (False, True):
                st, sspec, key = pick(idx)
                idx += 1
                spec = {"part": part, "state": sspec, "S": S, "nc": -1, "burn": -1, "steps": -1, "form": "defaults",
                        "init": rand_init(ctx, int(ctx.rng.integers(1, S + 2)), sspec["nv"]) if with_init else None,
                        "overwrite": bool(with_init and idx % 2), "torch_seed": ctx.torch_seed()}
                if part == "system":
                    spec["obs_list"] = system_keys(ctx)
                else:
                    spec["obs"] = key
                stat_case(ctx, spec, st)
    # random large sizes (log-uniform up to 25000 samples), cheap observables
    for _ in range(6 if ctx.thorough else 2):
        st, sspec, _k = pick(idx)
        idx += 1
        S = int(np.exp(ctx.rng.uniform(np.log(200), np.log(25000))))
        nc = int(ctx.rng.choice([0, 1 + int(ctx.rng.integers(0, S + 2)), S + 1]))
        part = "system" if idx % 2 else "statistics"
        burn, steps = PAIRS16[int(ctx.rng.integers(0, 16))]
        if nc and S // nc > 40:
            burn, steps = min(burn, 1), min(steps, 1)
            nc = max(nc, S // 40)
        spec = {"part": part, "state": sspec, "S": S, "nc": nc, "burn": burn, "steps": steps, "init": None, "overwrite": False,
                "torch_seed": ctx.torch_seed(), "form": "kw"}
        if part == "system":
            spec["obs_list"] = [str(x) for x in ctx.rng.choice(["Z", "NN", "absZ", "NNp"], size=int(ctx.rng.integers(0, 3)), replace=False)]
        else:
            spec["obs"] = str(ctx.rng.choice(["Z", "NN", "absZ"]))
        stat_case(ctx, spec, st)
        from_samples_case(ctx, st, sspec, "Z", int(np.exp(ctx.rng.uniform(np.log(1000), np.log(25000)))))
    # random long burn-in / steps (log-uniform up to 6000 Gibbs steps), few chains
    for j in range(6 if ctx.thorough else 3):
        st, sspec, _k = pick(idx)
        idx += 1
        big = int(np.exp(ctx.rng.uniform(np.log(300), np.log(6000))))
        near2 = int(ctx.rng.choice([1024, 2048, 4096])) + int(ctx.rng.integers(-1, 2))
        burn, steps = [(big, int(ctx.rng.integers(0, 3))), (int(ctx.rng.integers(0, 3)), min(big, 2500)), (near2, 1)][j % 3]
        S = int(ctx.rng.integers(2, 6))
        nc = int(ctx.rng.integers(1, 4))
        if steps > 100:
            nc = max(nc, -(-S // 3))            # at most 3 draws with many steps between them
        part = "system" if j % 2 else "statistics"
        spec = {"part": part, "state": sspec, "S": S, "nc": nc, "burn": burn, "steps": steps, "init": None, "overwrite": False,
                "torch_seed": ctx.torch_seed(), "form": ("kw", "positional", "allkw")[j % 3]}
        if part == "system":
            spec["obs_list"] = distinct_names([str(x) for x in ctx.rng.choice(["Z", "NN", "absZ", "2Z+1"], size=int(ctx.rng.integers(1, 3)), replace=False)])
        else:
            spec["obs"] = str(ctx.rng.choice(["Z", "NN", "absZ"]))
        stat_case(ctx, spec, st)
    # statistics_from_samples directly (1 row: nan variance)
    from_samples_all_keys(ctx, states, (int(ctx.rng.integers(2, 5)), int(ctx.rng.integers(5, 40))), model_every=1 if ctx.thorough else 4)
    for i, (st, sspec) in enumerate(states):
        for rows in (1, 2, 3, 7):
            from_samples_case(ctx, st, sspec, OBS_KEYS[(i + rows) % len(OBS_KEYS)], rows)
        for rows in (2, 6, 11):
            from_samples_system_case(ctx, st, sspec, system_keys(ctx, int(ctx.rng.integers(2, 5))), rows)


def system_keys(ctx, k=None):
    """a set of 0..4 distinct observables (0 and 1 included: the empty System and the single-observable System)"""
    if k is None:
        k = int(ctx.rng.choice([0, 1, 1, 2, 2, 3, 4]))
    keys = [str(x) for x in ctx.rng.choice(OBS_KEYS, size=k, replace=False)]
    if k >= 2 and "2Z-X" not in keys and "mix" not in keys and ctx.rng.random() < 0.6:
        keys[-1] = "2Z-X"
    if k >= 2 and ctx.rng.random() < 0.5:
        # two members that share a LEAF name but not its configuration, one member that depends on neighbouring rows
        keys[:2] = [("2Z+1", "3absZ"), ("SWAP0-1", "hSWAP1"), ("Z", "Z+absZ"), ("SWAP01", "3absZ")][int(ctx.rng.integers(0, 4))]
    return distinct_names(keys)


def run_fixed(ctx):
    """Fixed cases that always run first: large sizes (thousands of samples / chains / rows), Systems with one and
    with zero observables (incl. initial chains / overwrite), histories of several statistics() calls on the SAME
    observable / System object, initial chains of other dtypes than float64."""
    states = make_states(ctx, 1)
    (sp, sp_spec), (sc, sc_spec), (sd, sd_spec) = states[0], states[1], states[2]

    def spec(part, st_spec, obs, S, nc, burn, steps, init=None, ow=False, form="kw", dtype="float64", then=None,
             layout="contiguous", prep=None):
        d = {"part": part, "state": st_spec, "S": S, "nc": nc, "burn": burn, "steps": steps, "init": init, "overwrite": ow,
             "form": form, "init_dtype": dtype, "torch_seed": ctx.torch_seed(), "init_layout": layout}
        if prep:
            d["prep"] = prep
        d["obs_list" if part == "system" else "obs"] = obs
        if then is not None:
            d["then"] = [dict(t, torch_seed=ctx.torch_seed()) for t in then]
        return d
    big = [
        (sp, spec("statistics", sp_spec, "Z", 25000, 0, 1, 1)),
        (sc, spec("statistics", sc_spec, "Z", 25000, 12000, 2, 1)),
        (sd, spec("statistics", sd_spec, "NN", 20001, 10000, 1, 2, form="positional")),
        (sp, spec("statistics", sp_spec, "absZ", 5000, 4097, 0, 1)),
        (sp, spec("statistics", sp_spec, "X", 4100, 0, 1, 0)),
        (sc, spec("system", sc_spec, ["Z", "NN"], 25000, 0, 1, 1)),
        (sd, spec("system", sd_spec, ["Z"], 12000, 10001, 1, 1)),
        (sp, spec("statistics", sp_spec, "Z", 9000, 3, 2, 1, init=rand_init(ctx, 5000, sp_spec["nv"]), ow=True, dtype="float32")),
        (sc, spec("system", sc_spec, ["NNp", "Z"], 16385, 7, 1, 1, init=rand_init(ctx, 8193, sc_spec["nv"]), ow=True)),
    ]
    def ri(st_spec, L):
        return rand_init(ctx, L, st_spec["nv"])
    few = [
        # observables that depend on the neighbouring rows of the batch (SWAP), alone and in Systems; composites whose
        # leaves share a name but not a configuration; each System member is compared with the observable alone
        (sp, spec("system", sp_spec, ["SWAP0", "Z"], 24, 12, 3, 1)),
        (sc, spec("system", sc_spec, ["2Z+1", "3absZ", "SWAP0-1", "hSWAP1"], 16, 8, 2, 1)),
        (sd, spec("system", sd_spec, ["Z", "Z+absZ", "SWAP01"], 12, 6, 1, 1, form="positional")),
        (sp, spec("system", sp_spec, ["SWAP0+SWAP1", "absZ", "3absZ"], 18, 9, 2, 2, init=ri(sp_spec, 9), ow=True)),
        (sc, spec("statistics", sc_spec, "SWAP1", 20, 10, 2, 1)),
        (sd, spec("statistics", sd_spec, "SWAP0-1", 9, 4, 1, 1, then=[{}])),
        (sp, spec("statistics", sp_spec, "Z+absZ", 10, 5, 1, 0)),
        # the caller's initial chains as non-contiguous / offset VIEWS of a larger buffer, overwrite on and off
        (sp, spec("statistics", sp_spec, "Z", 8, 0, 2, 1, init=ri(sp_spec, 4), ow=True, layout="rows2")),
        (sc, spec("statistics", sc_spec, "X", 8, 0, 2, 1, init=ri(sc_spec, 4), ow=True, layout="cols2")),
        (sd, spec("statistics", sd_spec, "NN", 6, 0, 1, 2, init=ri(sd_spec, 3), ow=True, layout="transposed")),
        (sp, spec("system", sp_spec, ["Z", "NN"], 8, 0, 2, 1, init=ri(sp_spec, 4), ow=True, layout="transposed")),
        (sc, spec("system", sc_spec, ["Z"], 9, 0, 1, 1, init=ri(sc_spec, 3), ow=True, layout="rows2", form="positional")),
        (sd, spec("system", sd_spec, ["2Z-X"], 6, 0, 2, 0, init=ri(sd_spec, 3), ow=True, layout="cols2")),
        (sp, spec("statistics", sp_spec, "absZ", 7, 0, 2, 1, init=ri(sp_spec, 5), ow=False, layout="cols2")),
        (sc, spec("system", sc_spec, ["NN"], 5, 0, 1, 1, init=ri(sc_spec, 2), ow=False, layout="transposed")),
        (sp, spec("statistics", sp_spec, "Z", 6, 0, 1, 1, init=ri(sp_spec, 3), ow=True, layout="offset")),
        (sp, spec("statistics", sp_spec, "Z", 6, 0, 1, 1, init=ri(sp_spec, 3), ow=True, layout="rows2", dtype="float32")),
        # what earlier public operations leave on the state: stop_training set (directly / by a fit a callback stopped),
        # a completed fit; and the flag changing between the calls of a history
        (sp, spec("statistics", sp_spec, "Z", 20, 5, 2, 1, prep="stop_flag")),
        (sc, spec("system", sc_spec, ["Z", "X"], 20, 5, 2, 1, prep="stop_flag")),
        (sd, spec("statistics", sd_spec, "NN", 9, 2, 1, 1, prep="stop_flag", form="positional")),
        (sp, spec("system", sp_spec, ["NN"], 7, 3, 1, 2, prep="stopped_fit", init=ri(sp_spec, 3), ow=True)),
        (sc, spec("statistics", sc_spec, "2Z-X", 8, 4, 2, 1, prep="stopped_fit")),
        (sd, spec("system", sd_spec, ["Z", "NN"], 6, 2, 1, 1, prep="stopped_fit")),
        (sp, spec("statistics", sp_spec, "X", 6, 2, 2, 1, prep="fit", then=[{"prep": "stop_flag"}, {"prep": "clear_flag"}])),
        (sc, spec("system", sc_spec, ["mix", "Z"], 6, 3, 1, 1, then=[{"prep": "stop_flag"}, {}])),
        # long burn-in / many steps between draws (at and around powers of two), single observables and Systems
        (sp, spec("statistics", sp_spec, "Z", 4, 2, 2048, 2)),
        (sc, spec("statistics", sc_spec, "Z", 4, 2, 5000, 1)),
        (sp, spec("statistics", sp_spec, "NN", 6, 2, 1, 2048)),
        (sp, spec("system", sp_spec, ["Z"], 4, 2, 4097, 3)),
        (sd, spec("system", sd_spec, ["Z", "NN"], 4, 2, 2049, 0)),
        (sc, spec("system", sc_spec, ["absZ"], 6, 3, 0, 2049, init=ri(sc_spec, 3), ow=True)),
        (sp, spec("statistics", sp_spec, "Z", 3, 3, 1000, 1, form="defaults")),
        # one / zero observables, with and without initial chains
        (sp, spec("system", sp_spec, ["Z"], 5, 2, 3, 1, init=rand_init(ctx, 3, sp_spec["nv"]), ow=True)),
        (sc, spec("system", sc_spec, ["X"], 6, 0, 2, 1, init=rand_init(ctx, 4, sc_spec["nv"]), ow=False, dtype="float32")),
        (sd, spec("system", sd_spec, ["2Z-X"], 7, 1, 2, 3)),
        (sp, spec("system", sp_spec, ["NN"], 4, 9, 1, 2, form="positional")),
        (sp, spec("system", sp_spec, [], 5, 2, 3, 1, init=rand_init(ctx, 2, sp_spec["nv"]), ow=True)),
        (sc, spec("system", sc_spec, [], 7, 3, 2, 1)),
        (sd, spec("system", sd_spec, [], 3, 0, 1, 0, init=rand_init(ctx, 5, sd_spec["nv"]), ow=False, dtype="int64")),
        # histories on one object
        (sp, spec("statistics", sp_spec, "Z", 6, 2, 3, 1, then=[{}, {}])),
        (sc, spec("statistics", sc_spec, "X", 5, 5, 2, 2, then=[{}, {"S": 10}])),
        (sd, spec("statistics", sd_spec, "2Z-X", 4, 0, 1, 0, form="defaults", then=[{}])),
        (sp, spec("system", sp_spec, ["Z", "X"], 6, 3, 3, 1, then=[{}, {"nc": 2}])),
        (sc, spec("system", sc_spec, ["mix"], 8, 4, 2, 0, then=[{"init": rand_init(ctx, 4, sc_spec["nv"]), "overwrite": True}, {}])),
        (sd, spec("statistics", sd_spec, "NN", 6, 3, 1, 1, init=rand_init(ctx, 3, sd_spec["nv"]), ow=True,
                  then=[{"init": None, "overwrite": False}, {}])),
        # other dtypes of the initial chains
        (sp, spec("statistics", sp_spec, "Z", 9, 0, 3, 2, init=rand_init(ctx, 3, sp_spec["nv"]), ow=True, dtype="float32")),
        (sc, spec("statistics", sc_spec, "X", 7, 0, 2, 1, init=rand_init(ctx, 2, sc_spec["nv"]), ow=False, dtype="int64")),
        (sd, spec("system", sd_spec, ["Z", "NN"], 8, 0, 1, 2, init=rand_init(ctx, 3, sd_spec["nv"]), ow=True, dtype="uint8")),
    ]
    # products with negative / zero / fractional / large scalars through the streaming entry points (alone, in Systems,
    # with initial chains, in a history); every field of every dictionary is compared in check_result
    scaled = [
        (sp, spec("statistics", sp_spec, "-Z", 12, 4, 2, 1)),
        (sc, spec("statistics", sc_spec, "-1.5X", 10, 4, 1, 1, form="positional")),
        (sd, spec("statistics", sd_spec, "2(-NN)", 7, 0, 1, 0)),
        (sp, spec("statistics", sp_spec, "NN*-3", 5, 9, 0, 1)),
        (sc, spec("statistics", sc_spec, "-(Z+X)", 6, 1, 1, 1, then=[{}])),
        (sd, spec("statistics", sd_spec, "-2.5(-0.5Y)", 8, 3, 1, 2, init=ri(sd_spec, 3), ow=True)),
        (sp, spec("statistics", sp_spec, "0Z", 6, 3, 1, 1)),
        (sc, spec("statistics", sc_spec, "-1e6X", 9, 3, 2, 1)),
        (sd, spec("statistics", sd_spec, "-0.1Y", 6, 2, 1, 1, form="defaults")),
        (sp, spec("system", sp_spec, ["-Z", "NN*-3", "0.25NNp", "X"], 12, 4, 2, 1)),
        (sc, spec("system", sc_spec, ["-1.5X", "-(2Z-X)", "0Z", "1e6Z", "Z"], 10, 3, 1, 1, form="positional")),
        (sd, spec("system", sd_spec, ["-2.5(-0.5Y)", "2(-NN)", "-0.0X", "3-Z"], 8, 0, 1, 1, init=ri(sd_spec, 4), ow=True)),
        (sp, spec("system", sp_spec, ["-SWAP0", "-absZ", "1234567.891NN", "-NN/3"], 8, 4, 2, 1, then=[{}])),
    ]
    for st, sp_ in few + scaled + big:
        stat_case(ctx, sp_, st)
    # statistics_from_samples, alone and through System, of EVERY observable kind on every state kind (1 row: nan variance)
    from_samples_all_keys(ctx, states, (1, 2, 9), model_every=3)
    for st, sspec, key, rows in ((sp, sp_spec, "Z", 4097), (sc, sc_spec, "Z", 5000), (sd, sd_spec, "NN", 8193),
                                 (sp, sp_spec, "Z", 20000), (sc, sc_spec, "X", 5000)):
        from_samples_case(ctx, st, sspec, key, rows)
    for st, sspec, ks, rows in ((sp, sp_spec, ["2Z+1", "3absZ", "SWAP0-1", "hSWAP1"], 12), (sc, sc_spec, ["Z", "Z+absZ", "SWAP01"], 9),
                                (sd, sd_spec, ["SWAP0+SWAP1", "absZ", "3absZ", "X"], 7), (sp, sp_spec, ["SWAP1"], 5), (sc, sc_spec, [], 4)):
        from_samples_system_case(ctx, st, sspec, ks, rows)
    # the merge routine on long chunks
    data = ctx.rng.normal(size=5000)
    merge_case(ctx, data, [4096, 904], steps_vs_model=False)
    merge_case(ctx, data, [1, 4998, 1], steps_vs_model=False)


def run(ctx):
    run_fixed(ctx)
    run_merge(ctx)
    run_statistics(ctx, Smax=12 if ctx.thorough else 8, sweeps=3 if ctx.thorough else 1)


# ------------------------------------------------------------------------------------ search / replay
def search(ctx, broken, budget):
    """Wider oracle sweep when the proof or the correspondence broke: longer data sets with random chunkings,
    larger (num_samples, num_chains), more observables."""
    t0 = time.time()
    budget = min(budget, 90)
    n0 = len(ctx.failures)
    rng = ctx.rng

    def found():
        return ctx.failures[n0] if len(ctx.failures) > n0 else None
    while time.time() - t0 < budget * 0.3:
        n = int(rng.integers(2, 40))
        data = data_sets(ctx, n)[int(rng.integers(0, 4))]
        cuts = sorted(set(int(x) for x in rng.integers(1, n, size=int(rng.integers(0, n)))))
        comp = [b - a for a, b in zip([0] + cuts, cuts + [n])]
        merge_case(ctx, data, comp, steps_vs_model=False)
        if found():
            return found()
    states = make_states(ctx, 1)
    i = 0
    while time.time() - t0 < budget:
        st, sspec = states[i % len(states)]
        i += 1
        S = int(rng.integers(1, 30))
        part = "system" if i % 2 else "statistics"
        spec = {"part": part, "state": sspec, "S": S, "nc": int(rng.integers(0, S + 4)), "burn": int(rng.integers(0, 6)),
                "steps": int(rng.integers(0, 4)), "init": None, "overwrite": False, "torch_seed": ctx.torch_seed()}
        if rng.random() < 0.3:
            spec["init"] = rand_init(ctx, int(rng.integers(1, S + 3)), sspec["nv"])
            spec["overwrite"] = bool(rng.random() < 0.5)
        if part == "system":
            spec["obs_list"] = system_keys(ctx)
        else:
            spec["obs"] = OBS_KEYS[int(rng.integers(0, len(OBS_KEYS)))]
        stat_case(ctx, spec, st)
        if found():
            return found()
    return None


def replay(ctx, rec):
    case = rec.get("failing", {}).get("case", {})
    part = case.get("part")
    print("replay of", part, {k: case.get(k) for k in ("S", "nc", "burn", "steps", "obs", "obs_list", "overwrite", "chunks")})
    if part == "merge":
        merge_case(ctx, case["data"], case["chunks"])
    elif part in ("statistics", "system"):
        stat_case(ctx, case)
    elif part == "merge-edge":
        merge_edge_cases(ctx)
    elif part == "from_samples" and isinstance(case.get("samples"), list):
        from_samples_case(ctx, build_state(case["state"]), case["state"], case["obs"], case["rows"], samples=case["samples"])
    elif part == "from_samples_system" and isinstance(case.get("samples"), list):
        from_samples_system_case(ctx, build_state(case["state"]), case["state"], case["obs_list"], case["rows"], samples=case["samples"])
    else:
        run(ctx)
