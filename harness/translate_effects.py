"""translate_effects.py — fail-closed Python-`ast` translator: /repo/qucumber  ->  coq/generated/EffectsGen.v

For every function / method (and every module's top-level code) it emits one record
    (id, qualified name, atoms, callees)
of the effect language of coq/model/Effects.v, plus one id list per public operation class.
props/C14.v proves, by computation over that table, that no foreign source of nondeterminism
and (for read-only operations) no parameter write is reachable through the call graph.

Design rules (all conservative = they can only ADD atoms / edges):
  * effects are attached to *references*, not only to calls: mentioning `torch.randn` or
    `np.random.shuffle` (e.g. `gen = torch.zeros if z else torch.randn`) emits the atom;
  * external names are resolved through the module's imports to a dotted path and classified by
    a module table (whitelist, RNG entry points, clocks, environment, file writers); a module
    that is not in the table gives UnknownModule "<module>";
  * attribute accesses / method calls on objects are resolved BY NAME: `x.foo` may reach every
    function or method called `foo` anywhere in the package (this also covers properties);
    constructors of package classes, `super().m` and names imported from package modules are
    resolved precisely; every function may implicitly reach every dunder method of the package;
  * a method name that is neither defined in the package, nor an instance attribute assigned in
    the package, nor an attribute of the known pure types (Tensor, ndarray, dict, list, str, ...)
    gives UnknownModule "method:<name>";
  * ParamWrite: assignment to an attribute that is somewhere assigned an nn.Parameter; `.data =`;
    in-place methods (`add_`, `copy_`, ...), subscript/augmented assignment or `out=` whose
    receiver is ROOTED at a parameter (through attributes, subscripts, view-like methods, local
    aliases, `.parameters()`, `getattr(x, <non-constant>)`); binding a parameter-rooted actual argument
    (positional or keyword) to a formal parameter that the callee mutates in place (per-parameter mutation
    summaries, fixpoint over the call graph; star-args are bound to every mutated formal);
    `load_state_dict`; `.step()`; a plain subscript store `d[k] = v` into a name that is only ever bound to a
    fresh dict / list (`{...}`, `dict(...)`, comprehension, `.state_dict()`, `.copy()` of those) is a container
    update, not a tensor write (augmented stores `d[k] += v` and stores through an element `d[k][i] = v` still count);
    the result of `torch.f(..., out=o)` is rooted at `o` (so `torch.matmul(h, W.data, out=out).add_(b)`
    is NOT a parameter write: the parameter is only an argument);
  * SetIteration: a set-typed expression used anywhere but in a comparison / membership test /
    len() / sorted() / bool test / set algebra / plain assignment;
  * `getattr(obj, name)(...)` with a non-constant name is dynamic dispatch: if `name` is a parameter of a PRIVATE
    function all of whose call sites pass string constants, those names are used (by-name edges); otherwise the call
    may reach EVERY function of the package; a non-called dynamic `getattr` may run every property getter;
  * operation classes: private helpers (leading underscore, except a short explicit list) are not roots of a class;
    they are covered through the closure of the public operations that reach them; unclassified PUBLIC methods of
    state / RBM classes default to the read-only class `eval` (fail closed);
  * locally bound callables are resolved: a call of a nested `def` (by its local name, from the defining function or from a
    deeper closure), of a local alias of a package / external function (`f = torch.nan_to_num_; f(p)`) or of a lambda bound
    to a local name binds the actual arguments to the callee's formals (in-place mutation summaries as for any package
    function); a callable passed as an ARGUMENT (`map(fix, params)`, `map(torch.nan_to_num_, params)`,
    `map(lambda p: p.clamp_(..), params)`) may be applied to (the elements of) every other argument of that call; a lambda
    that escapes (stored in an attribute / container, returned) may be applied to a parameter; an external in-place
    function used as a value anywhere else gives UnknownModule "construct:inplace-function-as-value";
  * reading the process environment through the file system: `Path.home()`, `Path.cwd()`, `.expanduser()`,
    `os.path.expanduser / expandvars`, and opening / loading a path that is fixed in the source (`open("/etc/x")`,
    `np.loadtxt(_DEFAULTS)`, `Path("~/.rc").read_text()`: built from string constants / module-level names only, no local or
    parameter takes part) give Environ: the content of a file that is not named by the caller is a foreign source
    (`tempfile`, `glob`, `importlib`, `configparser`, `shutil` ... are outside the module whitelist: UnknownModule);
  * inside callbacks/timer.py clock values also flow through CONTROL dependence: a name / own attribute assigned under a
    branch or loop whose test reads a clock value is itself a clock value (in every method of the module);
  * process-wide settings (hidden global state that the seeding call does not reset): a call of / reference to
    `torch.set_default_dtype / set_default_device / set_num_threads / set_flush_denormal / use_deterministic_algorithms / set_*`,
    `numpy.seterr / seterrcall / setbufsize`, `warnings.simplefilter / filterwarnings / resetwarnings`, and a store into an
    attribute of an imported module (`torch.backends.cudnn.deterministic = ..`), of a package module, of a package class
    (`Cls.x = ..`, `type(self).x = ..`, `self.__class__.x = ..`) or of a module-level object gives Environ -- a foreign source for
    every LATER operation -- unless the same function restores the setting on every path (try/finally with a saved value, a
    with-block of a restoring context manager, `except BaseException: restore; raise`, an __enter__/__exit__ pair); a restore that
    is merely the last statement is not enough (a user callback / metric / observable may raise in between); `global` statements
    give UnknownModule "construct:Global"; os.environ / os.putenv / sys.* are Environ whatever the path;
  * statements or expressions the translator does not know give UnknownModule "construct:<X>".

User-supplied callables (optimizer / scheduler classes, metric functions, LambdaCallback
functions, logger_fn, metadata callables) are outside the translated program: calling a function
parameter or an attribute that stores one emits nothing (stated in the check's ASSUMPTIONS).
"""
import ast, os, sys, hashlib, builtins, json

ATOMS = ["RngTorch", "RngReseed", "RngNumpy", "RngPython", "Clock", "ClockTimer", "Environ", "SetIteration",
         "ParamWrite", "FileWrite"]          # + UnknownModule <name>


def U(name):
    return "UnknownModule:" + name


# ------------------------------------------------------------------------------- module tables
PURE_MODULES = {"math", "itertools", "functools", "warnings", "abc", "csv", "pathlib", "inspect",
                "collections", "tqdm", "operator", "copy", "typing", "numbers", "string", "re",
                "enum", "dataclasses", "contextlib", "builtins", "types", "textwrap", "json"}
TORCH_RESEED = {"manual_seed", "manual_seed_all", "seed", "seed_all", "set_rng_state", "set_rng_state_all",
                "Generator", "default_generator", "fork_rng", "random"}       # "random" = the torch.random module
TORCH_RNG = {"randn", "rand", "randint", "randperm", "bernoulli", "normal", "multinomial", "poisson",
             "rand_like", "randn_like", "randint_like",
             "initial_seed", "get_rng_state", "get_rng_state_all",
             "dropout", "dropout1d", "dropout2d", "dropout3d", "alpha_dropout", "feature_alpha_dropout",
             "Dropout", "Dropout1d", "Dropout2d", "Dropout3d", "AlphaDropout", "FeatureAlphaDropout",
             "rrelu", "RReLU", "gumbel_softmax", "init", "binomial", "rand_", "randn_",
             "RandomSampler", "random_split", "WeightedRandomSampler", "SubsetRandomSampler",
             "fractional_max_pool2d", "fractional_max_pool3d", "FractionalMaxPool2d", "FractionalMaxPool3d"}
UNINIT = {"empty", "empty_like", "empty_strided", "empty_permuted", "new_empty", "new_empty_strided"}
TORCH_FILEWRITE = {"save"}
NUMPY_FILEWRITE = {"save", "savetxt", "savez", "savez_compressed", "memmap"}
OS_ENV = {"environ", "getenv", "getpid", "getppid", "getcwd", "uname", "urandom", "cpu_count", "getlogin",
          "getuid", "times", "get_terminal_size", "listdir", "scandir", "walk", "stat", "getloadavg", "putenv"}
OS_FILEWRITE = {"makedirs", "mkdir", "remove", "unlink", "rename", "replace", "rmdir", "removedirs",
                "symlink", "link", "truncate", "chmod", "chown", "utime", "mkfifo"}

# view-like torch functions: the result aliases the first argument
TORCH_VIEW_FUNCS = {"tensor_split", "hsplit", "vsplit", "dsplit", "view", "T", "mT", "adjoint", "swapaxes", "expand",
                    "as_strided", "unfold", "take_along_dim", "conj", "resolve_conj",
                    "transpose", "t", "as_tensor", "from_numpy", "squeeze", "unsqueeze", "reshape", "flatten",
                    "narrow", "select", "diagonal", "real", "imag", "detach", "chunk", "split", "unbind",
                    "view_as_real", "view_as_complex", "movedim", "moveaxis", "swapaxes", "swapdims", "permute",
                    "expand_copy", "ravel", "atleast_1d", "atleast_2d", "atleast_3d", "asarray", "array",
                    "broadcast_to", "index_select"}
PASS_THROUGH_EXT = {"itertools", "copy.copy"}

# methods that always allocate a new object (receiver's root is dropped)
FRESH_METHODS = {"clone", "tolist", "item", "numel", "size", "dim", "sum", "mean", "var", "std", "exp", "log",
                 "sqrt", "cos", "sin", "abs", "pow", "mul", "add", "sub", "div", "neg", "matmul", "mm", "mv", "dot",
                 "round", "all", "any", "logsumexp", "sigmoid", "clamp", "roll", "repeat", "prod", "max", "min",
                 "norm", "eq", "ne", "lt", "gt", "le", "ge", "sign", "floor", "ceil", "format", "join", "strip",
                 "lower", "upper", "replace", "count", "index", "startswith", "endswith", "deepcopy",
                 "log10", "tanh", "softmax", "cumsum", "argmax", "argmin", "nonzero", "unique", "sort", "argsort"}
# method names with an effect whatever the receiver is
RNG_METHODS = {"sample", "rsample", "sample_n", "random_", "uniform_", "normal_", "bernoulli_", "exponential_",
               "geometric_", "cauchy_", "log_normal_", "bernoulli", "multinomial"}
PARAMWRITE_METHODS = {"load_state_dict", "step", "register_parameter"}
RESEED_METHODS = {"manual_seed", "set_state", "set_rng_state", "seed"}      # Generator.manual_seed, RandomState.set_state ...
# nn.Module methods that rewrite every parameter of the module (dtype / device casts, apply)
MODULE_CAST_METHODS = {"float", "double", "half", "bfloat16", "type", "to", "cuda", "cpu", "xpu", "apply", "_apply",
                       "to_empty", "requires_grad_", "share_memory"}
# external functions without a trailing underscore that write into (some of) their arguments
EXT_MUTATORS = {"vector_to_parameters", "copyto", "put", "place", "putmask", "fill_diagonal", "put_along_axis",
                "clip_grad_norm", "clip_grad_value"}
STAT_METHODS = {"stat", "lstat", "getmtime", "getatime", "getctime"}
# methods that hand out uninitialised memory (contents depend on the allocator, i.e. on the history of the process)
UNINIT_METHODS = {"new_empty", "new_empty_strided", "new", "resize_", "resize", "resize_as_", "resize_as", "set_"}
# container methods that store their arguments in the receiver
CONTAINER_MUTATORS = {"append", "extend", "insert", "update", "setdefault", "add", "appendleft", "extendleft", "__setitem__"}
FILEWRITE_METHODS = {"writerow", "writerows", "writeheader", "write", "writelines", "mkdir", "touch", "unlink",
                     "write_text", "write_bytes", "savefig", "tofile", "dump", "rmdir", "rename"}
INPLACE_EXTRA = {"__setitem__", "__iadd__", "__isub__", "__imul__", "__itruediv__", "__delitem__"}
# external names that end with an underscore but are types, not in-place functions
NOT_INPLACE = {"float_", "int_", "bool_", "str_", "complex_", "bytes_", "object_", "unicode_", "string_", "uint_", "intc_",
               "longlong_", "half_", "single_", "double_", "longdouble_", "csingle_", "cdouble_", "clongdouble_", "void_",
               "c_", "r_", "s_", "index_exp_", "mgrid_", "ogrid_"}
# the process environment seen through the file system
ENV_PATH_NAMES = {"home", "cwd", "expanduser", "expandvars"}
FILE_READERS = {"numpy.loadtxt", "numpy.load", "numpy.genfromtxt", "numpy.fromfile", "numpy.memmap", "torch.load",
                "pathlib.Path.read_text", "pathlib.Path.read_bytes", "pathlib.Path.open", "io.open", "codecs.open"}
OPERATOR_MUTATORS = {"methodcaller", "setitem", "delitem", "iadd", "isub", "imul", "itruediv", "ifloordiv", "imod", "ipow",
                     "imatmul", "iand", "ior", "ixor", "iconcat", "ilshift", "irshift",
                     "__setitem__", "__delitem__", "__iadd__", "__isub__", "__imul__", "__itruediv__"}


def inplace_name(last):
    return (last.endswith("_") and not last.endswith("__") and not last.startswith("_") and last not in NOT_INPLACE) \
        or last in EXT_MUTATORS


# ------------------------------------------------------------------------------- process-wide settings
# Hidden state of the PROCESS that set_random_seed does not reset and that later draws / results may depend on: torch's default
# dtype / device, thread counts, flush-denormal, deterministic-algorithm switches, matmul precision, grad mode switched by a plain
# call, numpy's floating-point error handling, the warnings filters ("error" turns a warning into an exception), attributes of
# imported modules (torch.backends.cudnn.deterministic = ...), attributes of package modules / classes / module-level objects.
# A write to one of them is a foreign source of variation for every LATER operation unless the function restores the old value
# on every path (try/finally, a context manager, except BaseException: restore; raise).  Print options are not listed: they do
# not reach samples, statistics or parameters.
TORCH_PROC_EXTRA = {"use_deterministic_algorithms", "_set_deterministic_algorithms"}
TORCH_PROC_HARMLESS = {"set_printoptions", "set_", "set_rng_state", "set_rng_state_all"}
NUMPY_PROC_SETTERS = {"seterr", "seterrcall", "setbufsize"}
WARNINGS_PROC_SETTERS = {"simplefilter", "filterwarnings", "resetwarnings"}
WARNINGS_PROC_STATE = {"filters", "onceregistry", "defaultaction"}
LIST_MUTATORS = {"append", "extend", "insert", "remove", "pop", "clear", "sort", "reverse", "update", "setdefault", "__setitem__",
                 "__delitem__", "popitem"}
# context managers that restore a family of settings when their block is left (normally or by an exception)
PROC_MANAGERS = {"warnings.catch_warnings": {"warnings.filters"},
                 "numpy.errstate": {"numpy.seterr", "numpy.seterrcall"},
                 "numpy.testing.suppress_warnings": {"warnings.filters"}}


def proc_setter_key(dotted):
    """key of the process-wide setting that a call of the external function `dotted` writes (None: not a setter)."""
    parts = dotted.split(".")
    top, last = parts[0], parts[-1]
    if top == "torch":
        if last in TORCH_PROC_HARMLESS or last in TORCH_RESEED:
            return None
        if last.startswith("set_") or last in TORCH_PROC_EXTRA:
            return "torch." + last
    elif top == "numpy":
        if last in NUMPY_PROC_SETTERS and "random" not in parts:
            return "numpy." + last
    elif top == "warnings":
        if last in WARNINGS_PROC_SETTERS and len(parts) == 2:
            return "warnings.filters"
        if len(parts) == 3 and parts[1] in WARNINGS_PROC_STATE and last in LIST_MUTATORS:
            return "warnings.filters"             # warnings.filters.insert(0, ...)
    return None

PURE_BUILTINS = {"len", "range", "isinstance", "issubclass", "list", "dict", "int", "float", "str", "min", "max",
                 "abs", "zip", "enumerate", "map", "filter", "iter", "next", "callable", "hasattr", "getattr", "print",
                 "repr", "sorted", "reversed", "slice", "super", "tuple", "type", "bool", "sum", "any", "all", "set",
                 "frozenset", "round", "divmod", "pow", "complex", "bytes", "bytearray", "object", "property",
                 "staticmethod", "classmethod", "format", "chr", "ord", "bin", "hex", "oct", "ascii", "memoryview",
                 "NotImplemented", "Ellipsis", "True", "False", "None", "__name__", "__file__", "__doc__",
                 "NotImplementedError", "ValueError", "TypeError", "KeyError", "AttributeError", "RuntimeError",
                 "IndexError", "Exception", "StopIteration", "ZeroDivisionError", "AssertionError", "OSError",
                 "IOError", "ImportError", "ResourceWarning", "DeprecationWarning", "UserWarning", "Warning",
                 "RuntimeWarning", "FutureWarning", "ArithmeticError", "OverflowError", "FloatingPointError",
                 "LookupError", "NameError", "BaseException", "FileNotFoundError", "FileExistsError", "KeyboardInterrupt"}
BUILTIN_ATOMS = {"open": ["FileWrite"], "input": ["Environ"], "hash": ["Environ"], "id": ["Environ"]}
CONTAINER_BUILTINS = {"list", "tuple", "iter", "zip", "reversed", "enumerate", "map", "filter", "sorted", "dict",
                      "next", "getattr", "set", "frozenset"}
SET_OK_CONSUMERS = {"len", "sorted", "bool", "isinstance", "set", "frozenset", "min", "max", "any", "all"}


def _known_pure_attrs():
    """attribute / method names of the standard value types that objects in the package may be."""
    names = set()
    types_ = [dict, list, str, tuple, set, frozenset, int, float, complex, bytes, slice, range, type, object]
    try:
        import torch, numpy, pathlib, csv, inspect, collections, io
        types_ += [torch.Tensor, torch.Size, torch.device, torch.dtype, torch.nn.Module, torch.nn.Parameter,
                   torch.optim.Optimizer, torch.optim.lr_scheduler.StepLR, torch.distributions.Distribution,
                   numpy.ndarray, numpy.generic, numpy.float64, numpy.dtype, pathlib.Path, pathlib.PurePath,
                   csv.DictWriter, inspect.Signature, inspect.Parameter, collections.OrderedDict, io.TextIOBase,
                   BaseException, type(lambda: 0)]
    except Exception:            # pragma: no cover — the harness interpreter always has torch / numpy
        pass
    for t in types_:
        names.update(dir(t))
    return names


# ------------------------------------------------------------------------------- data classes
class Fn:
    def __init__(self, qual, module, cls, node, parent=None, kind="function"):
        self.qual, self.module, self.cls, self.node, self.parent, self.kind = qual, module, cls, node, parent, kind
        self.name = qual.rsplit(".", 1)[-1] if kind != "toplevel" else "<toplevel>"
        self.simple = getattr(node, "name", "<toplevel>") if kind != "toplevel" else "<toplevel>"
        self.atoms = {}          # atom -> first reason (line, text)
        self.callees = set()     # set of Fn
        self.id = None
        self.params = []         # positional parameter names
        self.mutated_roots = set()   # own parameters mutated in place
        self.mutates = False
        self.pending_arg_mut = []    # (candidate Fns, roots of all args, lineno)
        self.all_params = set()
        self.own_mutable_params = set()
        self.scope_locals = set()
        self.is_static = False
        self.is_property = False
        self.returns = set()         # markers {"PARAM", "MODULE"}: what a returned value may alias
        self.vararg = None
        self.kwarg = None
        self.nested = {}             # simple name -> Fn of the defs nested directly in this function

    def add(self, atom, line, why):
        if atom not in self.atoms:
            self.atoms[atom] = "%s:%s %s" % (self.module.relpath, line, why)


class Cls:
    def __init__(self, qual, module, node):
        self.qual, self.module, self.node = qual, module, node
        self.name = node.name
        self.methods = {}        # simple name -> [Fn]
        self.bases = []          # resolved: ('pkg', Cls) | ('ext', dotted) | ('unknown', text)


class Mod:
    def __init__(self, name, path, relpath, tree, is_pkg):
        self.name, self.path, self.relpath, self.tree, self.is_pkg = name, path, relpath, tree, is_pkg
        self.aliases = {}        # local name -> ('ext', dotted) | ('pkgpath', dotted)
        self.defs = {}           # top-level function name -> Fn
        self.classes = {}        # top-level class name -> Cls
        self.globals = set()     # other names assigned at top level
        self.toplevel = None


# ------------------------------------------------------------------------------- translator
class Translator:
    def __init__(self, repo, package="qucumber"):
        self.repo, self.package = repo, package
        self.root = os.path.join(repo, package)
        self.mods = {}
        self.fns = []
        self.classes = []
        self.by_name = {}        # simple function/method name -> [Fn]
        self.cls_by_name = {}
        self.param_attrs = set()
        self.inst_attr_assigners = {}   # attribute name -> set(Fn) that assign  <obj>.<name> = ...
        self.known_attrs = _known_pure_attrs()
        self.errors = []
        self.digest = hashlib.sha1()
        self.alias_attrs = set()    # attributes that are somewhere assigned a parameter-rooted value (x.a = self.weights)
        self.module_attrs = set()   # attributes that hold an nn.Module of the package (rbm_am, rbm_ph, ...)
        self.set_attrs = set()      # attributes that are somewhere assigned a set
        self.clock_attrs = set()    # attributes of the Timer callback that hold clock values (start_time, ...)
        self.visitors = {}
        self.any_method = None      # pseudo-nodes, created in load()
        self.any_property = None
        self.call_sites = {}        # simple callee name -> [ast.Call]

    # ---------------------------------------------------------------- loading
    def load(self):
        files = []
        for d, _dirs, fs in os.walk(self.root):
            _dirs[:] = sorted(x for x in _dirs if x != "__pycache__")
            for f in sorted(fs):
                if f.endswith(".py"):
                    files.append(os.path.join(d, f))
        if not files:
            raise RuntimeError("no python sources under %s" % self.root)
        for path in files:
            rel = os.path.relpath(path, self.repo)
            parts = rel[:-3].split(os.sep)
            is_pkg = parts[-1] == "__init__"
            if is_pkg:
                parts = parts[:-1]
            name = ".".join(parts)
            src = open(path, "rb").read()
            self.digest.update(rel.encode() + b"\0" + src + b"\0")
            try:
                tree = ast.parse(src, filename=path)
            except SyntaxError as e:
                tree = ast.parse("")
                self.errors.append((name, "syntax-error:%s" % e.lineno))
            self.mods[name] = Mod(name, path, rel, tree, is_pkg)
        for m in self.mods.values():
            self.collect_module(m)
        for m in self.mods.values():
            for c in m.classes.values():
                self.resolve_bases(c)
        self.collect_param_attrs()
        root_mod = self.mods[self.package]
        self.any_method = Fn(self.package + ".<any-method (dynamic getattr call)>", root_mod, None, None, kind="toplevel")
        self.any_property = Fn(self.package + ".<any-property (dynamic getattr)>", root_mod, None, None, kind="toplevel")
        for m in self.mods.values():
            for node in ast.walk(m.tree):
                if isinstance(node, ast.Call):
                    f = node.func
                    nm = f.id if isinstance(f, ast.Name) else (f.attr if isinstance(f, ast.Attribute) else None)
                    if nm:
                        self.call_sites.setdefault(nm, []).append(node)

    def rel_import(self, m, level, module):
        base = m.name.split(".")
        if not m.is_pkg:
            base = base[:-1]
        if level > 1:
            base = base[:len(base) - (level - 1)]
        return ".".join(base + (module.split(".") if module else []))

    def register_import(self, m, node, aliases):
        if isinstance(node, ast.Import):
            for a in node.names:
                if a.asname:
                    aliases[a.asname] = self.classify_path(a.name)
                else:
                    top = a.name.split(".")[0]
                    aliases[top] = self.classify_path(top)
        else:
            modname = self.rel_import(m, node.level, node.module) if node.level else (node.module or "")
            for a in node.names:
                if a.name == "*":
                    aliases["*"] = ("ext", "import-star:" + modname)
                    continue
                aliases[a.asname or a.name] = self.classify_path(modname + "." + a.name)

    def classify_path(self, dotted):
        if dotted == self.package or dotted.startswith(self.package + "."):
            return ("pkgpath", dotted)
        return ("ext", dotted)

    def collect_module(self, m):
        top = Fn(m.name + ".<toplevel>", m, None, m.tree, kind="toplevel")
        m.toplevel = top
        self.fns.append(top)
        for node in m.tree.body:
            if isinstance(node, (ast.Import, ast.ImportFrom)):
                self.register_import(m, node, m.aliases)
            elif isinstance(node, (ast.FunctionDef, ast.AsyncFunctionDef)):
                f = self.add_fn(m.name + "." + node.name, m, None, node, None)
                m.defs.setdefault(node.name, f)
            elif isinstance(node, ast.ClassDef):
                self.add_class(m, node, m.name)
            else:
                for t in ast.walk(node):
                    if isinstance(t, ast.Name) and isinstance(t.ctx, ast.Store):
                        m.globals.add(t.id)

    def add_class(self, m, node, prefix):
        c = Cls(prefix + "." + node.name, m, node)
        self.classes.append(c)
        self.cls_by_name.setdefault(node.name, []).append(c)
        if prefix == m.name:
            m.classes[node.name] = c
        for st in node.body:
            if isinstance(st, (ast.FunctionDef, ast.AsyncFunctionDef)):
                f = self.add_fn(c.qual + "." + st.name, m, c, st, None)
                c.methods.setdefault(st.name, []).append(f)
            elif isinstance(st, ast.ClassDef):
                self.add_class(m, st, c.qual)
        return c

    def add_fn(self, qual, m, cls, node, parent):
        # unique qualified name (property getter / setter pairs share a name)
        suffix = ""
        for d in node.decorator_list:
            if isinstance(d, ast.Attribute) and d.attr in ("setter", "deleter", "getter"):
                suffix = "@" + d.attr
        q = qual + suffix
        if any(f.qual == q for f in self.fns):
            q = "%s#%d" % (q, node.lineno)
        f = Fn(q, m, cls, node, parent)
        f.simple = node.name
        a = node.args
        f.params = [x.arg for x in getattr(a, "posonlyargs", []) + a.args]
        f.all_params = set(f.params) | {x.arg for x in a.kwonlyargs}
        if a.vararg:
            f.all_params.add(a.vararg.arg)
            f.vararg = a.vararg.arg
        if a.kwarg:
            f.all_params.add(a.kwarg.arg)
            f.kwarg = a.kwarg.arg
        f.is_static = any(isinstance(d, ast.Name) and d.id == "staticmethod" for d in node.decorator_list)
        f.is_property = any(isinstance(d, ast.Name) and d.id == "property" for d in node.decorator_list)
        self.fns.append(f)
        self.by_name.setdefault(node.name, []).append(f)
        # nested functions / classes
        for st in self.nested_defs(node):
            if isinstance(st, (ast.FunctionDef, ast.AsyncFunctionDef)):
                g = self.add_fn(q + ".<locals>." + st.name, m, cls, st, f)
                f.callees.add(g)
                f.nested.setdefault(st.name, g)
            elif isinstance(st, ast.ClassDef):
                c = self.add_class(m, st, q + ".<locals>")
                for fs in c.methods.values():
                    f.callees.update(fs)
        return f

    def nested_defs(self, fnode):
        """function / class definitions nested directly in the body of fnode (not inside deeper defs)."""
        out = []

        def walk(n):
            for ch in ast.iter_child_nodes(n):
                if isinstance(ch, (ast.FunctionDef, ast.AsyncFunctionDef, ast.ClassDef)):
                    out.append(ch)
                elif not isinstance(ch, ast.Lambda):
                    walk(ch)
                else:
                    walk(ch)
        for st in fnode.body:
            if isinstance(st, (ast.FunctionDef, ast.AsyncFunctionDef, ast.ClassDef)):
                out.append(st)
            else:
                walk(st)
        return out

    # ---------------------------------------------------------------- package name resolution
    def resolve_pkg(self, dotted, depth=0):
        """('module', Mod) | ('fn', Fn) | ('class', Cls) | ('var', None) | ('ext', dotted) | None"""
        if depth > 12:
            return None
        if dotted in self.mods:
            return ("module", self.mods[dotted])
        if "." not in dotted:
            return None
        head, last = dotted.rsplit(".", 1)
        r = self.resolve_pkg(head, depth + 1)
        if r is None:
            return None
        if r[0] == "module":
            m = r[1]
            if last in m.defs:
                return ("fn", m.defs[last])
            if last in m.classes:
                return ("class", m.classes[last])
            if last in m.aliases:
                kind, path = m.aliases[last]
                if kind == "ext":
                    return ("ext", path)
                return self.resolve_pkg(path, depth + 1)
            if last in m.globals:
                return ("var", None)
            return None
        if r[0] == "class":
            ms = r[1].methods.get(last)
            if ms:
                return ("fn", ms[0])
            return None
        if r[0] == "ext":
            return ("ext", r[1] + "." + last)
        return None

    def resolve_bases(self, c):
        for b in c.node.bases:
            chain = self.attr_chain(b)
            if chain is None:
                c.bases.append(("unknown", ast.dump(b)[:40]))
                continue
            root, attrs = chain
            m = c.module
            if root in m.classes and not attrs:
                c.bases.append(("pkg", m.classes[root]))
            elif root in m.aliases:
                kind, path = m.aliases[root]
                full = ".".join([path] + attrs)
                if kind == "ext":
                    c.bases.append(("ext", full))
                else:
                    r = self.resolve_pkg(full)
                    if r and r[0] == "class":
                        c.bases.append(("pkg", r[1]))
                    elif r and r[0] == "ext":
                        c.bases.append(("ext", r[1]))
                    else:
                        c.bases.append(("unknown", full))
            elif root in ("object", "Exception", "ValueError", "TypeError", "RuntimeError") and not attrs:
                c.bases.append(("ext", "builtins." + root))
            else:
                c.bases.append(("unknown", root))

    def ancestors(self, c, seen=None):
        """(package ancestor classes, all bases understood?)"""
        seen = seen if seen is not None else set()
        ok = True
        out = []
        for kind, b in c.bases:
            if kind == "pkg":
                if b.qual in seen:
                    continue
                seen.add(b.qual)
                out.append(b)
                more, ok2 = self.ancestors(b, seen)
                out += more
                ok = ok and ok2
            elif kind == "ext":
                top = b.split(".")[0]
                if not (top in PURE_MODULES or top in ("torch", "numpy", "collections")):
                    ok = False
            else:
                ok = False
        return out, ok

    def is_module_class(self, c):
        """does class c derive (through package classes) from torch.nn.Module?"""
        cache = self.__dict__.setdefault("_module_class_cache", {})
        if c.qual not in cache:
            anc, _ok = self.ancestors(c)
            cache[c.qual] = any(kind == "ext" and b in ("torch.nn.Module", "torch.nn.modules.module.Module",
                                                          "torch.nn.modules.Module")
                                for cc in [c] + anc for kind, b in cc.bases)
        return cache[c.qual]

    @staticmethod
    def attr_chain(e):
        attrs = []
        while isinstance(e, ast.Attribute):
            attrs.append(e.attr)
            e = e.value
        if isinstance(e, ast.Name):
            return e.id, attrs[::-1]
        return None

    def collect_param_attrs(self):
        """attributes that are somewhere assigned an nn.Parameter (or registered as one)."""
        for m in self.mods.values():
            for node in ast.walk(m.tree):
                if isinstance(node, ast.Assign) and isinstance(node.value, ast.Call):
                    if self.is_parameter_ctor(m, node.value.func):
                        for t in node.targets:
                            if isinstance(t, ast.Attribute):
                                self.param_attrs.add(t.attr)
                if isinstance(node, ast.Call) and isinstance(node.func, ast.Attribute) and node.func.attr == "register_parameter":
                    if node.args and isinstance(node.args[0], ast.Constant) and isinstance(node.args[0].value, str):
                        self.param_attrs.add(node.args[0].value)

    def is_parameter_ctor(self, m, func):
        ch = self.attr_chain(func)
        if ch is None:
            return False
        root, attrs = ch
        if root in m.aliases and m.aliases[root][0] == "ext":
            full = ".".join([m.aliases[root][1]] + attrs)
            return full in ("torch.nn.Parameter", "torch.nn.parameter.Parameter")
        return False

    # ---------------------------------------------------------------- external classification
    def classify_ext(self, fn, dotted, line):
        parts = dotted.split(".")
        top = parts[0]
        rest = parts[1:]
        why = dotted
        if top.startswith("import-star:"):
            fn.add(U("construct:import-star"), line, why)
        elif top == "torch":
            if len(rest) >= 2 and rest[0] == "distributions" and rest[1] in ("utils", "constraints"):
                return
            if any(p in TORCH_RNG or p == "distributions" for p in rest):
                fn.add("RngTorch", line, why)
            if any(p in TORCH_RESEED for p in rest):
                fn.add("RngReseed", line, why)
            if any(p in UNINIT for p in rest):
                fn.add(U("torch.empty"), line, why + " (uninitialised memory)")
            if rest and rest[-1] in TORCH_FILEWRITE:
                fn.add("FileWrite", line, why)
        elif top == "numpy":
            if rest and rest[0] == "random":
                fn.add("RngNumpy", line, why)
            if any(p in UNINIT for p in rest):
                fn.add(U("numpy.empty"), line, why + " (uninitialised memory)")
            if rest and rest[-1] in NUMPY_FILEWRITE:
                fn.add("FileWrite", line, why)
        elif top == "random":
            fn.add("RngPython", line, why)
        elif top in ("time", "datetime"):
            fn.add("ClockTimer" if fn.module.relpath.replace(os.sep, "/").endswith("callbacks/timer.py") else "Clock", line, why)
        elif top == "os":
            if rest[:1] == ["path"] and rest[-1] in STAT_METHODS:
                fn.add("Clock", line, why)
                return
            if rest[:1] == ["path"] and rest[-1] in ENV_PATH_NAMES:
                fn.add("Environ", line, why + " (location taken from the process environment)")
                return
            if not rest or rest[0] == "path" or rest[0] in ("sep", "linesep", "PathLike", "fspath", "devnull"):
                return
            if rest[0] in OS_ENV:
                fn.add("Environ", line, why)
            elif rest[0] in OS_FILEWRITE:
                fn.add("FileWrite", line, why)
            else:
                fn.add(U("os." + rest[0]), line, why)
        elif top in ("sys", "platform", "socket", "getpass"):
            fn.add("Environ", line, why)
        elif top == "scipy":
            if rest and rest[0] == "linalg":
                return
            fn.add(U(".".join(parts[:2])), line, why)
        elif top == "matplotlib":
            if not fn.module.relpath.replace(os.sep, "/").endswith("callbacks/liveplotting.py"):
                fn.add(U("matplotlib"), line, why)
        elif top == "pathlib" and rest and rest[-1] in ENV_PATH_NAMES:
            fn.add("Environ", line, why + " (location taken from the process environment)")
        elif top == "operator" and rest and rest[-1] in OPERATOR_MUTATORS:
            fn.add(U("operator." + rest[-1]), line, why + " (in-place operation / method call by name through the operator module)")
        elif top in PURE_MODULES:
            return
        else:
            fn.add(U(top), line, why)

    # ---------------------------------------------------------------- per-function analysis
    def analyse(self):
        visitors = [FnVisitor(self, f) for f in list(self.fns)]
        for v in visitors:
            self.visitors[v.fn] = v
            v.prepare()
        for _round in range(10):         # interprocedural fixpoint: taint, return-value summaries, alias attributes
            changed = False
            for v in visitors:
                if v.fn.node is not None:
                    v.retaint()
                    changed = v.update_summaries() or changed
            if not changed:
                break
        timer_vs = [v for v in visitors if v.in_timer_module() and v.fn.node is not None]
        for _round in range(6):
            if not any([v.collect_clock_attrs() for v in timer_vs]):
                break
        for v in visitors:
            v.emit()
        for v in timer_vs:
            v.clock_flow()
        # implicit dunder methods: every function may reach them
        dunders = [f for f in self.fns if f.kind == "function" and f.simple.startswith("__") and f.simple.endswith("__")
                   and f.simple not in ("__init__", "__new__")]
        self.any_method.callees = {f for f in self.fns if f.kind == "function"}
        self.any_property.callees = {f for f in self.fns if f.kind == "function" and f.is_property}
        self.fns.append(self.any_method)
        self.fns.append(self.any_property)
        implicit = Fn(self.package + ".<implicit-dunder-methods>", self.mods[self.package], None, None, kind="toplevel")
        implicit.callees = set(dunders)
        self.fns.append(implicit)
        for f in self.fns:
            if f is not implicit:
                f.callees.add(implicit)
        # decorators: the wrapper's run-time behaviour belongs to the decorated function
        # (done in FnVisitor.run).  Argument-mutation fixpoint:
        changed = True
        while changed:
            changed = False
            for f in self.fns:
                for cands, binding, line in f.pending_arg_mut:
                    roots = set()
                    for c, offset in cands:
                        roots |= bound_mutated_roots(c, offset, binding)
                    if "PARAM" in roots and "ParamWrite" not in f.atoms:
                        f.add("ParamWrite", line, "parameter-rooted value bound to a formal parameter that the callee mutates in place")
                        changed = True
                    own = (roots & f.own_mutable_params) - f.mutated_roots
                    if own:
                        f.mutated_roots |= own
                        f.mutates = True
                        changed = True
        for name, why in self.errors:
            self.mods[name].toplevel.add(U("construct:" + why), 0, why)
        for i, f in enumerate(self.fns):
            f.id = i + 1

    # ---------------------------------------------------------------- operation classes
    def op_classes(self):
        """every PUBLIC function / method of the package is the root of exactly one class.  Writer classes are recognised
        by NAME anywhere in the package (moving a function does not change its class); read-only classes are labelled by
        name / location (they all share the same forbidden set); whatever matches no rule goes to `other`, which has the
        strictest forbidden set (fail closed).  Private helpers (leading underscore) and nested functions are covered
        through the public operations that reach them."""
        ops = {k: [] for k in OPCLASS_COQ}
        pk = self.package
        for f in self.fns:
            if f.kind != "function" or f.parent is not None:
                continue
            rel = f.module.relpath.replace(os.sep, "/")
            n = f.simple
            dunder = n.startswith("__") and n.endswith("__")
            if n.startswith("_") and not dunder and n not in ROOT_PRIVATE:
                continue         # private helper: covered through the public operations that reach it
            state_like = rel.startswith(pk + "/nn_states/") or rel.startswith(pk + "/rbm/") or \
                (f.cls is not None and (self.is_module_class(f.cls) or self.is_state_class(f.cls)))
            # ---- writer classes, by name
            if n == "set_random_seed":
                ops["seed"].append(f)
            elif n in ("initialize_parameters", "reinitialize_parameters") or (n in ("__init__", "__new__") and state_like):
                ops["init"].append(f)
            elif n in ("load", "autoload") and f.cls is not None:
                ops["load"].append(f)
            elif n == "fit" and f.cls is not None:
                ops["fit"].append(f)
            # ---- read-only classes (labels only: same forbidden set)
            elif dunder and n not in ("__init__", "__call__"):
                continue         # reached implicitly from every function (pseudo-node <implicit-dunder-methods>)
            elif n == "save" and state_like:
                ops["save"].append(f)
            elif state_like and (n == "sample" or n == "gibbs_steps" or n.startswith("sample_") or n == "_shuffle_data"):
                ops["sample"].append(f)
            elif "grad" in n and (state_like or rel == pk + "/utils/gradients_utils.py"):
                ops["gradient"].append(f)
            elif state_like:
                ops["eval"].append(f)
            elif rel.startswith(pk + "/observables/"):
                ops["statistics" if n.startswith("statistics") else "observable"].append(f)
            elif rel == pk + "/utils/training_statistics.py":
                ops["metric"].append(f)
            elif rel == pk + "/utils/unitaries.py":
                ops["rotation"].append(f)
            elif rel == pk + "/utils/cplx.py":
                ops["kernel"].append(f)
            elif rel == pk + "/utils/data.py":
                ops["data"].append(f)
            else:
                ops["other"].append(f)          # callbacks, utils/__init__, any new module: strictest class
        return ops

    def is_state_class(self, c):
        anc, _ok = self.ancestors(c)
        return any(cc.name == "NeuralStateBase" for cc in [c] + anc)


VIEW_OK_TARGET_ATTRS = {"grad", "requires_grad"}
# private functions that are nevertheless operations of their own (called across modules / by the checks)
ROOT_PRIVATE = {"_shuffle_data", "_kron_mult", "_rotate_basis_state", "_convert_basis_element_to_index",
                "_single_basis_KL", "_update_statistics"}


def bound_mutated_roots(g, offset, binding):
    return bound_roots(g, offset, binding, g.mutated_roots)


def bound_roots(g, offset, binding, M):
    """roots of the actual arguments of one call that are bound to formal parameters which callee g mutates in place.
    binding = {"pos": [(starred?, roots)], "kw": {name: roots}, "starstar": roots};  offset = 1 when the receiver is bound
    to g's first parameter (method call on an instance).  Anything ambiguous (star-args) is bound to every mutated formal."""
    M = set(M) - {"PARAM", "MODULE"}
    if not M:
        return set()
    out = set()
    for i, (starred, roots) in enumerate(binding["pos"]):
        if not roots:
            continue
        if starred:
            out |= roots
            continue
        j = i + offset
        formal = g.params[j] if j < len(g.params) else g.vararg
        if formal is None or formal in M:
            out |= roots
    for name, roots in binding["kw"].items():
        if not roots:
            continue
        if name in g.all_params:
            if name in M:
                out |= roots
        elif g.kwarg is None or g.kwarg in M:
            out |= roots
    if binding["starstar"]:
        out |= binding["starstar"]
    return out


class FnVisitor:
    """one pass over the body of one function (lambdas included, nested defs excluded)."""

    def __init__(self, tr, fn):
        self.tr, self.fn, self.m = tr, fn, fn.module
        self.aliases = dict(self.m.aliases)
        self.locals = set()
        self.taint = {}          # local name -> set of roots ('PARAM' | own parameter names)
        self.settyped = set()    # local names holding a set
        self.bind_kinds = {}     # local name -> set of {"container", "other"} over all its bindings
        self.set_ok = set()      # id() of set-typed expression nodes used in a harmless position
        self.callable_alias, self.lambda_alias, self.followed, self.escaping_lambdas = {}, {}, set(), []
        self.call_funcs = set()
        self.own_names = set()
        self._proc_ok, self._proc_events = None, None     # process-wide settings: ids of restored writes / all writes

    # ------------------------------------------------------------ scope
    def body_nodes(self):
        node = self.fn.node
        if self.fn.kind == "toplevel":
            if node is None:
                return []
            return [st for st in node.body if not isinstance(st, (ast.FunctionDef, ast.AsyncFunctionDef, ast.ClassDef))] + \
                   [x for st in node.body if isinstance(st, ast.ClassDef) for x in self.class_level(st)]
        return list(node.body)

    def class_level(self, cnode):
        out = []
        for st in cnode.body:
            if isinstance(st, (ast.FunctionDef, ast.AsyncFunctionDef)):
                continue
            if isinstance(st, ast.ClassDef):
                out += self.class_level(st)
            else:
                out.append(st)
        return out

    def walk_scope(self, nodes):
        """all nodes of this function's own scope (not descending into nested def / class)."""
        stack = [n for n in nodes if not isinstance(n, (ast.FunctionDef, ast.AsyncFunctionDef, ast.ClassDef))][::-1]
        while stack:
            n = stack.pop()
            yield n
            for ch in list(ast.iter_child_nodes(n))[::-1]:
                if isinstance(ch, (ast.FunctionDef, ast.AsyncFunctionDef, ast.ClassDef)):
                    continue
                stack.append(ch)

    def prepare(self):
        fn, node = self.fn, self.fn.node
        self.body, self.extra = [], []
        if node is None:
            return
        body = self.body_nodes()
        extra = []
        if fn.kind == "function":
            a = node.args
            fn.own_mutable_params = set(fn.all_params)
            if fn.cls is not None and fn.parent is None and fn.params and not any(
                    isinstance(d, ast.Name) and d.id == "staticmethod" for d in node.decorator_list):
                fn.own_mutable_params.discard(fn.params[0])      # self / cls
            self.locals |= fn.all_params
            extra = [d for d in a.defaults + a.kw_defaults if d is not None]
            # enclosing function's locals are visible (closures)
            p = fn.parent
            while p is not None:
                self.locals |= getattr(p, "scope_locals", set())
                p = p.parent
            self.decorators(node)
        else:
            fn.own_mutable_params = set()
        # locals: every name stored in this scope; function-level imports
        for n in self.walk_scope(body):
            if isinstance(n, ast.Name) and isinstance(n.ctx, (ast.Store, ast.Del)):
                if fn.kind == "function":
                    self.locals.add(n.id)
            elif isinstance(n, (ast.Import, ast.ImportFrom)) and fn.kind == "function":
                self.tr.register_import(self.m, n, self.aliases)
            elif isinstance(n, ast.arg):
                self.locals.add(n.arg)          # lambda parameters
            elif isinstance(n, ast.ExceptHandler) and n.name:
                self.locals.add(n.name)
        if fn.kind == "function":
            for name in list(self.aliases):
                if name in self.locals and name not in self.m.aliases:
                    self.locals.discard(name)    # a function-level import is not a plain local
            for st in self.tr.nested_defs(node):
                self.locals.add(st.name)
        fn.scope_locals = set(self.locals)
        self.body, self.extra = body, extra
        self.own_names = set(fn.all_params)
        for n in self.walk_scope(body):
            if isinstance(n, ast.Name) and isinstance(n.ctx, (ast.Store, ast.Del)):
                self.own_names.add(n.id)
            elif isinstance(n, ast.arg):
                self.own_names.add(n.arg)
        self.prepare_callables()

    # ------------------------------------------------------------ locally bound callables
    @staticmethod
    def lambdas_of(e):
        if isinstance(e, ast.Lambda):
            return [e]
        if isinstance(e, ast.IfExp):
            return FnVisitor.lambdas_of(e.body) + FnVisitor.lambdas_of(e.orelse)
        if isinstance(e, ast.BoolOp):
            return [x for v in e.values for x in FnVisitor.lambdas_of(v)]
        return []

    @staticmethod
    def lambda_params(lam):
        a = lam.args
        out = [x.arg for x in getattr(a, "posonlyargs", []) + a.args + a.kwonlyargs]
        if a.vararg:
            out.append(a.vararg.arg)
        if a.kwarg:
            out.append(a.kwarg.arg)
        return out

    def prepare_callables(self):
        """local names bound to callables (nested defs, lambdas, aliases of package / external functions) and the
        syntactic positions in which a callable value is followed: func of a call, direct argument of a call, value of
        a plain `name = ...` assignment."""
        self.callable_alias = {}     # local name -> [("fn", Fn, offset) | ("ext", dotted) | ("lambda", node)]
        self.lambda_alias = {}       # local name -> [Lambda]
        self.followed = set()        # id() of expression nodes in a followed position
        self.escaping_lambdas = []
        nodes = list(self.walk_scope(self.body + self.extra))
        for n in nodes:
            if isinstance(n, ast.Call):
                self.followed.add(id(n.func))
                self.call_funcs.add(id(n.func))
                for a in list(n.args) + [k.value for k in n.keywords]:
                    a = a.value if isinstance(a, ast.Starred) else a
                    self.followed.add(id(a))
                    for x in self.branches(a):
                        self.followed.add(id(x))
            elif isinstance(n, ast.Assign) and len(n.targets) == 1 and isinstance(n.targets[0], ast.Name):
                for x in self.branches(n.value):
                    self.followed.add(id(x))
                for lam in self.lambdas_of(n.value):
                    self.lambda_alias.setdefault(n.targets[0].id, []).append(lam)
        for _ in range(2):
            for n in nodes:
                if isinstance(n, ast.Assign) and len(n.targets) == 1 and isinstance(n.targets[0], ast.Name):
                    have = self.callable_alias.setdefault(n.targets[0].id, [])
                    for t in self.callable_targets(n.value):
                        if t not in have:
                            have.append(t)
        # a lambda that is neither called, nor passed to a call, nor bound to a plain local name escapes; so does a
        # lambda-holding local name that is used in any other position
        named = set(self.lambda_alias)
        for n in nodes:
            if isinstance(n, ast.Lambda) and id(n) not in self.followed:
                self.escaping_lambdas.append(n)
            elif isinstance(n, ast.Name) and isinstance(n.ctx, ast.Load) and n.id in named and id(n) not in self.followed:
                self.escaping_lambdas.extend(self.lambda_alias[n.id])

    @staticmethod
    def branches(e):
        """the value expression itself and, through conditional expressions / `or`, its alternatives"""
        out = [e]
        if isinstance(e, ast.IfExp):
            out += FnVisitor.branches(e.body) + FnVisitor.branches(e.orelse)
        elif isinstance(e, ast.BoolOp):
            for v in e.values:
                out += FnVisitor.branches(v)
        return out

    def nested_fn(self, name):
        f = self.fn
        while f is not None:
            if name in f.nested:
                return f.nested[name]
            f = f.parent
        return None

    def alias_of(self, name):
        out = list(self.callable_alias.get(name, []))
        p = self.fn.parent
        while p is not None:
            pv = self.tr.visitors.get(p)
            if pv is not None and name not in self.own_names:
                out += [t for t in getattr(pv, "callable_alias", {}).get(name, []) if t not in out]
            p = p.parent
        return out

    def callable_targets(self, e):
        """what a value expression may denote as a callable: [("fn", Fn, offset) | ("ext", dotted) | ("lambda", node)]"""
        if isinstance(e, ast.Lambda):
            return [("lambda", e)]
        if isinstance(e, ast.Call) and e.args:
            ch = self.tr.attr_chain(e.func)
            r0 = self.resolve_name(ch[0], ch[1]) if ch is not None else None
            if r0 is not None and r0[0] == "ext" and r0[1] in ("functools.partial", "functools.partialmethod", "functools.wraps",
                                                              "functools.update_wrapper"):
                return self.callable_targets(e.args[0])      # partial(f, ...) is applied like f
            return []
        if isinstance(e, (ast.IfExp, ast.BoolOp)):
            out = []
            for x in self.branches(e)[1:]:
                if not isinstance(x, (ast.IfExp, ast.BoolOp)):
                    out += [t for t in self.callable_targets(x) if t not in out]
            return out
        r = None
        if isinstance(e, ast.Name):
            if e.id in self.locals:
                out = []
                g = self.nested_fn(e.id)
                if g is not None:
                    out.append(("fn", g, 0))
                return out + [t for t in self.alias_of(e.id) if t not in out]
            r = self.resolve_name(e.id, [])
        elif isinstance(e, ast.Attribute):
            ch = self.tr.attr_chain(e)
            if ch is not None:
                r = self.resolve_name(ch[0], ch[1])
            if r is None or (r[0] in ("class", "module", "var", "fn") and len(r) > 2 and r[2]):
                # a (bound) method taken as a value: by name, properties excluded
                return [("fn", g, 0 if (g.is_static or g.cls is None or g.parent is not None) else 1)
                        for g in self.tr.by_name.get(e.attr, []) if not g.is_property]
        if r is None:
            return []
        if r[0] == "ext":
            return [("ext", r[1])]
        if r[0] == "fn" and not (len(r) > 2 and r[2]):
            return [("fn", r[1], 0)]
        return []

    def retaint(self):
        # free variables of a nested function carry the taint they have in the enclosing function
        p = self.fn.parent
        if p is not None and p in self.tr.visitors:
            pv = self.tr.visitors[p]
            for name, r in pv.taint.items():
                if name not in self.own_names and r:
                    self.taint.setdefault(name, set()).update(r)
            for name in pv.settyped:
                if name not in self.own_names:
                    self.settyped.add(name)
        self.compute_taint(self.body)

    def update_summaries(self):
        """return-value summary of this function and attribute aliases it creates; True if something is new."""
        fn, tr = self.fn, self.tr
        changed = False
        for n in self.walk_scope(self.body):
            if isinstance(n, ast.Return) and n.value is not None:
                new = (self.roots(n.value) & ({"PARAM", "MODULE"} | fn.own_mutable_params)) - fn.returns
                if new and fn.kind == "function":
                    fn.returns |= new
                    changed = True
            elif isinstance(n, (ast.Yield, ast.YieldFrom)) and n.value is not None and fn.kind == "function":
                new = (self.roots(n.value) & ({"PARAM", "MODULE"} | fn.own_mutable_params)) - fn.returns
                if new:
                    fn.returns |= new
                    changed = True
            elif isinstance(n, (ast.Assign, ast.AnnAssign)) and getattr(n, "value", None) is not None:
                targets = n.targets if isinstance(n, ast.Assign) else [n.target]
                for t in targets:
                    for a in ast.walk(t):
                        if isinstance(a, ast.Attribute) and isinstance(a.ctx, ast.Store) and a.attr not in ("data", "grad"):
                            r = self.roots(n.value)
                            if "PARAM" in r and a.attr not in tr.param_attrs and a.attr not in tr.alias_attrs:
                                tr.alias_attrs.add(a.attr)
                                changed = True
                            if "MODULE" in r and a.attr not in tr.module_attrs:
                                tr.module_attrs.add(a.attr)
                                changed = True
                            if self.is_set(n.value) and a.attr not in tr.set_attrs:
                                tr.set_attrs.add(a.attr)
                                changed = True
        return changed

    def emit(self):
        if self.fn.node is None:
            return
        for n in self.walk_scope(self.body + self.extra):
            self.visit(n)

    # ------------------------------------------------------------ process-wide settings (hidden global state)
    # A write to a process-wide setting (table above proc_setter_key; stores into attributes of imported modules, package
    # modules, package classes and module-level objects) is reported as Environ -- a foreign source for every later operation --
    # unless it is RESTORED ON EVERY PATH out of the function:
    #   * the call is itself the context manager of a `with` (with torch.set_grad_enabled(False): ...);
    #   * it stands in the block of a `with` whose manager restores that family (warnings.catch_warnings, numpy.errstate);
    #   * it stands in the body of a try whose finally-clause writes the same setting from a saved local value, or directly
    #     before such a try (only call-free / getter-only statements in between);
    #   * it is that restoring write (in a finally-clause; in `except BaseException: ...; raise` paired with the same write on
    #     the normal path);
    #   * it stands in __enter__ / __exit__ of a class whose __exit__ writes the same setting from a saved value.
    # A restore that is merely the last statement of the function (no try/finally) is NOT enough: a user callback, metric or
    # observable that raises in between (or Ctrl-C) leaves the setting changed for the rest of the process.
    def proc_call_key(self, call):
        f = call.func
        if isinstance(f, ast.Name):
            if f.id in self.locals:
                return None
            r = self.resolve_name(f.id, [])
        else:
            ch = self.tr.attr_chain(f)
            if ch is None:
                return None
            r = self.resolve_name(ch[0], ch[1])
        if r is not None and r[0] == "ext":
            return proc_setter_key(r[1])
        return None

    def proc_store_key(self, t):
        """store into  <module | class | module-level object>.attr...  (also through a subscript of an external module's attribute)"""
        sub = False
        while isinstance(t, ast.Subscript):
            t, sub = t.value, True
        # class-level state reached through an instance:  type(x).attr = v,  x.__class__.attr = v
        e = t
        while isinstance(e, ast.Attribute) and not sub:
            inner = e.value
            if isinstance(inner, ast.Attribute) and inner.attr == "__class__":
                return "store:<class of an instance>." + e.attr
            if isinstance(inner, ast.Call) and isinstance(inner.func, ast.Name) and inner.func.id == "type" \
                    and "type" not in self.locals and len(inner.args) == 1:
                return "store:type(...)." + e.attr
            e = inner
        ch = self.tr.attr_chain(t)
        if ch is None or not ch[1]:
            return None
        r = self.resolve_name(ch[0], ch[1])
        if r is None or r[0] in ("fn", "pkg-unresolved"):
            return None
        if r[0] == "ext":
            return "store:" + r[1]
        if sub:
            return None              # element stores into package-level containers (memo tables) are not settings
        return "store:" + ".".join([ch[0]] + ch[1])

    def proc_manager_keys(self, e):
        if isinstance(e, ast.Call):
            f = e.func
            ch = self.tr.attr_chain(f)
            if ch is not None and ch[0] not in self.locals:
                r = self.resolve_name(ch[0], ch[1])
                if r is not None and r[0] == "ext":
                    return PROC_MANAGERS.get(r[1], set())
        return set()

    def proc_saved_value(self, exprs):
        """the written value is taken from a local (a value saved earlier), not a constant / a name of an imported module."""
        names = self.locals | self.own_names
        for e in exprs:
            for n in ast.walk(e):
                if isinstance(n, ast.Name) and isinstance(n.ctx, ast.Load) and n.id in names:
                    return True
        return False

    @staticmethod
    def proc_stmt_parts(st):
        """(expressions evaluated by the statement itself, nested blocks)"""
        if isinstance(st, (ast.If, ast.While)):
            return [st.test], [st.body, st.orelse]
        if isinstance(st, (ast.For, ast.AsyncFor)):
            return [st.target, st.iter], [st.body, st.orelse]
        if isinstance(st, (ast.With, ast.AsyncWith)):
            ex = []
            for it in st.items:
                ex.append(it.context_expr)
                if it.optional_vars is not None:
                    ex.append(it.optional_vars)
            return ex, [st.body]
        if isinstance(st, ast.Try) or type(st).__name__ == "TryStar":
            return [h.type for h in st.handlers if h.type is not None], [st.body] + [h.body for h in st.handlers] + [st.orelse, st.finalbody]
        if isinstance(st, (ast.FunctionDef, ast.AsyncFunctionDef, ast.ClassDef)):
            return [], []
        if hasattr(ast, "Match") and isinstance(st, ast.Match):
            return [st.subject], [c.body for c in st.cases]
        return [st], []

    def proc_events_of(self, st):
        """process-wide writes performed by the statement's own expressions: dicts key / node / values / call"""
        exprs, _blocks = self.proc_stmt_parts(st)
        out = []
        value = []
        if isinstance(st, (ast.Assign, ast.AugAssign, ast.AnnAssign)) and getattr(st, "value", None) is not None:
            value = [st.value]
        for n in self.walk_scope(exprs):
            if isinstance(n, ast.Call):
                k = self.proc_call_key(n)
                if k is not None:
                    out.append({"key": k, "node": n.func, "call": n, "values": list(n.args) + [kw.value for kw in n.keywords],
                                "line": n.lineno})
            elif isinstance(n, (ast.Attribute, ast.Subscript)) and isinstance(n.ctx, (ast.Store, ast.Del)):
                k = self.proc_store_key(n)
                if k is not None:
                    node = n
                    while isinstance(node, ast.Subscript):
                        node = node.value
                    out.append({"key": k, "node": node, "call": None, "values": value, "line": n.lineno})
        return out

    def proc_restored_keys(self, stmts):
        """settings written from a saved value somewhere in these statements (nested blocks included)."""
        keys = set()
        for st in stmts:
            for ev in self.proc_events_of(st):
                if self.proc_saved_value(ev["values"]):
                    keys.add(ev["key"])
            for b in self.proc_stmt_parts(st)[1]:
                keys |= self.proc_restored_keys(b)
        return keys

    def proc_except_restores(self, tr_st, later):
        """keys restored by `except BaseException / bare except: <restore>; raise` AND again on the normal path (else-clause or
        a later statement of the same block)."""
        keys = set()
        for h in tr_st.handlers:
            catches_all = h.type is None or (isinstance(h.type, ast.Name) and h.type.id == "BaseException")
            if catches_all and any(isinstance(x, ast.Raise) for x in h.body):
                keys |= self.proc_restored_keys(h.body)
        if not keys:
            return keys
        normal = self.proc_restored_keys(tr_st.orelse) | self.proc_restored_keys(later)
        return keys & normal

    def proc_protected_keys(self, tr_st, later):
        return self.proc_restored_keys(tr_st.finalbody) | self.proc_except_restores(tr_st, later)

    def proc_quiet_stmt(self, st):
        """a statement between a setter and its try that cannot run user code: no call except external functions (getters) and
        pure builtins."""
        if not isinstance(st, (ast.Assign, ast.AnnAssign, ast.AugAssign, ast.Expr, ast.Pass)):
            return False
        for n in ast.walk(st):
            if isinstance(n, ast.Call):
                f = n.func
                if isinstance(f, ast.Name):
                    if f.id in self.locals:
                        return False
                    r = self.resolve_name(f.id, [])
                    if not ((r is not None and r[0] == "ext") or (r is None and f.id in PURE_BUILTINS)):
                        return False
                else:
                    ch = self.tr.attr_chain(f)
                    r = self.resolve_name(ch[0], ch[1]) if ch is not None else None
                    if r is None or r[0] != "ext":
                        return False
            elif isinstance(n, (ast.Yield, ast.YieldFrom, ast.Await)):
                return False
        return True

    def proc_scan(self, stmts, fin_keys, restoring, managed):
        for i, st in enumerate(stmts):
            exprs, blocks = self.proc_stmt_parts(st)
            with_calls = set()
            if isinstance(st, (ast.With, ast.AsyncWith)):
                with_calls = {id(it.context_expr) for it in st.items}
            for ev in self.proc_events_of(st):
                key = ev["key"]
                self._proc_events.append(ev)
                ok = False
                if ev["call"] is not None and id(ev["call"]) in with_calls:
                    ok = True                     # the call is the context manager itself
                elif key in fin_keys or key in managed:
                    ok = True
                elif key in restoring and self.proc_saved_value(ev["values"]):
                    ok = True                     # the restoring write
                else:
                    for j in range(i + 1, len(stmts)):
                        st2 = stmts[j]
                        if isinstance(st2, ast.Try) and key in self.proc_protected_keys(st2, stmts[j + 1:]):
                            ok = True
                            break
                        if not self.proc_quiet_stmt(st2):
                            break
                if ok:
                    self._proc_ok.add(id(ev["node"]))
            if isinstance(st, ast.Try) or type(st).__name__ == "TryStar":
                later = stmts[i + 1:]
                prot = self.proc_protected_keys(st, later)
                exc_keys = self.proc_except_restores(st, later)
                self.proc_scan(st.body, fin_keys | prot, restoring, managed)
                for h in st.handlers:
                    self.proc_scan(h.body, fin_keys | self.proc_restored_keys(st.finalbody), restoring | exc_keys, managed)
                self.proc_scan(st.orelse, fin_keys | self.proc_restored_keys(st.finalbody), restoring | exc_keys, managed)
                self.proc_scan(st.finalbody, fin_keys, restoring | self.proc_restored_keys(st.finalbody), managed)
                # the normal-path half of the except-BaseException pattern may stand after the try
                if exc_keys:
                    for st2 in later:
                        for ev in self.proc_events_of(st2):
                            if ev["key"] in exc_keys and self.proc_saved_value(ev["values"]):
                                self._proc_ok.add(id(ev["node"]))
            elif isinstance(st, (ast.With, ast.AsyncWith)):
                m2 = set(managed)
                for it in st.items:
                    m2 |= self.proc_manager_keys(it.context_expr)
                self.proc_scan(st.body, fin_keys, restoring, m2)
            else:
                for b in blocks:
                    self.proc_scan(b, fin_keys, restoring, managed)

    def proc_analysis(self):
        if self._proc_ok is not None:
            return
        self._proc_ok, self._proc_events = set(), []
        if self.fn.node is None:
            return
        self.proc_scan(list(self.body), frozenset(), frozenset(), frozenset())
        # __enter__ / __exit__ of one class: the pair is a context manager if __exit__ restores from a saved value
        fn = self.fn
        if fn.cls is not None and fn.simple in ("__enter__", "__exit__") and fn.parent is None:
            ex = [g for g in fn.cls.methods.get("__exit__", []) if g in self.tr.visitors]
            if ex and fn.cls.methods.get("__enter__"):
                xv = self.tr.visitors[ex[0]]
                restored = xv.proc_restored_keys(list(xv.body))
                for ev in self._proc_events:
                    if ev["key"] in restored and (fn.simple == "__enter__" or self.proc_saved_value(ev["values"])):
                        self._proc_ok.add(id(ev["node"]))

    def proc_reference(self, r, n):
        """effects are attached to references: mentioning a process-wide setter (called here, aliased, handed over) counts."""
        if r[0] == "ext" and isinstance(n.ctx, ast.Load):
            key = proc_setter_key(r[1])
            if key is not None:
                self.proc_write(key, n)

    def proc_write(self, key, n):
        """a reference to a process-wide setter / a store into process-wide state at node n"""
        self.proc_analysis()
        if id(n) in self._proc_ok:
            return
        what = key[6:] if key.startswith("store:") else key
        self.fn.add("Environ", getattr(n, "lineno", 0),
                    "process-wide setting %s is written and not restored on every path (no try/finally, no context manager): "
                    "hidden state that the seeding call does not reset" % what)

    # ------------------------------------------------------------ clock values inside callbacks/timer.py
    # ClockTimer is only a licence to STORE clock values in the Timer's own attributes and to PRINT them.  Any other flow
    # of a clock value (a branch that guards anything but prints / own attributes, an argument of another call, a store
    # into another object, a return value) makes the function an ordinary Clock reader, which every theorem forbids.
    def in_timer_module(self):
        return self.fn.module.relpath.replace(os.sep, "/").endswith("callbacks/timer.py")

    def is_clock(self, e):
        for n in ast.walk(e):
            if isinstance(n, ast.Name) and n.id in getattr(self, "clock_names", ()):
                return True
            if isinstance(n, ast.Attribute):
                if n.attr in self.tr.clock_attrs:
                    return True
                ch = self.tr.attr_chain(n)
                if ch is not None:
                    r = self.resolve_name(ch[0], ch[1])
                    if r is not None and r[0] == "ext" and r[1].split(".")[0] in ("time", "datetime"):
                        return True
            if isinstance(n, ast.Name) and isinstance(n.ctx, ast.Load) and n.id not in self.locals:
                r = self.resolve_name(n.id, [])
                if r is not None and r[0] == "ext" and r[1].split(".")[0] in ("time", "datetime"):
                    return True
        return False

    def is_self_attr(self, t):
        fn = self.fn
        return isinstance(t, ast.Attribute) and isinstance(t.value, ast.Name) and fn.cls is not None and fn.parent is None and fn.params \
            and t.value.id == fn.params[0] and not fn.is_static

    def collect_clock_attrs(self):
        changed = False
        self.clock_names = getattr(self, "clock_names", set())
        for n in self.walk_scope(self.body):
            if isinstance(n, (ast.Assign, ast.AugAssign, ast.AnnAssign)) and getattr(n, "value", None) is not None and self.is_clock(n.value):
                targets = n.targets if isinstance(n, ast.Assign) else [n.target]
                for t in targets:
                    for a in ast.walk(t):
                        if isinstance(a, ast.Name) and isinstance(a.ctx, ast.Store) and a.id not in self.clock_names:
                            self.clock_names.add(a.id)
                            changed = True
                        if isinstance(a, ast.Attribute) and isinstance(a.ctx, ast.Store) and a.attr not in self.tr.clock_attrs:
                            self.tr.clock_attrs.add(a.attr)
                            changed = True
            elif isinstance(n, (ast.If, ast.While)) and self.is_clock(n.test):
                # control dependence: whatever is assigned under a branch / loop decided by a clock value is a clock value
                for st in n.body + n.orelse:
                    for x in ast.walk(st):
                        if isinstance(x, (ast.Assign, ast.AugAssign, ast.AnnAssign)):
                            targets = x.targets if isinstance(x, ast.Assign) else [x.target]
                            for t in targets:
                                for a in ast.walk(t):
                                    if isinstance(a, ast.Name) and isinstance(a.ctx, ast.Store) and a.id not in self.clock_names:
                                        self.clock_names.add(a.id)
                                        changed = True
                                    if isinstance(a, ast.Attribute) and isinstance(a.ctx, ast.Store) and a.attr not in self.tr.clock_attrs:
                                        self.tr.clock_attrs.add(a.attr)
                                        changed = True
        return changed

    PRINT_LIKE = {"print", "float", "int", "round", "str", "abs", "min", "max", "format", "repr", "divmod", "bool", "len"}

    def harmless_stmt(self, st):
        """statements allowed under a branch on a clock value: prints, stores into locals / own attributes, nested ifs."""
        if isinstance(st, ast.Pass):
            return True
        if isinstance(st, ast.Expr) and isinstance(st.value, ast.Call) and isinstance(st.value.func, ast.Name) \
                and st.value.func.id == "print" and "print" not in self.locals:
            return True
        if isinstance(st, (ast.Assign, ast.AugAssign, ast.AnnAssign)):
            targets = st.targets if isinstance(st, ast.Assign) else [st.target]
            if all(isinstance(t, ast.Name) or self.is_self_attr(t) for t in targets):
                v = getattr(st, "value", None)
                return v is None or not any(isinstance(x, ast.Call) and not self.print_like_call(x) for x in ast.walk(v))
            return False
        if isinstance(st, ast.If):
            return all(self.harmless_stmt(x) for x in st.body + st.orelse)
        return False

    def print_like_call(self, c):
        f = c.func
        if isinstance(f, ast.Name):
            return f.id in self.PRINT_LIKE and f.id not in self.locals
        if isinstance(f, ast.Attribute):
            if f.attr == "format":
                return True
            ch = self.tr.attr_chain(f)
            if ch is not None:
                r = self.resolve_name(ch[0], ch[1])
                return r is not None and r[0] == "ext" and r[1].split(".")[0] in ("time", "datetime", "math")
        return False

    def clock_flow(self):
        fn = self.fn

        def bad(n, why):
            fn.add("Clock", getattr(n, "lineno", 0), "clock value " + why + " (outside the ClockTimer licence: own attributes and prints)")
        for n in self.walk_scope(self.body):
            if isinstance(n, (ast.Assign, ast.AugAssign, ast.AnnAssign)) and getattr(n, "value", None) is not None and self.is_clock(n.value):
                targets = n.targets if isinstance(n, ast.Assign) else [n.target]
                if not all(isinstance(t, ast.Name) or self.is_self_attr(t) for t in targets):
                    bad(n, "stored into another object")
            elif isinstance(n, (ast.If, ast.While)) and self.is_clock(n.test):
                if isinstance(n, ast.While) or not all(self.harmless_stmt(x) for x in n.body + n.orelse):
                    bad(n, "decides a branch that does more than print / update the timer's own attributes")
            elif isinstance(n, (ast.IfExp, ast.Assert)) and self.is_clock(n.test):
                bad(n, "decides a conditional expression / assertion")
            elif isinstance(n, ast.Call) and not self.print_like_call(n):
                if any(self.is_clock(a) for a in n.args) or any(self.is_clock(k.value) for k in n.keywords):
                    bad(n, "passed to a call")
            elif isinstance(n, (ast.Return, ast.Yield, ast.YieldFrom)) and n.value is not None and self.is_clock(n.value):
                bad(n, "returned")
            elif isinstance(n, (ast.For, ast.comprehension)) and self.is_clock(n.iter):
                bad(n, "iterated")
            elif isinstance(n, ast.Subscript) and self.is_clock(n.slice):
                bad(n, "used as an index")

    def decorators(self, node):
        for d in node.decorator_list:
            e = d.func if isinstance(d, ast.Call) else d
            ch = self.tr.attr_chain(e)
            line = d.lineno
            if ch is None:
                self.fn.add(U("construct:decorator"), line, "unanalysable decorator")
                continue
            root, attrs = ch
            if not attrs and root in ("property", "staticmethod", "classmethod"):
                continue
            if attrs and attrs[-1] in ("setter", "getter", "deleter") and root not in self.aliases:
                continue
            r = self.resolve_name(root, attrs)
            if r is None:
                self.fn.add(U("decorator:" + ".".join([root] + attrs)), line, "unknown decorator")
            elif r[0] == "ext":
                self.tr.classify_ext(self.fn, r[1], line)
                if r[1].split(".")[0] not in PURE_MODULES:
                    self.fn.add(U("decorator:" + r[1]), line, "external decorator")
            elif r[0] == "fn":
                self.fn.callees.add(r[1])
            elif r[0] == "class":
                c = r[1]
                for nm in ("__init__", "__call__"):
                    for f in c.methods.get(nm, []):
                        self.fn.callees.add(f)
            # arguments of the decorator call are evaluated at definition time: visit them as expressions
            if isinstance(d, ast.Call):
                for n in self.walk_scope(list(d.args) + [k.value for k in d.keywords]):
                    self.visit(n)

    # ------------------------------------------------------------ name resolution
    def resolve_name(self, root, attrs):
        """resolve  root.attrs...  when root is an import alias or a module-level definition.
        returns ('ext', dotted) | ('fn', Fn) | ('class', Cls) | ('module', Mod) | ('var', None) | None"""
        if root in self.locals:
            return None
        if root in self.aliases:
            kind, path = self.aliases[root]
            if kind == "ext":
                return ("ext", ".".join([path] + attrs))
            # longest resolvable prefix inside the package
            for i in range(len(attrs), -1, -1):
                r = self.tr.resolve_pkg(".".join([path] + attrs[:i]))
                if r is not None:
                    if r[0] == "ext":
                        return ("ext", ".".join([r[1]] + attrs[i:]))
                    return r + (attrs[i:],)
            return ("pkg-unresolved", path)
        if root in self.m.defs:
            return ("fn", self.m.defs[root], attrs)
        if root in self.m.classes:
            return ("class", self.m.classes[root], attrs)
        if root in self.m.globals:
            return ("var", None, attrs)
        return None

    # ------------------------------------------------------------ roots (aliasing of parameters)
    def roots(self, e):
        tr = self.tr
        if e is None:
            return set()
        if isinstance(e, ast.Name):
            r = set(self.taint.get(e.id, ()))
            if e.id in self.fn.own_mutable_params:
                r.add(e.id)
            fn = self.fn
            if fn.cls is not None and fn.parent is None and fn.params and e.id == fn.params[0] and not fn.is_static \
                    and tr.is_module_class(fn.cls):
                r.add("MODULE")                  # `self` inside a method of an nn.Module subclass
            return r
        if isinstance(e, ast.Attribute):
            r = self.roots(e.value) - {"MODULE"}
            if e.attr in tr.param_attrs or e.attr in tr.alias_attrs:
                r = r | {"PARAM"}
            if e.attr in tr.module_attrs:
                r = r | {"MODULE"}
            for g in tr.by_name.get(e.attr, ()):     # a property whose getter returns a parameter / module
                if g.is_property:
                    r = r | g.returns
            return r
        if isinstance(e, (ast.Subscript, ast.Starred)):
            return self.roots(e.value)
        if isinstance(e, ast.IfExp):
            return self.roots(e.body) | self.roots(e.orelse)
        if isinstance(e, ast.BoolOp):
            out = set()
            for v in e.values:
                out |= self.roots(v)
            return out
        if isinstance(e, (ast.List, ast.Tuple, ast.Set)):
            out = set()
            for v in e.elts:
                out |= self.roots(v)
            return out
        if isinstance(e, ast.Dict):
            out = set()
            for v in e.values:
                out |= self.roots(v)
            return out
        if isinstance(e, (ast.ListComp, ast.SetComp, ast.GeneratorExp)):
            return self.roots(e.elt)
        if isinstance(e, ast.DictComp):
            return self.roots(e.value)
        if isinstance(e, ast.NamedExpr):
            return self.roots(e.value)
        if isinstance(e, (ast.Await, ast.Yield, ast.YieldFrom)):
            return self.roots(e.value) if e.value is not None else set()
        if isinstance(e, ast.Call):
            return self.call_roots(e)
        return set()             # BinOp, UnaryOp, Compare, Constant, JoinedStr, Lambda ...: fresh value

    def args_roots(self, call):
        out = set()
        for a in call.args:
            out |= self.roots(a)
        for k in call.keywords:
            out |= self.roots(k.value)
        return out

    def call_roots(self, call):
        f = call.func
        out_kw = [k.value for k in call.keywords if k.arg == "out"]
        if isinstance(f, ast.Name):
            if f.id in self.locals:
                return self.args_roots(call)
            if f.id in CONTAINER_BUILTINS and f.id not in self.aliases:
                if f.id == "getattr" and len(call.args) >= 2:
                    r = self.roots(call.args[0])
                    a1 = call.args[1]
                    if isinstance(a1, ast.Constant) and isinstance(a1.value, str):
                        if a1.value in self.tr.param_attrs:
                            r = r | {"PARAM"}
                        if a1.value in self.tr.alias_attrs:
                            r = r | {"PARAM"}
                        if a1.value in self.tr.module_attrs:
                            r = r | {"MODULE"}
                    elif not self.is_module_expr(call.args[0]):
                        r = r | {"PARAM", "MODULE"}   # could be any attribute: a parameter or a network included
                    return r
                return self.args_roots(call)
            r = self.resolve_name(f.id, [])
            if r is None:
                return set()
            if r[0] == "ext":
                return self.ext_call_roots(r[1], call, out_kw)
            if r[0] in ("fn",):
                return self.result_roots([(r[1], 0)], call)
            if r[0] == "class" and self.tr.is_module_class(r[1]):
                return {"MODULE"}    # a freshly built network (marks the attribute it is stored in as a module attribute)
            return set()         # constructor of a package class: fresh object
        if isinstance(f, ast.Attribute):
            ch = self.tr.attr_chain(f)
            if ch is not None:
                r = self.resolve_name(ch[0], ch[1])
                if r is not None:
                    if r[0] == "ext":
                        return self.ext_call_roots(r[1], call, out_kw)
                    if r[0] == "fn":
                        return self.result_roots([(r[1], 0)], call)
                    if r[0] == "class" and not r[2]:
                        return {"MODULE"} if self.tr.is_module_class(r[1]) else set()
            m = f.attr
            recv = self.roots(f.value)
            if m in ("parameters", "named_parameters", "state_dict", "buffers", "children", "modules"):
                return recv | {"PARAM"}
            if m in FRESH_METHODS:
                return set()
            if m in self.tr.by_name:
                # sound default: the result may alias the receiver or any argument, and whatever a callee of that name
                # is known to return (parameters reached through self, e.g. a helper returning self.parameters())
                cands = [(g, 0 if (g.is_static or g.cls is None or g.parent is not None) else 1) for g in self.tr.by_name[m]]
                return (recv - {"MODULE"}) | self.result_roots(cands, call)
            return recv
        return set()

    def call_binding(self, call):
        return {"pos": [(isinstance(a, ast.Starred), self.roots(a)) for a in call.args],
                "kw": {k.arg: self.roots(k.value) for k in call.keywords if k.arg is not None},
                "starstar": set().union(*[self.roots(k.value) for k in call.keywords if k.arg is None] or [set()])}

    def result_roots(self, cands, call):
        """what the value returned by a call of a package function may alias: the markers the callee returns by itself
        (a parameter / network reached through self) and the actual arguments bound to the formals its return value may
        alias (return-value summaries, computed in the interprocedural fixpoint; a callee that only returns fresh tensors
        contributes nothing)."""
        binding = self.call_binding(call)
        out = set()
        for g, off in cands:
            out |= g.returns & {"PARAM", "MODULE"}
            out |= bound_roots(g, off, binding, g.returns)
        return out - {"MODULE"} | {m for g, _ in cands for m in g.returns if m == "MODULE"}

    def ext_call_roots(self, dotted, call, out_kw):
        if out_kw:
            out = set()
            for o in out_kw:
                out |= self.roots(o)
            return out
        parts = dotted.split(".")
        if parts[0] in ("torch", "numpy") and parts[-1] in TORCH_VIEW_FUNCS and call.args:
            return self.roots(call.args[0])
        if parts[0] == "itertools" or dotted == "copy.copy":
            return self.args_roots(call)
        return set()

    def is_module_expr(self, e):
        ch = self.tr.attr_chain(e)
        if ch is None:
            return False
        r = self.resolve_name(ch[0], ch[1])
        return r is not None and r[0] in ("ext", "module")

    def compute_taint(self, body):
        nodes = list(self.walk_scope(body))
        for _ in range(6):
            before = {k: set(v) for k, v in self.taint.items()}
            sbefore = set(self.settyped)
            for n in nodes:
                if isinstance(n, ast.Assign):
                    for t in n.targets:
                        self.bind(t, n.value)
                elif isinstance(n, ast.AnnAssign) and n.value is not None:
                    self.bind(n.target, n.value)
                elif isinstance(n, ast.AugAssign):
                    self.bind(n.target, n.value, aug=True)
                elif isinstance(n, (ast.For, ast.AsyncFor)):
                    self.bind(n.target, n.iter, elementwise=True)
                elif isinstance(n, ast.comprehension):
                    self.bind(n.target, n.iter, elementwise=True)
                elif isinstance(n, ast.NamedExpr):
                    self.bind(n.target, n.value)
                elif isinstance(n, ast.withitem) and n.optional_vars is not None:
                    self.bind(n.optional_vars, n.context_expr)
                elif isinstance(n, ast.Call) and isinstance(n.func, ast.Attribute) and n.func.attr in CONTAINER_MUTATORS:
                    # x.append(a) / x.extend(a) / d.update(a) / d.setdefault(k, a): the container now holds a's roots
                    r = self.args_roots(n)
                    base = n.func.value
                    while isinstance(base, ast.Subscript):
                        base = base.value
                    if r and isinstance(base, ast.Name):
                        self.taint.setdefault(base.id, set()).update(r)
                    elif isinstance(base, ast.Attribute) and base.attr not in ("data", "grad"):
                        if "PARAM" in r and base.attr not in self.tr.param_attrs:
                            self.tr.alias_attrs.add(base.attr)
                        if "MODULE" in r:
                            self.tr.module_attrs.add(base.attr)
                if isinstance(n, ast.Call):
                    self.taint_lambda_params(n)
            for lam in self.escaping_lambdas:
                for pn in self.lambda_params(lam):
                    self.taint.setdefault(pn, set()).add("PARAM")    # may be applied to anything, a parameter included
            if before == self.taint and sbefore == self.settyped:
                break

    def taint_lambda_params(self, call):
        """a lambda passed to a call may be applied to (the elements of) every other argument of that call; a lambda bound
        to a local name / called directly receives the arguments of the call."""
        args = list(call.args) + [k.value for k in call.keywords]
        lams = []
        for a in args:
            a0 = a.value if isinstance(a, ast.Starred) else a
            ls = []
            for x in self.branches(a0):
                if isinstance(x, ast.Lambda):
                    ls.append(x)
                elif isinstance(x, ast.Name) and x.id in self.locals:
                    ls += [t[1] for t in self.alias_of(x.id) if t[0] == "lambda"]
            if ls:
                lams.append((a, ls))
        for a, ls in lams:
            others = set()
            for b in args:
                if b is not a:
                    others |= self.roots(b)
            if others:
                for lam in ls:
                    for pn in self.lambda_params(lam):
                        self.taint.setdefault(pn, set()).update(others)
        f = call.func
        direct = []
        if isinstance(f, ast.Lambda):
            direct = [f]
        elif isinstance(f, ast.Name) and f.id in self.locals:
            direct = [t[1] for t in self.alias_of(f.id) if t[0] == "lambda"]
        if direct:
            r = self.args_roots(call)
            if r:
                for lam in direct:
                    for pn in self.lambda_params(lam):
                        self.taint.setdefault(pn, set()).update(r)

    def is_container_expr(self, e):
        """an expression that certainly evaluates to a fresh dict / list (a container, not a tensor)."""
        if isinstance(e, (ast.Dict, ast.DictComp, ast.List, ast.ListComp)):
            return True
        if isinstance(e, ast.IfExp):
            return self.is_container_expr(e.body) and self.is_container_expr(e.orelse)
        if isinstance(e, ast.Call):
            f = e.func
            if isinstance(f, ast.Name) and f.id in ("dict", "list") and f.id not in self.locals and f.id not in self.aliases:
                return True
            ch = self.tr.attr_chain(f)
            if ch is not None:
                r = self.resolve_name(ch[0], ch[1])
                if r is not None and r[0] == "ext" and r[1] in ("collections.OrderedDict", "collections.defaultdict"):
                    return True
            if isinstance(f, ast.Attribute):
                if f.attr == "state_dict":
                    return True
                if f.attr == "copy" and isinstance(f.value, ast.Name) and self.is_container_name(f.value.id):
                    return True
        return False

    def is_container_name(self, name):
        kinds = self.bind_kinds.get(name)
        return bool(kinds) and kinds == {"container"} and name not in self.fn.all_params

    def bind(self, target, value, elementwise=False, aug=False):
        if isinstance(target, ast.Subscript):
            base = target.value
            while isinstance(base, ast.Subscript):
                base = base.value
            if isinstance(base, ast.Name):
                r0 = self.roots(value)
                if r0:
                    self.taint.setdefault(base.id, set()).update(r0)      # d[k] = v: the container now holds v's roots
            return
        if isinstance(target, ast.Name) and not aug:
            self.bind_kinds.setdefault(target.id, set()).add(
                "container" if (not elementwise and self.is_container_expr(value)) else "other")
        elif not isinstance(target, ast.Name):
            for t in ast.walk(target):
                if isinstance(t, ast.Name) and isinstance(t.ctx, ast.Store):
                    self.bind_kinds.setdefault(t.id, set()).add("other")
        r = self.roots(value)
        st = (not elementwise) and self.is_set(value)
        for t in ast.walk(target):
            if isinstance(t, ast.Name) and isinstance(t.ctx, ast.Store):
                if r:
                    self.taint.setdefault(t.id, set()).update(r)
                if st and isinstance(target, ast.Name):
                    self.settyped.add(t.id)

    # ------------------------------------------------------------ set-typed expressions
    def is_set(self, e):
        if isinstance(e, (ast.Set, ast.SetComp)):
            return True
        if isinstance(e, ast.Name):
            return e.id in self.settyped
        if isinstance(e, ast.Attribute) and isinstance(e.ctx, ast.Load):
            return e.attr in self.tr.set_attrs
        if isinstance(e, ast.Call):
            f = e.func
            if isinstance(f, ast.Name) and f.id in ("set", "frozenset") and f.id not in self.locals and f.id not in self.aliases:
                return True
            if isinstance(f, ast.Attribute) and f.attr in ("union", "intersection", "difference", "symmetric_difference", "copy") \
                    and self.is_set(f.value):
                return True
            return False
        if isinstance(e, ast.BinOp) and isinstance(e.op, (ast.BitOr, ast.BitAnd, ast.Sub, ast.BitXor)):
            return self.is_set(e.left) or self.is_set(e.right)
        if isinstance(e, ast.IfExp):
            return self.is_set(e.body) or self.is_set(e.orelse)
        return False

    def mark_set_ok(self, e):
        self.set_ok.add(id(e))

    # ------------------------------------------------------------ mutation bookkeeping
    def mutation(self, roots, line, why):
        fn = self.fn
        if "PARAM" in roots:
            fn.add("ParamWrite", line, why)
        own = roots & fn.own_mutable_params
        if own:
            fn.mutated_roots |= own
            fn.mutates = True

    def store_target(self, t, line, aug=False):
        if isinstance(t, (ast.Subscript, ast.Attribute)):
            pk = self.proc_store_key(t)
            if pk is not None:
                node = t
                while isinstance(node, ast.Subscript):
                    node = node.value
                self.proc_write(pk, node)
        if isinstance(t, ast.Subscript):
            if not aug and isinstance(t.value, ast.Name) and self.is_container_name(t.value.id):
                return           # d[k] = v on a dict / list built in this function: a container update, not a tensor write
            self.mutation(self.roots(t.value), line, "subscript assignment to a parameter-rooted tensor")
        elif isinstance(t, ast.Attribute):
            if t.attr in self.tr.param_attrs:
                self.fn.add("ParamWrite", line, "assignment to parameter attribute ." + t.attr)
            elif t.attr == "data":
                self.mutation(self.roots(t.value), line, ".data = on a parameter-rooted tensor")
            elif aug and t.attr not in VIEW_OK_TARGET_ATTRS:
                self.mutation(self.roots(t), line, "augmented assignment to attribute of a parameter-rooted object")
        elif isinstance(t, ast.Name):
            if aug:
                self.mutation(self.roots(t), line, "augmented assignment (in-place) on a parameter-rooted name")
        elif isinstance(t, (ast.Tuple, ast.List)):
            for x in t.elts:
                self.store_target(x, line, aug)
        elif isinstance(t, ast.Starred):
            self.store_target(t.value, line, aug)

    # ------------------------------------------------------------ the visitor
    KNOWN_NODES = (ast.Expr, ast.Assign, ast.AugAssign, ast.AnnAssign, ast.Return, ast.If, ast.For, ast.While,
                   ast.With, ast.Raise, ast.Try, ast.Assert, ast.Pass, ast.Break, ast.Continue, ast.Delete,
                   ast.Import, ast.ImportFrom, ast.Nonlocal,
                   ast.BoolOp, ast.BinOp, ast.UnaryOp, ast.Lambda, ast.IfExp, ast.Dict, ast.Set, ast.ListComp,
                   ast.SetComp, ast.DictComp, ast.GeneratorExp, ast.Yield, ast.YieldFrom, ast.Compare, ast.Call,
                   ast.FormattedValue, ast.JoinedStr, ast.Constant, ast.Attribute, ast.Subscript, ast.Starred,
                   ast.Name, ast.List, ast.Tuple, ast.Slice, ast.NamedExpr,
                   ast.expr_context, ast.boolop, ast.operator, ast.unaryop, ast.cmpop, ast.comprehension,
                   ast.ExceptHandler, ast.arguments, ast.arg, ast.keyword, ast.alias, ast.withitem)

    def visit(self, n):
        fn, tr = self.fn, self.tr
        line = getattr(n, "lineno", 0)
        if not isinstance(n, self.KNOWN_NODES) and not (hasattr(ast, "Index") and isinstance(n, (ast.Index, ast.ExtSlice))):
            fn.add(U("construct:" + type(n).__name__), line, "construct not understood")
            return
        if isinstance(n, ast.Assign):
            for t in n.targets:
                self.store_target(t, line)
            if self.is_set(n.value) and all(isinstance(t, ast.Name) for t in n.targets):
                self.mark_set_ok(n.value)
        elif isinstance(n, ast.AnnAssign):
            self.store_target(n.target, line)
        elif isinstance(n, ast.AugAssign):
            self.store_target(n.target, line, aug=True)
        elif isinstance(n, ast.Delete):
            for t in n.targets:
                if isinstance(t, ast.Subscript):
                    self.store_target(t, line)
        elif isinstance(n, ast.Compare):
            self.mark_set_ok(n.left)
            for c in n.comparators:
                self.mark_set_ok(c)
        elif isinstance(n, ast.BinOp):
            if self.is_set(n):
                self.mark_set_ok(n.left)
                self.mark_set_ok(n.right)
        elif isinstance(n, (ast.If, ast.While, ast.IfExp, ast.Assert)):
            self.mark_set_ok(n.test)
        elif isinstance(n, ast.Call):
            self.visit_call(n)
        elif isinstance(n, ast.Attribute):
            self.visit_attribute(n)
        elif isinstance(n, ast.Name):
            self.visit_name(n)
        # set iteration: a set-typed expression in a position that is not known to be order-independent
        if isinstance(n, ast.expr) and id(n) not in self.set_ok and self.is_set(n):
            if isinstance(n, ast.Name) and isinstance(n.ctx, ast.Store):
                return
            fn.add("SetIteration", line, "a set is iterated / converted to a sequence (order depends on hashing)")

    def visit_name(self, n):
        fn = self.fn
        if not isinstance(n.ctx, ast.Load):
            return
        name = n.id
        if name in self.locals or getattr(n, "_chain_root", False):
            return
        r = self.resolve_name(name, [])
        if r is not None:
            self.apply_resolved(r, n.lineno, name)
            self.inplace_value(r, n)
            self.proc_reference(r, n)
            return
        if name in BUILTIN_ATOMS:
            for a in BUILTIN_ATOMS[name]:
                fn.add(a, n.lineno, "builtin " + name)
        elif name in PURE_BUILTINS:
            return
        elif isinstance(getattr(builtins, name, None), type) and issubclass(getattr(builtins, name), BaseException):
            return
        elif hasattr(builtins, name):
            fn.add(U("builtin:" + name), n.lineno, "builtin not in the pure table")
        else:
            fn.add(U("name:" + name), n.lineno, "unresolved name")

    def apply_resolved(self, r, line, text):
        fn = self.fn
        if r[0] == "ext":
            self.tr.classify_ext(fn, r[1], line)
        elif r[0] == "fn":
            fn.callees.add(r[1])
            for a in r[2] if len(r) > 2 else []:
                self.by_name_edges(a)
        elif r[0] == "class":
            rest = r[2] if len(r) > 2 else []
            for a in rest:
                self.by_name_edges(a)
        elif r[0] == "module" or r[0] == "var":
            rest = r[2] if len(r) > 2 else []
            for a in rest:
                self.by_name_edges(a)
        elif r[0] == "pkg-unresolved":
            fn.add(U("unresolved:" + r[1]), line, text)

    def inplace_value(self, r, n):
        """an external in-place function used as a value in a position the translator does not follow (stored in an
        attribute / container, returned, ...): fail closed."""
        if r[0] == "ext" and isinstance(n.ctx, ast.Load) and inplace_name(r[1].split(".")[-1]) and id(n) not in self.followed:
            self.fn.add(U("construct:inplace-function-as-value"), n.lineno, r[1] + " used as a value")

    def by_name_edges(self, attr):
        for g in self.tr.by_name.get(attr, ()):
            self.fn.callees.add(g)

    def visit_attribute(self, n):
        if isinstance(n.ctx, ast.Load) and n.attr in self.tr.clock_attrs and not self.in_timer_module():
            self.fn.add("Clock", n.lineno, "reads the Timer's clock attribute ." + n.attr)
        self._visit_attribute(n)

    def _visit_attribute(self, n):
        # only the outermost attribute of a chain is processed; inner ones are marked
        ch = self.tr.attr_chain(n)
        if getattr(n, "_inner", False):
            return
        e = n
        while isinstance(e, ast.Attribute):
            if e is not n:
                e._inner = True
            e = e.value
        if ch is not None:
            root, attrs = ch
            r = self.resolve_name(root, attrs)
            if r is not None:
                e._chain_root = True
                self.apply_resolved(r, n.lineno, ".".join([root] + attrs))
                self.inplace_value(r, n)
                self.proc_reference(r, n)
                return
            for a in attrs:
                self.by_name_edges(a)
            if isinstance(n.ctx, ast.Load) and inplace_name(n.attr) and id(n) not in self.call_funcs \
                    and n.attr not in self.tr.inst_attr_assigners:
                # a bound in-place method taken as a value (f = p.clamp_): whoever calls it writes the receiver
                self.mutation(self.roots(n.value), n.lineno, "bound in-place method .%s taken as a value" % n.attr)
        else:
            e2 = n
            while isinstance(e2, ast.Attribute):
                self.by_name_edges(e2.attr)
                e2 = e2.value

    def constructor_edges(self, c, line):
        """__init__ of class c or of its nearest package ancestors."""
        fn = self.fn
        if "__init__" in c.methods:
            fn.callees.update(c.methods["__init__"])
            return
        anc, ok = self.tr.ancestors(c)
        for a in anc:
            fn.callees.update(a.methods.get("__init__", []))
        if not ok:
            fn.add(U("construct:unknown-base-class"), line, "constructor of %s with a base class that is not understood" % c.qual)

    def visit_call(self, call):
        fn, tr = self.fn, self.tr
        line = call.lineno
        f = call.func
        # ---- out= keyword
        for k in call.keywords:
            if k.arg == "out":
                self.mutation(self.roots(k.value), line, "out= rooted at a parameter")
        target_fns = []          # package functions this call may enter (for argument mutation)
        if isinstance(f, ast.Name):
            name = f.id
            if name in self.locals:
                # a nested def / a local alias of a package or external function is resolved; a user-supplied callable
                # (function parameter) is outside the translated program
                for t in self.callable_targets(f):
                    if t[0] == "fn":
                        fn.callees.add(t[1])
                        target_fns.append((t[1], t[2]))
                    elif t[0] == "ext":
                        self.ext_call(t[1], call)
            else:
                r = self.resolve_name(name, [])
                if r is not None:
                    if r[0] == "class":
                        self.constructor_edges(r[1], line)
                    elif r[0] == "fn":
                        target_fns.append((r[1], 0))
                    elif r[0] == "ext":
                        self.ext_call(r[1], call)
                elif name in ("set", "frozenset"):
                    pass
                elif name == "open" and call.args and self.fixed_path(call.args[0]):
                    fn.add("Environ", line, "opens a path that is fixed in the source, not named by the caller")
                elif name in SET_OK_CONSUMERS:
                    for a in call.args:
                        self.mark_set_ok(a)
                elif name in ("setattr", "delattr"):
                    fn.add(U("builtin:" + name), line, "dynamic attribute write")
                elif name == "getattr" and call.args and self.is_module_expr(call.args[0]):
                    fn.add(U("construct:getattr-on-module"), line, "dynamic lookup in a module")
                elif name == "getattr" and len(call.args) >= 2:
                    a1 = call.args[1]
                    if isinstance(a1, ast.Constant) and isinstance(a1.value, str):
                        self.by_name_edges(a1.value)          # like the attribute access  obj.<name>
                    else:
                        fn.callees.add(tr.any_property)      # evaluating a dynamic attribute may run any property getter
        elif isinstance(f, ast.Attribute):
            ch = tr.attr_chain(f)
            resolved = None
            if ch is not None:
                resolved = self.resolve_name(ch[0], ch[1])
            if resolved is not None:
                if resolved[0] == "ext":
                    self.ext_call(resolved[1], call)
                elif resolved[0] == "fn" and not resolved[2]:
                    target_fns.append((resolved[1], 0))
                elif resolved[0] == "class" and not resolved[2]:
                    self.constructor_edges(resolved[1], line)
                else:
                    self.method_call(call, f, target_fns)
            else:
                self.method_call(call, f, target_fns)
        elif isinstance(f, ast.Call):
            inner = f.func
            ok = False
            if isinstance(inner, ast.Name) and inner.id == "super":
                ok = True
            elif isinstance(inner, ast.Name) and inner.id == "getattr" and "getattr" not in self.locals \
                    and len(f.args) >= 2 and not self.is_module_expr(f.args[0]):
                # getattr(obj, name)(...): dynamic method dispatch
                ok = True
                names = self.dynamic_names(f.args[1])
                if names is None:
                    fn.callees.add(tr.any_method)
                    target_fns.extend((g, 0 if (g.is_static or g.cls is None or g.parent is not None) else 1) for g in tr.any_method.callees)
                else:
                    for nm in sorted(names):
                        self.by_name_edges(nm)
                        if nm in tr.inst_attr_assigners:
                            fn.callees.update(tr.inst_attr_assigners[nm])
                        if nm in PARAMWRITE_METHODS:
                            fn.add("ParamWrite", line, "dynamic method ." + nm + "()")
                        if nm in RNG_METHODS:
                            fn.add("RngTorch", line, "dynamic method ." + nm + "()")
                        if not tr.by_name.get(nm) and nm not in tr.inst_attr_assigners and nm not in tr.known_attrs:
                            fn.add(U("method:" + nm), line, "dynamically dispatched method of unknown type")
                        target_fns.extend((g, 0 if (g.is_static or g.cls is None or g.parent is not None) else 1) for g in tr.by_name.get(nm, []))
            else:
                ch = tr.attr_chain(inner)
                if ch is not None:
                    r = self.resolve_name(ch[0], ch[1])
                    if r is not None and r[0] in ("class", "fn"):
                        ok = True
                        if r[0] == "class":
                            fn.callees.update(r[1].methods.get("__call__", []))
            if not ok:
                fn.add(U("construct:call-of-call"), line, "calling the result of a call")
        elif isinstance(f, (ast.Subscript, ast.IfExp, ast.Lambda, ast.BoolOp)):
            pass                 # callable taken from a container / conditional: references handled where built
        else:
            fn.add(U("construct:call-" + type(f).__name__), line, "call of an expression that is not understood")
        # ---- callables handed over as arguments: may be applied to (the elements of) every other argument
        args_all = list(call.args) + [k.value for k in call.keywords]
        for a in args_all:
            a0 = a.value if isinstance(a, ast.Starred) else a
            if not isinstance(a0, (ast.Name, ast.Attribute, ast.IfExp, ast.BoolOp, ast.Call)):
                continue
            ts = [t for t in self.callable_targets(a0) if t[0] != "lambda"]
            if not ts:
                continue
            others = set()
            for b in args_all:
                if b is not a:
                    others |= self.roots(b)
            if not others:
                continue
            cands = [(t[1], 0) for t in ts if t[0] == "fn"]
            if cands:
                fn.callees.update(g for g, _ in cands)
                fn.pending_arg_mut.append((cands, {"pos": [(True, others)], "kw": {}, "starstar": set()}, line))
            for t in ts:
                if t[0] == "ext" and inplace_name(t[1].split(".")[-1]):
                    self.mutation(others, line, "in-place function %s handed over as a callable next to a parameter-rooted argument" % t[1])
        # ---- argument mutation through package functions
        if target_fns:
            binding = self.call_binding(call)
            if any(r for _s, r in binding["pos"]) or any(binding["kw"].values()) or binding["starstar"]:
                fn.pending_arg_mut.append((target_fns, binding, line))
        # ---- star-args / consumers of sets
        if isinstance(f, ast.Attribute) and f.attr in ("union", "intersection", "difference", "symmetric_difference",
                                                       "issubset", "issuperset", "isdisjoint", "add", "discard",
                                                       "update", "remove", "copy"):
            self.mark_set_ok(f.value)
            for a in call.args:
                self.mark_set_ok(a)

    def dynamic_names(self, e):
        """the attribute names a dynamic getattr may look up: a string constant, or a parameter of a PRIVATE function
        all of whose call sites in the package pass a string constant; None = unknown (any method)."""
        if isinstance(e, ast.Constant) and isinstance(e.value, str):
            return {e.value}
        fn = self.fn
        if not (isinstance(e, ast.Name) and fn.kind == "function" and e.id in fn.params):
            return None
        if not (fn.simple.startswith("_") and not fn.simple.startswith("__")):
            return None              # a public function can be called with any name from outside
        for n in self.walk_scope(self.body_nodes()):
            if isinstance(n, ast.Name) and n.id == e.id and isinstance(n.ctx, (ast.Store, ast.Del)):
                return None          # the parameter is re-bound in the body
        sites = self.tr.call_sites.get(fn.simple, [])
        if not sites:
            return None
        idx = fn.params.index(e.id)
        out = set()
        for c in sites:
            if any(isinstance(a, ast.Starred) for a in c.args[:idx + 1]) or any(k.arg is None for k in c.keywords):
                return None
            arg = None
            for k in c.keywords:
                if k.arg == e.id:
                    arg = k.value
            if arg is None:
                off = 1 if (fn.cls is not None and not fn.is_static and isinstance(c.func, ast.Attribute)) else 0
                j = idx - off
                if 0 <= j < len(c.args):
                    arg = c.args[j]
            if not (isinstance(arg, ast.Constant) and isinstance(arg.value, str)):
                return None
            out.add(arg.value)
        return out

    def ext_call(self, dotted, call):
        """call of an external function: in-place functions (name ends with _) mutate their arguments."""
        last = dotted.split(".")[-1]
        if dotted in ("numpy.ndarray", "numpy.recarray") or last in ("empty", "empty_like"):
            self.fn.add(U("uninitialised-memory"), call.lineno, dotted + "(...) allocates uninitialised memory")
        if dotted.startswith("torch.") and (last == "Tensor" or last.endswith("Tensor")) and last != "as_tensor":
            sizes = [a for a in call.args if isinstance(a, ast.Constant) and isinstance(a.value, int) and not isinstance(a.value, bool)]
            if sizes or len(call.args) >= 2 or (not call.args and not call.keywords and last != "Tensor"):
                self.fn.add(U("uninitialised-memory"), call.lineno, dotted + "(<sizes>) allocates uninitialised memory")
        if (last.endswith("_") and not last.endswith("__")) or last in EXT_MUTATORS:
            self.mutation(self.args_roots(call), call.lineno, "in-place function %s on a parameter" % dotted)
        if (dotted in FILE_READERS or last == "open") and call.args and self.fixed_path(call.args[0]):
            self.fn.add("Environ", call.lineno, "%s reads a path that is fixed in the source, not named by the caller" % dotted)

    def fixed_path(self, e):
        """a path expression built only from string constants, module-level names and imported modules (no local / parameter
        / attribute of a local object takes part): the location is not an input of the operation."""
        has_fixed = False
        for n in ast.walk(e):
            if isinstance(n, ast.Constant) and isinstance(n.value, str) and n.value:
                has_fixed = True
            elif isinstance(n, ast.Name):
                if n.id in self.locals:
                    return False
                if n.id in self.m.globals:
                    has_fixed = True
                elif n.id == "__file__":
                    return False         # a data file shipped with the package is part of the program
        return has_fixed

    def method_call(self, call, f, target_fns):
        fn, tr = self.fn, self.tr
        line = call.lineno
        m = f.attr
        recv = f.value
        # super().m(...)
        if isinstance(recv, ast.Call) and isinstance(recv.func, ast.Name) and recv.func.id == "super" and fn.cls is not None:
            anc, ok = tr.ancestors(fn.cls)
            found = [g for a in anc for g in a.methods.get(m, [])]
            multi = sum(1 for k, _ in fn.cls.bases if k == "pkg") > 1
            if ok and not multi:
                fn.callees.update(found)
                target_fns.extend((g, 0 if g.is_static else 1) for g in found)
            else:
                # a base class is not understood (or multiple package bases): fall back to every method of that name,
                # unless all the non-package bases are whitelisted externals
                if not ok:
                    self.by_name_edges(m)
                    target_fns.extend((g, 0 if (g.is_static or g.cls is None or g.parent is not None) else 1) for g in tr.by_name.get(m, []))
                else:
                    fn.callees.update(found)
                    target_fns.extend((g, 0 if g.is_static else 1) for g in found)
            f._inner = True      # do not add the by-name edges for this attribute again
            return
        cands = list(tr.by_name.get(m, []))
        target_fns.extend((g, 0 if (g.is_static or g.cls is None or g.parent is not None) else 1) for g in cands)
        # classes addressed as attributes  (module.Class(...))
        for c in tr.cls_by_name.get(m, []):
            self.constructor_edges(c, line)
        if m in RNG_METHODS:
            fn.add("RngTorch", line, "method ." + m + "()")
        if m in PARAMWRITE_METHODS:
            fn.add("ParamWrite", line, "method ." + m + "()")
        if m in MODULE_CAST_METHODS and "MODULE" in self.roots(recv):
            fn.add("ParamWrite", line, "nn.Module method .%s() rewrites the parameters of a network" % m)
        if m in RESEED_METHODS and not cands:
            fn.add("RngReseed", line, "method ." + m + "()")
        if m in UNINIT_METHODS and not cands:
            fn.add(U("uninitialised-memory"), line, "method ." + m + "() returns uninitialised memory")
        if m in STAT_METHODS and not cands:
            fn.add("Clock", line, "method ." + m + "() (file times)")
        if m in ENV_PATH_NAMES and not cands:
            fn.add("Environ", line, "method ." + m + "() (location taken from the process environment)")
        if m in ("read_text", "read_bytes", "open") and not cands and self.fixed_path(recv):
            fn.add("Environ", line, "method ." + m + "() reads a path that is fixed in the source, not named by the caller")
        if m in FILEWRITE_METHODS and not cands:
            fn.add("FileWrite", line, "method ." + m + "()")
        if (m.endswith("_") and not m.endswith("__")) or m in INPLACE_EXTRA:
            self.mutation(self.roots(recv), line, "in-place method .%s() on a parameter-rooted tensor" % m)
        if m == "pop" and self.is_set(recv):
            pass                 # flagged by the generic rule (recv is a set-typed expression not marked ok)
        named_recv = isinstance(recv, (ast.Name, ast.Attribute, ast.Subscript))   # stored callables live on named objects
        if not cands and not tr.cls_by_name.get(m):
            if m in tr.inst_attr_assigners and (named_recv or m not in tr.known_attrs):
                fn.callees.update(tr.inst_attr_assigners[m])
            elif m in tr.known_attrs:
                pass
            elif fn.module.relpath.replace(os.sep, "/").endswith("callbacks/liveplotting.py"):
                pass             # matplotlib figure / axes objects (whitelisted in liveplotting only)
            else:
                fn.add(U("method:" + m), line, "method of an object of unknown type")
        elif m in tr.inst_attr_assigners and named_recv:
            fn.callees.update(tr.inst_attr_assigners[m])


def collect_inst_attrs(tr):
    """attribute name -> functions that assign <obj>.<name> = <something> (stored callables)."""
    for f in tr.fns:
        if f.node is None or f.kind != "function":
            continue
        for n in ast.walk(f.node):
            if isinstance(n, ast.Assign):
                for t in n.targets:
                    if isinstance(t, ast.Attribute):
                        tr.inst_attr_assigners.setdefault(t.attr, set()).add(f)


# ------------------------------------------------------------------------------- output
def coq_string(s):
    return '"' + s.replace('"', '""') + '"'


def atom_coq(a):
    if a.startswith("UnknownModule:"):
        return "UnknownModule " + coq_string(a.split(":", 1)[1])
    return a


def translate(repo, package="qucumber"):
    """returns a dict: functions, ops, param_attrs, digest."""
    tr = Translator(repo, package)
    tr.load()
    collect_inst_attrs(tr)
    tr.analyse()
    ops = tr.op_classes()
    funcs = []
    for f in tr.fns:
        funcs.append({"id": f.id, "name": f.qual, "file": f.module.relpath, "line": getattr(f.node, "lineno", 0) if f.node is not None else 0,
                      "atoms": sorted(f.atoms), "reasons": dict(f.atoms),
                      "callees": sorted(g.id for g in f.callees), "mutates_args": sorted(f.mutated_roots)})
    return {"functions": funcs, "ops": {k: [f.id for f in v] for k, v in ops.items()},
            "param_attrs": sorted(tr.param_attrs), "digest": tr.digest.hexdigest(), "repo": repo}


OPCLASS_COQ = {"seed": "OSeed", "init": "OInit", "load": "OLoad", "fit": "OFit", "sample": "OSample",
               "statistics": "OStatistics", "observable": "OObservable", "metric": "OMetric", "rotation": "ORotation",
               "save": "OSave", "gradient": "OGradient", "eval": "OEval", "kernel": "OKernel", "data": "OData",
               "other": "OOther"}
READ_ONLY = ["sample", "statistics", "observable", "metric", "rotation", "save", "gradient", "eval", "kernel", "data", "other"]
WRITERS = ["seed", "init", "load", "fit"]


def render_coq(model):
    out = []
    out.append("(* GENERATED by harness/translate_effects.py from %s/qucumber — do not edit.\n   source digest %s *)" % (model["repo"], model["digest"]))
    out.append("From Coq Require Import List PArith.")
    out.append("From QModel Require Import Effects.")
    out.append("Import ListNotations.")
    out.append("Local Open Scope name_scope.")
    out.append("Local Open Scope positive_scope.")
    out.append("")
    chunks = []
    fs = model["functions"]
    for ci in range(0, len(fs), 40):
        name = "table_%d" % (ci // 40)
        chunks.append(name)
        rows = []
        for f in fs[ci:ci + 40]:
            rows.append("  mkfn %d %s [%s] [%s]" % (f["id"], coq_string(f["name"]),
                                                   "; ".join(atom_coq(a) for a in f["atoms"]),
                                                   "; ".join(str(c) for c in f["callees"])))
        out.append("Definition %s : list fn := [\n%s\n]." % (name, ";\n".join(rows)))
    out.append("Definition table : list fn := %s." % (" ++ ".join(chunks) if chunks else "[]"))
    out.append("")
    for k in OPCLASS_COQ:
        out.append("Definition ops_%s : list positive := [%s]." % (k, "; ".join(str(i) for i in model["ops"][k])))
    out.append("Definition ops_read_only : list positive := %s." % " ++ ".join("ops_" + k for k in READ_ONLY))
    out.append("Definition ops_writers : list positive := %s." % " ++ ".join("ops_" + k for k in WRITERS))
    out.append("Definition ops_public : list positive := ops_writers ++ ops_read_only.")
    out.append("Definition ops_unseeded : list positive := %s ++ ops_read_only." % " ++ ".join("ops_" + k for k in WRITERS if k != "seed"))
    out.append("Definition ops_by_class : list (opclass * list positive) := [%s]." %
               "; ".join("(%s, ops_%s)" % (c, k) for k, c in OPCLASS_COQ.items()))
    out.append("Definition source_digest : name := %s." % coq_string(model["digest"]))
    out.append("")
    return "\n".join(out)


# ------------------------------------------------------------------------------- python-side closure (for reports)
def closure(model, root):
    """ids reachable from root (python mirror of Effects.reach; only used for reports / predictions)."""
    by_id = {f["id"]: f for f in model["functions"]}
    seen, stack, parent = {root}, [root], {root: None}
    while stack:
        x = stack.pop()
        for y in by_id[x]["callees"]:
            if y not in seen:
                seen.add(y)
                parent[y] = x
                stack.append(y)
    return seen, parent


def closure_atoms(model, root):
    by_id = {f["id"]: f for f in model["functions"]}
    seen, _ = closure(model, root)
    out = set()
    for x in seen:
        out.update(by_id[x]["atoms"])
    return out


def explain(model, root, pred):
    """first (path, atom, reason) for an atom satisfying pred reachable from root."""
    by_id = {f["id"]: f for f in model["functions"]}
    seen, parent = closure(model, root)
    for x in sorted(seen):
        for a in by_id[x]["atoms"]:
            if pred(a):
                path = []
                y = x
                while y is not None:
                    path.append(by_id[y]["name"])
                    y = parent[y]
                return {"root": by_id[root]["name"], "path": path[::-1], "atom": a, "where": by_id[x]["reasons"].get(a)}
    return None


FOREIGN = ("RngNumpy", "RngPython", "Clock", "Environ", "SetIteration")


def is_foreign(a):
    return a in FOREIGN or a.startswith("UnknownModule:")


def is_param_write(a):
    return a == "ParamWrite" or a.startswith("UnknownModule:")


def violations(model):
    """python mirror of the theorems of props/C14.v; returns a list of explanations (empty = theorems should hold)."""
    out = []
    for k, ids in model["ops"].items():
        for i in ids:
            e = explain(model, i, is_foreign)
            if e:
                e["class"] = k
                e["theorem"] = "no foreign source"
                out.append(e)
            if k != "seed":
                e = explain(model, i, lambda a: a == "RngReseed")
                if e:
                    e["class"] = k
                    e["theorem"] = "only the seeding operation re-seeds the torch generator"
                    out.append(e)
            if k in READ_ONLY:
                e = explain(model, i, is_param_write)
                if e:
                    e["class"] = k
                    e["theorem"] = "read-only operation writes no parameter"
                    out.append(e)
    return out


if __name__ == "__main__":
    repo = sys.argv[1] if len(sys.argv) > 1 else "/repo"
    mdl = translate(repo)
    if "--coq" in sys.argv:
        sys.stdout.write(render_coq(mdl))
    else:
        for f in mdl["functions"]:
            print(f["id"], f["name"], f["atoms"], f["callees"] if "--edges" in sys.argv else len(f["callees"]))
        print("param attrs:", mdl["param_attrs"])
        for k, v in mdl["ops"].items():
            print(k, len(v))
        seen = set()
        for v in violations(mdl):
            key = (v["atom"], v["where"])
            if key in seen:
                continue
            seen.add(key)
            print("VIOLATION", json.dumps(v))
