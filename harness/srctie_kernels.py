"""srctie_kernels.py — the kernel table of the source-translation tie (see srctie.py).

Each entry names ONE scalar / decision kernel of /repo's source and the model function it must equal:
  file, func      where the kernel lives (qualified name inside the file)
  kind            "function" (whole body), "local" (value of local variable `target` at its last assignment),
                  "guard" (the function is `if <test>: ...` and nothing else; the kernel is <test>),
                  "range" (bounds of the `for <loop_var> in [wrapper(]range(lo, hi)[, ...)]` loop)
  inputs          (python name, coq name, type) free variables of the kernel
  atoms           (source template with $holes, coq term with $holes, type): the ONLY way attribute reads,
                  calls and subscripts enter a kernel; holes are integer expressions
  coq_params      binder list of the generated definition; thm_params / hyps / gen_args / model: the theorem
                  forall thm_params, hyps -> gen_<name> gen_args = model
  unfold          model-side constants the proof unfolds
"""
Z, F, OF, B, OZ = "Z", "F", "OF", "B", "OZ"


def register(kernel):
    # ------------------------------------------------------------------ C13: streaming statistics
    kernel("C13", name="update_statistics", file="qucumber/observables/utils.py", func="_update_statistics",
           inputs=[("avg_a", "avg_a", F), ("var_a", "var_a", OF), ("len_a", "len_a", Z),
                   ("avg_b", "avg_b", F), ("var_b", "var_b", OF), ("len_b", "len_b", Z)],
           coq_params=[("avg_a", "R"), ("var_a", "option R"), ("len_a", "Z"), ("avg_b", "R"), ("var_b", "option R"), ("len_b", "Z")],
           result=(F, OF, Z),
           thm_params=[("avg_a", "R"), ("var_a", "option R"), ("len_a", "nat"), ("avg_b", "R"), ("var_b", "option R"), ("len_b", "nat")],
           gen_args="avg_a var_a (Z.of_nat len_a) avg_b var_b (Z.of_nat len_b)",
           model="(let '(m, v, n) := update_statistics ROps (avg_a, var_a, len_a) (avg_b, var_b, len_b) in (m, v, Z.of_nat n))",
           model_name="Stats.update_statistics", imports=["Stats"], unfold="update_statistics scaled_var nofnat",
           cor_imports=["StatsR"],
           corollaries=[("merge_is_one_pass",
                         "forall a b : list R, (a <> [] \\/ b <> []) -> "
                         "GEN (mean ROps a) (variance ROps a) (Z.of_nat (length a)) (mean ROps b) (variance ROps b) (Z.of_nat (length b)) = "
                         "(mean ROps (a ++ b), variance ROps (a ++ b), Z.of_nat (length (a ++ b)))",
                         "intros a b H; rewrite TIE; change (mean ROps a, variance ROps a, length a) with (stats ROps a); "
                         "change (mean ROps b, variance ROps b, length b) with (stats ROps b); rewrite (merge_is_concat a b H); reflexivity")])
    for cls, f in (("ObservableBase", "qucumber/observables/observable.py"), ("System", "qucumber/observables/system.py")):
        common = dict(file=f, func=cls + ".statistics", kind="local",
                      inputs=[("initial_state", "init_len", OZ), ("num_chains", "num_chains", Z), ("num_samples", "num_samples", Z),
                              ("burn_in", "burn_in", Z), ("steps", "steps", Z)],
                      len_of=["initial_state"], imports=["Stats"])
        kernel("C13", name="num_chains_" + cls, target="num_chains",
               coq_params=[("init_len", "option Z"), ("num_chains", "Z"), ("num_samples", "Z")], result=Z,
               thm_params=[("init", "option nat"), ("nc", "nat"), ("ns", "nat")],
               gen_args="(option_map Z.of_nat init) (Z.of_nat nc) (Z.of_nat ns)",
               model="Z.of_nat (num_chains_eff init nc ns)", model_name="Stats.num_chains_eff", unfold="num_chains_eff option_map",
               grid=("list_prod ongrid (list_prod ngrid ngrid)", "fun x => Z.eqb (GEN (option_map Z.of_nat (fst x)) (Z.of_nat (fst (snd x))) (Z.of_nat (snd (snd x)))) "
                     "(Z.of_nat (num_chains_eff (fst x) (fst (snd x)) (snd (snd x))))"), **common)
        kernel("C13", name="num_time_steps_" + cls, target="num_time_steps",
               coq_params=[("init_len", "option Z"), ("num_chains", "Z"), ("num_samples", "Z")], result=Z,
               thm_params=[("init", "option nat"), ("nc", "nat"), ("ns", "nat")],
               hyps=["(0 < num_chains_eff init nc ns)%nat"],
               gen_args="(option_map Z.of_nat init) (Z.of_nat nc) (Z.of_nat ns)",
               model="Z.of_nat (num_draws ns (num_chains_eff init nc ns))", model_name="Stats.num_draws",
               tactic="intros init nc ns H; revert H; cbv [GEN num_draws ceil_div num_chains_eff option_map pyceil_div]; "
                      "tie_split; intros; tie_zarith", **common)
        kernel("C13", name="num_gibbs_steps_" + cls, target="num_gibbs_steps", loop_vars={"i": ("i", Z)},
               coq_params=[("burn_in", "Z"), ("steps", "Z"), ("i", "Z")], result=Z,
               thm_params=[("burn_in", "nat"), ("steps", "nat"), ("i", "nat")],
               gen_args="(Z.of_nat burn_in) (Z.of_nat steps) (Z.of_nat i)",
               model="Z.of_nat (k_at burn_in steps i)", model_name="Stats.k_at", unfold="k_at",
               grid=("list_prod ngrid (list_prod ngrid ngrid)", "fun x => Z.eqb (GEN (Z.of_nat (fst x)) (Z.of_nat (fst (snd x))) (Z.of_nat (snd (snd x)))) "
                     "(Z.of_nat (k_at (fst x) (fst (snd x)) (snd (snd x))))"), **common)

    # ------------------------------------------------------------------ C17: periodic callbacks
    for cls, f in (("MetricEvaluator", "qucumber/callbacks/metric_evaluator.py"),
                   ("ObservableEvaluator", "qucumber/callbacks/observable_evaluator.py"),
                   ("ModelSaver", "qucumber/callbacks/model_saver.py"),
                   ("Logger", "qucumber/callbacks/logger.py")):
        kernel("C17", name="period_gate_" + cls, file=f, func=cls + ".on_epoch_end", kind="guard",
               inputs=[("epoch", "epoch", Z)], atoms=[("self.period", "period", Z)],
               coq_params=[("epoch", "Z"), ("period", "Z")], result=B,
               thm_params=[("epoch", "Z"), ("period", "Z")], gen_args="epoch period",
               model="fires period epoch", model_name="Callbacks.fires", imports=["Callbacks"], unfold="fires",
               grid=("list_prod zgrid zgrid", "fun ep => Bool.eqb (GEN (fst ep) (snd ep)) (fires (snd ep) (fst ep))"),
               cor_imports=["CallbacksT"],
               corollaries=[("period_gate_%s_iff_multiple" % cls,
                             "forall epoch period : Z, (0 < period)%Z -> (GEN epoch period = true <-> (period | epoch)%Z)",
                             "intros epoch period H; rewrite TIE; apply fires_divide; exact H")])
    for cls, f in (("MetricEvaluator", "qucumber/callbacks/metric_evaluator.py"),
                   ("ObservableEvaluator", "qucumber/callbacks/observable_evaluator.py")):
        kernel("C17", name="get_value_" + cls, file=f, func=cls + ".get_value",
               inputs=[("index", "index", OZ)], unused_params=["name"],
               atoms=[("self.past_values[$i][-1][name]", "(sel $i)", "Val")],
               coq_params=[("Val", "Type"), ("sel", "Z -> Val"), ("index", "option Z")], result="Val",
               thm_params=[("V", "Type"), ("n", "name"), ("index", "option Z"), ("ev", "evaluator V")],
               gen_args="(result V) (fun i => ev_get_value n (Some i) ev) index",
               model="ev_get_value n index ev", model_name="Callbacks.ev_get_value (index defaulting)", imports=["Callbacks"],
               tactic="intros; cbv [GEN]; tie_split; try reflexivity")

    # ------------------------------------------------------------------ C18: early stopping
    es = dict(file="qucumber/callbacks/early_stopping.py", imports=["Callbacks"])
    getters = [("self.value_getter(self.quantity_name, $i)", "(getv (Some $i))", F),
               ("self.value_getter(self.quantity_name)", "(getv None)", F),
               ("self.variance_getter(self.quantity_name, $i)", "(getvar (Some $i))", F),
               ("self.patience", "patience", Z)]
    gp = [("getv", "option Z -> R"), ("getvar", "option Z -> R"), ("patience", "Z")]
    tp = [("getv", "option Z -> R"), ("getvar", "option Z -> R"), ("p", "nat")]
    back = "(Some (- Z.of_nat p - 1)%Z)"
    for nm, crit in (("_relative_change", "Relative"), ("_absolute_change", "Absolute"), ("_variance_scaled_abs_change", "Variance")):
        cors = []
        if crit == "Relative":
            cors = [("relative_rule_without_division",
                     "forall (getv getvar : option Z -> R) (p : nat) (tol : R), getv %s <> 0%%R -> "
                     "(GEN getv getvar (Z.of_nat p) < tol <-> Rabs (getv %s - getv None) < tol * Rabs (getv %s))%%R" % (back, back, back),
                     "intros getv getvar p tol H; rewrite TIE; exact (relative_rule_no_division (getv %s) (getv None) tol H)" % back)]
        if crit == "Variance":
            cors = [("variance_rule_without_division",
                     "forall (getv getvar : option Z -> R) (p : nat) (tol : R), (0 < getvar %s)%%R -> "
                     "(GEN getv getvar (Z.of_nat p) < tol <-> Rabs (getv %s - getv None) < tol * sqrt (getvar %s))%%R" % (back, back, back),
                     "intros getv getvar p tol H; rewrite TIE; exact (variance_rule_no_division (getv %s) (getv None) (getvar %s) tol H)" % (back, back))]
        kernel("C18", name="deviation" + nm, func="EarlyStopping." + nm, inputs=[], atoms=getters, coq_params=gp, result=F,
               corollaries=cors, cor_imports=["CallbacksT"],
               thm_params=tp, gen_args="getv getvar (Z.of_nat p)",
               model="es_deviation ROps %s (getv %s) (getv None) (getvar %s)" % (crit, back, back),
               model_name="Callbacks.es_deviation " + crit, unfold="es_deviation", **es)
    kernel("C18", name="on_epoch_end", func="EarlyStopping.on_epoch_end",
           inputs=[("epoch", "epoch", Z), ("stop", "stop0", B), ("last", "last0", OZ)], unused_params=["nn_state"],
           atoms=[("self.period", "period", Z), ("len(self.evaluator_callback)", "len_ev", Z), ("self.patience", "patience", Z),
                  ("self.deviation()", "dev", F), ("self.tolerance", "tol", F)],
           outputs=["stop", "last"], outputs_pat=[("nn_state.stop_training", "stop"), ("self.last_epoch", "last")],
           coq_params=[("stop0", "bool"), ("last0", "option Z"), ("epoch", "Z"), ("period", "Z"), ("len_ev", "Z"), ("patience", "Z"), ("dev", "R"), ("tol", "R")],
           result=(B, OZ),
           thm_params=[("V", "Type"), ("value_of", "V -> result R"), ("variance_of", "V -> result R"),
                       ("st", "stopper R"), ("ev", "evaluator V"), ("e", "Z"), ("d", "R"), ("stop0", "bool")],
           hyps=["es_current_deviation ROps value_of variance_of st ev = Ok d"],
           gen_args="stop0 (st_last_epoch st) e (st_period st) (Z.of_nat (ev_len ev)) (Z.of_nat (st_patience st)) d (st_tol st)",
           model="match es_on_epoch_end ROps value_of variance_of st ev e with Ok (b, st') => (orb stop0 b, st_last_epoch st') | Err _ => (true, None) end",
           model_name="Callbacks.es_on_epoch_end",
           tactic="intros V value_of variance_of st ev e d stop0 H; cbv [GEN es_on_epoch_end fires bind]; rewrite H; "
                  "cbv [Rltb]; cbn [nltb ROps]; destruct stop0; tie_split; cbn [st_last_epoch orb]; tie_close", **es)

    # ------------------------------------------------------------------ C12 / C07: the arithmetic of fit
    fit = dict(file="qucumber/nn_states/neural_state.py", func="NeuralStateBase.fit")
    for pid in ("C12", "C07"):
        kernel(pid, name="num_batches", kind="local", target="num_batches",
               inputs=[("pos_batch_size", "pos_bs", Z)], atoms=[("train_samples.shape[0]", "N", Z), ("len(train_samples)", "N", Z)],
               coq_params=[("N", "Z"), ("pos_bs", "Z")], result=Z,
               thm_params=[("N", "nat"), ("bs", "nat")], hyps=["(0 < bs)%nat"], gen_args="(Z.of_nat N) (Z.of_nat bs)",
               model="Z.of_nat (num_batches N bs)", model_name="Protocol.num_batches", imports=["Protocol"],
               grid=("list_prod ngrid (tl ngrid)", "fun nb => Z.eqb (GEN (Z.of_nat (fst nb)) (Z.of_nat (snd nb))) (Z.of_nat (num_batches (fst nb) (snd nb)))"),
               tactic="intros N bs H; cbv [GEN num_batches pyceil_div]; tie_zarith",
               cor_imports=["ProtocolT"],
               corollaries=[("num_batches_covers_the_data",
                             "forall N bs : nat, (0 < bs)%nat -> "
                             "(Z.of_nat N <= GEN (Z.of_nat N) (Z.of_nat bs) * Z.of_nat bs < Z.of_nat N + Z.of_nat bs)%Z",
                             "intros N bs H; rewrite (TIE N bs H); destruct (num_batches_is_ceiling N bs H) as [A B]; lia")], **fit)
    kernel("C12", name="epoch_range", kind="range", loop_var="ep",
           inputs=[("starting_epoch", "start", Z), ("epochs", "epochs", Z)],
           coq_params=[("start", "Z"), ("epochs", "Z")], result=(Z, Z),
           thm_params=[("start", "Z"), ("epochs", "Z")], gen_args="start epochs",
           stmt="let '(lo, hi) := GEN start epochs in lo = start /\\ Z.to_nat (hi - lo) = num_epochs start epochs",
           model="", model_name="Protocol.num_epochs (first epoch, number of epochs)", imports=["Protocol"],
           tactic="intros start epochs; cbv [GEN num_epochs]; split; [reflexivity | f_equal; lia]", **fit)
    kernel("C07", name="default_neg_batch_size", kind="local", target="neg_batch_size",
           inputs=[("neg_batch_size", "neg", OZ), ("pos_batch_size", "pos_bs", Z)],
           coq_params=[("neg", "option Z"), ("pos_bs", "Z")], result=Z,
           thm_params=[("neg", "option nat"), ("bs", "nat")], gen_args="(option_map Z.of_nat neg) (Z.of_nat bs)",
           model="Z.of_nat (default_neg bs neg)", model_name="Batching.default_neg", imports=["Batching"],
           grid=("list_prod ongrid ngrid", "fun x => Z.eqb (GEN (option_map Z.of_nat (fst x)) (Z.of_nat (snd x))) (Z.of_nat (default_neg (snd x) (fst x)))"),
           tactic="intros neg bs; cbv [GEN default_neg option_map truthy_oz]; destruct neg as [[|k]|]; tie_split; try reflexivity; lia", **fit)

    # ------------------------------------------------------------------ C20: size defaults of the constructors
    kernel("C20", name="binary_num_hidden", file="qucumber/rbm/binary_rbm.py", func="BinaryRBM.__init__", kind="local", target="self_num_hidden",
           inputs=[("num_visible", "nv", Z), ("num_hidden", "nh", OZ)],
           outputs_pat=[("self.num_hidden", "self_num_hidden"), ("self.num_visible", "self_num_visible")],
           coq_params=[("nv", "Z"), ("nh", "option Z")], result=Z,
           thm_params=[("nv", "nat"), ("nh", "option nat")], gen_args="(Z.of_nat nv) (option_map Z.of_nat nh)",
           model="Z.of_nat (binary_nh nv nh)", model_name="Build.binary_nh", imports=["Build"],
           grid=("list_prod ngrid ongrid", "fun x => Z.eqb (GEN (Z.of_nat (fst x)) (option_map Z.of_nat (snd x))) (Z.of_nat (binary_nh (fst x) (snd x)))"),
           tactic="intros nv nh; cbv [GEN binary_nh option_map truthy_oz]; destruct nh as [[|k]|]; tie_split; try reflexivity; lia")
    for attr, arg in (("num_hidden", "nh"), ("num_aux", "na")):
        kernel("C20", name="purification_" + attr, file="qucumber/rbm/purification_rbm.py", func="PurificationRBM.__init__", kind="local", target="self_" + attr,
               inputs=[("num_visible", "nv", Z), ("num_hidden", "nh", OZ), ("num_aux", "na", OZ)],
               outputs_pat=[("self.num_hidden", "self_num_hidden"), ("self.num_aux", "self_num_aux"), ("self.num_visible", "self_num_visible")],
               coq_params=[("nv", "Z"), ("nh", "option Z"), ("na", "option Z")], result=Z,
               thm_params=[("nv", "nat"), ("nh", "option nat"), ("na", "option nat")],
               gen_args="(Z.of_nat nv) (option_map Z.of_nat nh) (option_map Z.of_nat na)",
               model="Z.of_nat (purif_size nv %s)" % arg, model_name="Build.purif_size", imports=["Build"],
               tactic="intros nv nh na; cbv [GEN purif_size option_map]; destruct %s; reflexivity" % arg)

    # ------------------------------------------------------------------ C19: the size limit of the basis enumeration
    kernel("C19", name="max_size", file="qucumber/nn_states/neural_state.py", func="NeuralStateBase.max_size",
           inputs=[], coq_params=[("u", "unit")], result=Z, thm_params=[("u", "unit")], gen_args="u", model="Z.of_nat max_size",
           model_name="Bits.max_size", imports=["Bits"], tactic="intros; reflexivity")
    kernel("C19", name="hilbert_space_refused", file="qucumber/nn_states/neural_state.py", func="NeuralStateBase.generate_hilbert_space", kind="raises",
           inputs=[("size", "size", OZ)], unused_params=["device"],
           atoms=[("self.rbm_am.num_visible", "nv", Z), ("self.num_visible", "nv", Z), ("self.max_size", "maxs", Z)],
           coq_params=[("size", "option Z"), ("nv", "Z"), ("maxs", "Z")], result=B,
           thm_params=[("size", "option nat"), ("nv", "nat")],
           gen_args="(option_map Z.of_nat size) (Z.of_nat nv) (Z.of_nat max_size)",
           model="match generate_hilbert_space (match size with Some (S k) => S k | _ => nv end) with None => true | Some _ => false end",
           model_name="Bits.generate_hilbert_space (refusal; default size = num_visible when size is None or 0)", imports=["Bits"],
           grid=("list_prod (None :: map Some [0; 1; 19; 20; 21; 25]%nat) [1; 19; 20; 21; 30]%nat", "fun x => Bool.eqb (GEN (option_map Z.of_nat (fst x)) (Z.of_nat (snd x)) (Z.of_nat max_size)) "
                 "(match generate_hilbert_space (match fst x with Some (S k) => S k | _ => snd x end) with None => true | Some _ => false end)"),
           tactic="intros size nv; cbv [GEN generate_hilbert_space option_map truthy_oz]; destruct size as [[|k]|]; cbn [Z.of_nat]; tie_split; tie_close",
           cor_imports=["BitsT"],
           corollaries=[("refused_iff_more_than_20_sites",
                         "forall nv : nat, GEN None (Z.of_nat nv) (Z.of_nat max_size) = true <-> (20 < nv)%nat",
                         "intros nv; change None with (option_map Z.of_nat (@None nat)); rewrite (TIE None nv); cbv [generate_hilbert_space max_size]; "
                         "destruct (Nat.ltb 20 nv) eqn:E; [apply Nat.ltb_lt in E | apply Nat.ltb_ge in E]; split; intros; try reflexivity; try discriminate; lia")])

    # ------------------------------------------------------------------ C12: the control skeleton of fit
    kernel("C12", name="fit_skeleton", kind="fit-skeleton", file="qucumber/nn_states/neural_state.py", func="NeuralStateBase.fit",
           inputs=[], coq_params=[], thm_params=[("inj", "injector"), ("sched", "bool"), ("start", "Z"), ("epochs", "Z"), ("nb", "nat"),
                                                   ("stop0", "bool"), ("ver0", "nat")],
           stmt="run_skel GEN inj sched start epochs nb stop0 ver0 = fit inj sched start epochs nb stop0 ver0",
           gen_args="", model="", model_name="Protocol.fit (through Skeleton.run_skel: the extracted control skeleton, interpreted, is the protocol machine)",
           imports=["Protocol", "Skeleton"], cor_imports=["SkeletonT", "ProtocolT"],
           tactic="apply run_skel_of_eqb; vm_compute; reflexivity",
           corollaries=[("runs_of_the_extracted_fit_skeleton_follow_the_event_grammar",
                         "forall inj sched start epochs nb ver0, grammar start epochs nb (ctrace (run_skel GEN inj sched start epochs nb false ver0))",
                         "intros; rewrite TIE; apply trace_grammar"),
                        ("extracted_fit_skeleton_emits_nothing_when_the_flag_is_already_up",
                         "forall inj sched start epochs nb ver0, run_skel GEN inj sched start epochs nb true ver0 = mkst [] true ver0",
                         "intros; rewrite TIE; apply prestopped"),
                        ("extracted_fit_skeleton_without_stop_request_runs_every_epoch_and_batch",
                         "forall inj, (forall h, inj h = false) -> forall sched start epochs nb ver0, "
                         "ctrace (run_skel GEN inj sched start epochs nb false ver0) = TrainStart :: all_epochs_vis nb start (num_epochs start epochs) ++ [TrainEnd]",
                         "intros inj H sched start epochs nb ver0; rewrite TIE; apply no_stop_visible_trace; exact H")])

    # ------------------------------------------------------------------ C01 / C05: the row-wise formulas of the networks and states
    VT = "intros; cbv [GEN %s half two]; tie_vec_norm; tie_vec_close"
    brbm_atoms = [("self.visible_bias", "(bb r)", "V"), ("self.weights", "(bW r)", "M"), ("self.hidden_bias", "(bc r)", "V")]
    bfile = dict(file="qucumber/rbm/binary_rbm.py", vec=True, imports=["Bits", "Rbm"], ncols="(length (bb r))")
    bparams = [("r", "(@brbm R)"), ("v", "bits")]
    for pid in ("C01", "C05"):
        kernel(pid, name="binary_effective_energy", func="BinaryRBM.effective_energy", inputs=[("v", "v", "BV")], atoms=brbm_atoms,
               coq_params=bparams, result=F, thm_params=bparams, gen_args="r v", model="b_eff_energy ROps r v",
               model_name="Rbm.b_eff_energy", tactic=VT % "b_eff_energy", **bfile)
    kernel("C05", name="binary_prob_h_given_v", func="BinaryRBM.prob_h_given_v", inputs=[("v", "v", "BV")], unused_params=["out"], atoms=brbm_atoms,
           coq_params=bparams, result="V", thm_params=bparams, gen_args="r v", model="b_prob_h_given_v ROps r v",
           model_name="Rbm.b_prob_h_given_v", tactic=VT % "b_prob_h_given_v", **bfile)
    kernel("C05", name="binary_prob_v_given_h", func="BinaryRBM.prob_v_given_h", inputs=[("h", "v", "BV")], unused_params=["out"], atoms=brbm_atoms,
           coq_params=bparams, result="V", thm_params=bparams, gen_args="r v", model="b_prob_v_given_h ROps r v",
           model_name="Rbm.b_prob_v_given_h", tactic=VT % "b_prob_v_given_h", **bfile)
    # PurificationRBM
    prbm_atoms = [("self.visible_bias", "(pb r)", "V"), ("self.weights_W", "(pW r)", "M"), ("self.weights_U", "(pU r)", "M"),
                  ("self.hidden_bias", "(pc r)", "V"), ("self.aux_bias", "(pd r)", "V"),
                  ("torch.einsum('...v,av,...a->...', $v, self.weights_U.data, $a)", "(dotb ROps (matvecb ROps (pU r) $v) $a)", F)]
    pfile = dict(file="qucumber/rbm/purification_rbm.py", vec=True, imports=["Bits", "Rbm"], ncols="(length (pb r))")
    pparams = [("r", "(@prbm R)"), ("v", "bits")]
    for pid in ("C02", "C05"):
        kernel(pid, name="purification_effective_energy", func="PurificationRBM.effective_energy",
               inputs=[("v", "v", "BV"), ("a", "a", "OBV")], atoms=prbm_atoms,
               coq_params=[("r", "(@prbm R)"), ("v", "bits"), ("a", "option bits")], result=F,
               thm_params=[("r", "(@prbm R)"), ("v", "bits"), ("a", "option bits")], gen_args="r v a",
               model="match a with Some a' => p_eff_energy_va ROps r v a' | None => p_eff_energy ROps r v end",
               model_name="Rbm.p_eff_energy / p_eff_energy_va", tactic="intros r v a; cbv [GEN p_eff_energy p_eff_energy_va]; destruct a; tie_vec_norm; tie_vec_close", **pfile)
    for nm, mdl in (("prob_h_given_v", "p_prob_h_given_v"), ("prob_a_given_v", "p_prob_a_given_v")):
        kernel("C05", name="purification_" + nm, func="PurificationRBM." + nm, inputs=[("v", "v", "BV")], unused_params=["out"], atoms=prbm_atoms,
               coq_params=pparams, result="V", thm_params=pparams, gen_args="r v", model="%s ROps r v" % mdl,
               model_name="Rbm." + mdl, tactic=VT % mdl, **pfile)
    kernel("C05", name="purification_prob_v_given_ha", func="PurificationRBM.prob_v_given_ha", inputs=[("h", "h", "BV"), ("a", "a", "BV")],
           unused_params=["out"], atoms=prbm_atoms, coq_params=[("r", "(@prbm R)"), ("h", "bits"), ("a", "bits")], result="V",
           thm_params=[("r", "(@prbm R)"), ("h", "bits"), ("a", "bits")], gen_args="r h a", model="p_prob_v_given_ha ROps r h a",
           model_name="Rbm.p_prob_v_given_ha", tactic=VT % "p_prob_v_given_ha", **pfile)
    # states
    wf = dict(vec=True, imports=["Bits", "Rbm", "States"])
    kernel("C01", strict=False, name="amplitude", file="qucumber/nn_states/wavefunction.py", func="WaveFunctionBase.amplitude", inputs=[("v", "v", "BV")],
           atoms=[("self.rbm_am.effective_energy($v)", "(b_eff_energy ROps am $v)", F)],
           coq_params=[("am", "(@brbm R)"), ("v", "bits")], result=F, thm_params=[("am", "(@brbm R)"), ("v", "bits")], gen_args="am v",
           model="amplitude ROps am v", model_name="States.amplitude", tactic=VT % "amplitude", **wf)
    kernel("C01", name="complex_phase", file="qucumber/nn_states/complex_wavefunction.py", func="ComplexWaveFunction.phase", inputs=[("v", "v", "BV")],
           atoms=[("self.rbm_ph.effective_energy($v)", "(b_eff_energy ROps ph $v)", F)],
           coq_params=[("ph", "(@brbm R)"), ("v", "bits")], result=F, thm_params=[("ph", "(@brbm R)"), ("v", "bits")], gen_args="ph v",
           model="cplx_phase ROps ph v", model_name="States.cplx_phase", tactic=VT % "cplx_phase", **wf)
    kernel("C01", strict=False, name="psi", file="qucumber/nn_states/wavefunction.py", func="WaveFunctionBase.psi", inputs=[("v", "v", "BV")],
           atoms=[("self.amplitude($v)", "(amplitude ROps am $v)", F), ("self.phase($v)", "(cplx_phase ROps ph $v)", F)],
           coq_params=[("am", "(@brbm R)"), ("ph", "(@brbm R)"), ("v", "bits")], result="C",
           thm_params=[("am", "(@brbm R)"), ("ph", "(@brbm R)"), ("v", "bits")], gen_args="am ph v",
           model="cplx_psi ROps am ph v", model_name="States.cplx_psi (psi = amplitude (cos, sin) phase, for the complex state's phase)",
           tactic=VT % "cplx_psi", cor_imports=["Born"],
           corollaries=[("born_rule_for_the_translated_psi",
                         "forall (am ph : @brbm R) (v : bits), let z := GEN am ph v in (fst z * fst z + snd z * snd z = probability ROps am v 1)%R",
                         "intros am ph v; rewrite TIE; exact (cplx_psi_sq am ph v)"),
                        ("modulus_of_the_translated_psi_ignores_the_phase_network",
                         "forall (am ph ph' : @brbm R) (v : bits), let z := GEN am ph v in let z' := GEN am ph' v in "
                         "(fst z * fst z + snd z * snd z = fst z' * fst z' + snd z' * snd z')%R",
                         "intros am ph ph' v; rewrite !TIE; exact (cplx_modulus_ignores_phase am ph ph' v)")], **wf)
    kernel("C01", name="probability", file="qucumber/nn_states/neural_state.py", func="NeuralStateBase.probability",
           inputs=[("v", "v", "BV"), ("Z", "Zn", F)],
           atoms=[("self.rbm_am.effective_energy($v)", "(b_eff_energy ROps am $v)", F)],
           coq_params=[("am", "(@brbm R)"), ("v", "bits"), ("Zn", "R")], result=F,
           thm_params=[("am", "(@brbm R)"), ("v", "bits"), ("Zn", "R")], gen_args="am v Zn",
           model="probability ROps am v Zn", model_name="States.probability", tactic=VT % "probability", **wf)

    # ------------------------------------------------------------------ C02: density-matrix elements
    dm = dict(file="qucumber/nn_states/density_matrix.py", vec=True, pairwise=True, imports=["Bits", "Rbm", "States"])
    kernel("C02", strict=False, name="rho", func="DensityMatrix.rho", inputs=[("v", "v", "BV"), ("vp", "vp", "OBV"), ("expand", "expand", B)],
           atoms=[("self.probability($v)", "(dm_probability ROps am $v (IZR 1))", F),
                  ("self.pi($v, $vp, expand=expand)", "(dm_pi ROps am ph $v $vp)", "C"),
                  ("self.rbm_am.gamma($v, $vp, eta=+1, expand=expand)", "(p_gamma ROps am true $v $vp)", F),
                  ("self.rbm_ph.gamma($v, $vp, eta=-1, expand=expand)", "(p_gamma ROps ph false $v $vp)", F)],
           coq_params=[("am", "(@prbm R)"), ("ph", "(@prbm R)"), ("v", "bits"), ("vp", "option bits"), ("expand", "bool")], result="C",
           thm_params=[("am", "(@prbm R)"), ("ph", "(@prbm R)"), ("v", "bits"), ("vp", "option bits"), ("expand", "bool")],
           gen_args="am ph v vp expand",
           model="match vp with Some vp' => dm_rho ROps am ph v vp' | None => if expand then dm_rho ROps am ph v v else dm_rho_diag ROps am v end",
           model_name="States.dm_rho / dm_rho_diag (vp=None: the diagonal shortcut when expand is False, else vp = v)",
           tactic="intros am ph v vp expand; cbv [GEN dm_rho dm_rho_diag]; destruct vp, expand; cbn [Bool.eqb andb negb]; tie_vec_norm; tie_vec_close", **dm)
    kernel("C02", strict=False, name="pi", func="DensityMatrix.pi", inputs=[("v", "v", "BV"), ("vp", "vp", "BV")], unused_params=["expand"],
           atoms=[("self.rbm_am.weights_U", "(pU am)", "M"), ("self.rbm_am.aux_bias", "(pd am)", "V"), ("self.rbm_ph.weights_U", "(pU ph)", "M")],
           coq_params=[("am", "(@prbm R)"), ("ph", "(@prbm R)"), ("v", "bits"), ("vp", "bits")], result="C",
           thm_params=[("am", "(@prbm R)"), ("ph", "(@prbm R)"), ("v", "bits"), ("vp", "bits")], gen_args="am ph v vp",
           model="dm_pi ROps am ph v vp", model_name="States.dm_pi",
           tactic="intros am ph v vp; cbv [GEN dm_pi pi_args]; "
                  "generalize (linearb ROps (pU am) (pd am) v) (linearb ROps (pU am) (pd am) vp) (matvecb ROps (pU ph) v) (matvecb ROps (pU ph) vp); "
                  "intros a b c d; apply (f_equal2 pair); "
                  "cbv [vadd vsub vscale vmul vaddc vatan2 half two pi_real1 pi_imag1]; cbn [nadd nsub nmul ndiv nopp nexp nln nsqrt ncos nsin natan2 n0 n1 ROps]; "
                  "replace (1 + 1)%R with 2%R by lra; tie_vec4 a b c d", **dm)
    kernel("C02", name="mixing_term", file="qucumber/rbm/purification_rbm.py", func="PurificationRBM.mixing_term", inputs=[("v", "v", "BV")], vec=True,
           atoms=[("self.weights_U", "(pU r)", "M"), ("self.aux_bias", "(pd r)", "V")], imports=["Bits", "Rbm"],
           coq_params=[("r", "(@prbm R)"), ("v", "bits")], result="V", thm_params=[("r", "(@prbm R)"), ("v", "bits")], gen_args="r v",
           model="linearb ROps (map (vscale ROps (1 / 2)) (pU r)) (pd r) v",
           model_name="F.linear(v, 0.5 U, d) (no separate model function; used by the gradient model)",
           tactic="intros; cbv [GEN]; tie_vec_norm; repeat f_equal; lra")
    kernel("C02", sum_all_ok=True, name="gamma", file="qucumber/rbm/purification_rbm.py", func="PurificationRBM.gamma", vec=True, pairwise=True,
           inputs=[("v", "v", "BV"), ("vp", "vp", "BV"), ("eta", "plus", B), ("expand", "expand", B)],
           atoms=[("np.sign(eta)", "(if plus then IZR 1 else IZR (-1))", F), ("v.dim() < 2 and vp.dim() < 2", "dim1", B),
                  ("self.visible_bias", "(pb r)", "V"), ("self.weights_W", "(pW r)", "M"), ("self.hidden_bias", "(pc r)", "V")],
           imports=["Bits", "Rbm"], ncols="(length (pb r))",
           coq_params=[("r", "(@prbm R)"), ("v", "bits"), ("vp", "bits"), ("plus", "bool"), ("expand", "bool"), ("dim1", "bool")], result=F,
           thm_params=[("r", "(@prbm R)"), ("v", "bits"), ("vp", "bits"), ("plus", "bool"), ("expand", "bool"), ("dim1", "bool")],
           hyps=["length v = length (pb r)", "length vp = length (pb r)"], gen_args="r v vp plus expand dim1",
           model="p_gamma ROps r plus v vp", model_name="Rbm.p_gamma (vector form and batched form)",
           tactic="intros r v vp plus expand dim1 Hv Hp; cbv [GEN p_gamma p_vis_term half two]; tie_vec_norm; "
                  "rewrite ?(dot_vadd_scale _ (pb r) v vp Hv Hp); destruct dim1, plus; lra")

    # ------------------------------------------------------------------ C03: per-sample energy gradients (reduce=False form)
    outer = ("torch.einsum('...j,...k->...jk', $p, $v)", "(outerb ROps $p $v)", "V")
    kernel("C03", name="binary_energy_gradient_per_sample", func="BinaryRBM.effective_energy_gradient", inputs=[("v", "v", "BV")],
           assume={"reduce": ("false", B)}, hole_types={"p": "V", "v": "BV"},
           atoms=[("self.prob_h_given_v($v)", "(b_prob_h_given_v ROps r $v)", "V"), outer],
           coq_params=bparams, result="V", thm_params=bparams, gen_args="r v", model="b_energy_grad ROps r v",
           model_name="Rbm.b_energy_grad (reduce=False: [W block row major; visible bias; hidden bias])",
           tactic="intros; cbv [GEN b_energy_grad]; cbn [concat]; rewrite ?app_nil_r, ?app_assoc; reflexivity", **bfile)
    kernel("C03", name="purification_energy_gradient_per_sample", func="PurificationRBM.effective_energy_gradient", inputs=[("v", "v", "BV")],
           assume={"reduce": ("false", B)}, hole_types={"p": "V", "v": "BV"},
           atoms=[("self.prob_h_given_v($v)", "(p_prob_h_given_v ROps r $v)", "V"), ("self.prob_a_given_v($v)", "(p_prob_a_given_v ROps r $v)", "V"), outer],
           coq_params=pparams, result="V", thm_params=pparams, gen_args="r v", model="p_energy_grad ROps r v",
           model_name="Rbm.p_energy_grad (reduce=False: [W; U; visible bias; hidden bias; aux bias])",
           tactic="intros; cbv [GEN p_energy_grad]; cbn [concat]; rewrite ?app_nil_r, ?app_assoc; reflexivity", **pfile)

    # ------------------------------------------------------------------ C05: data flow of the block-Gibbs loops
    kernel("C05", name="gibbs_loop_binary", kind="gibbs-skeleton", file="qucumber/rbm/binary_rbm.py", func="BinaryRBM.gibbs_steps",
           inputs=[], coq_params=[],
           thm_params=[("r", "(@brbm R)"), ("k", "nat"), ("v", "bits"), ("h0", "bits"), ("a0", "bits"), ("draws", "list bits")],
           stmt="run_gibbs (b_prob_h_given_v ROps r) (fun _ => []) (b_prob_v_given_h ROps r) (fun _ _ => []) GEN k v h0 a0 draws = b_gibbs_steps ROps r k v draws",
           gen_args="", model="", model_name="Gibbs.b_gibbs_steps (through GibbsSkel.run_gibbs: the extracted loop, interpreted on the recorded draws, is the sampler)",
           imports=["Bits", "Rbm", "Gibbs", "GibbsSkel"], cor_imports=["GibbsSkelT"],
           tactic="apply skeleton_b_is_sampler; vm_compute; reflexivity")
    kernel("C05", name="gibbs_loop_purification", kind="gibbs-skeleton", file="qucumber/rbm/purification_rbm.py", func="PurificationRBM.gibbs_steps",
           inputs=[], coq_params=[],
           thm_params=[("r", "(@prbm R)"), ("k", "nat"), ("v", "bits"), ("h0", "bits"), ("a0", "bits"), ("draws", "list bits")],
           stmt="run_gibbs (p_prob_h_given_v ROps r) (p_prob_a_given_v ROps r) (fun _ => []) (p_prob_v_given_ha ROps r) GEN k v h0 a0 draws = p_gibbs_steps ROps r k v draws",
           gen_args="", model="", model_name="Gibbs.p_gibbs_steps (through GibbsSkel.run_gibbs)",
           imports=["Bits", "Rbm", "Gibbs", "GibbsSkel"], cor_imports=["GibbsSkelT"],
           tactic="apply skeleton_p_is_sampler; vm_compute; reflexivity")

    # ------------------------------------------------------------------ C16: composite observables, per-sample value
    # an operand is a scalar or an observable (the constructors refuse anything else): lsc / rsc say which; lq / rq are the scalar
    # values, la / ra the per-sample values of the operand observables
    obsf = dict(file="qucumber/observables/observable.py", imports=[], unused_params=["nn_state", "samples"])
    kernel("C16", name="sum_apply", func="SumObservable.apply", inputs=[],
           atoms=[("self.left.apply(nn_state, samples)", "la", F), ("self.right.apply(nn_state, samples)", "ra", F),
                  ("isinstance(self.left, (float, int))", "lsc", B), ("isinstance(self.right, (float, int))", "rsc", B),
                  ("isinstance(self.left, ObservableBase)", "(negb lsc)", B), ("isinstance(self.right, ObservableBase)", "(negb rsc)", B),
                  ("self.left", "lq", F), ("self.right", "rq", F)],
           coq_params=[("lsc", "bool"), ("lq", "R"), ("la", "R"), ("rsc", "bool"), ("rq", "R"), ("ra", "R")], result=F,
           thm_params=[("lsc", "bool"), ("lq", "R"), ("la", "R"), ("rsc", "bool"), ("rq", "R"), ("ra", "R")],
           gen_args="lsc lq la rsc rq ra", model="((if lsc then lq else la) + (if rsc then rq else ra))%R",
           model_name="value of left operand + value of right operand, per sample (ObsExpr.evalpt (Add a b))",
           tactic="intros; cbv [GEN]; destruct lsc, rsc; cbn [negb]; lra", **obsf)
    kernel("C16", name="prod_apply", func="ProdObservable.apply", inputs=[],
           atoms=[("self.right.apply(nn_state, samples)", "ra", F), ("self.left", "lq", F)],
           coq_params=[("lq", "R"), ("ra", "R")], result=F, thm_params=[("lq", "R"), ("ra", "R")],
           gen_args="lq ra", model="(lq * ra)%R", model_name="scalar factor * value of the observable, per sample (ObsExpr.evalpt (Mul a b))",
           tactic="intros; cbv [GEN]; lra", **obsf)

    # ------------------------------------------------------------------ C08: the Z magnetisation and the spin convention
    kernel("C08", name="to_pm1", file="qucumber/observables/utils.py", func="to_pm1", vec=True, inputs=[("samples", "x", F)],
           coq_params=[("x", "R")], result=F, thm_params=[("x", "R")], gen_args="x", model="Observables.to_pm1 ROps x",
           model_name="Observables.to_pm1 (bit 0 -> -1, bit 1 -> +1)", imports=["Bits", "Observables"],
           tactic="intros; cbv [GEN Observables.to_pm1 two]; tie_vec_norm; lra")
    kernel("C08", name="sigma_z", file="qucumber/observables/pauli.py", func="SigmaZ.apply", vec=True, inputs=[("samples", "s", "BV")],
           unused_params=["nn_state"], hole_types={"x": F}, fresh_calls=["to_pm1"],
           atoms=[("to_pm1($x)", "(Observables.to_pm1 ROps $x)", F), ("self.absolute", "absolute", B)],
           coq_params=[("absolute", "bool"), ("s", "bits")], result=F, thm_params=[("absolute", "bool"), ("s", "bits")], gen_args="absolute s",
           model="sigma_z ROps absolute s", model_name="Observables.sigma_z", imports=["Bits", "Observables"],
           tactic="intros; cbv [GEN sigma_z finish]; destruct absolute; reflexivity")

    # ------------------------------------------------------------------ C10: the per-basis KL divergence
    kernel("C10", sum_all_ok=True, name="single_basis_KL", file="qucumber/utils/training_statistics.py", func="_single_basis_KL", vec=True,
           inputs=[("target_probs", "t", "V"), ("nn_probs", "q", "V")], hole_types={"x": "V"},
           atoms=[("probs_to_logits($x)", "(map (plogit ROps) $x)", "V")],
           coq_params=[("t", "list R"), ("q", "list R")], result=F, thm_params=[("t", "list R"), ("q", "list R")], gen_args="t q",
           model="single_basis_KL ROps t q", model_name="Metrics.single_basis_KL", imports=["Bits", "Metrics"],
           tactic="intros; cbv [GEN single_basis_KL]; rewrite !sum_vmul_dot, dot_self_map; reflexivity")

    # ------------------------------------------------------------------ C01 / C02: the partition function over a given space
    kernel("C01", name="binary_partition", func="BinaryRBM.partition", inputs=[("space", "space", "LBV")], hole_types={"s": "LBV"},
           atoms=[("self.effective_energy($s)", "(map (b_eff_energy ROps r) $s)", "V")],
           coq_params=[("r", "(@brbm R)"), ("space", "list bits")], result=F, thm_params=[("r", "(@brbm R)"), ("space", "list bits")],
           gen_args="r space", model="b_partition ROps r space", model_name="Rbm.b_partition",
           tactic="intros; cbv [GEN b_partition vopp]; tie_vec_norm; rewrite !map_map; reflexivity", **bfile)
    kernel("C02", name="purification_partition", func="PurificationRBM.partition", inputs=[("space", "space", "LBV")], hole_types={"s": "LBV"},
           atoms=[("self.effective_energy($s)", "(map (p_eff_energy ROps r) $s)", "V")],
           coq_params=[("r", "(@prbm R)"), ("space", "list bits")], result=F, thm_params=[("r", "(@prbm R)"), ("space", "list bits")],
           gen_args="r space", model="p_partition ROps r space", model_name="Rbm.p_partition",
           tactic="intros; cbv [GEN p_partition vopp]; tie_vec_norm; rewrite !map_map; reflexivity", **pfile)


    # ------------------------------------------------------------------ C15: the entrywise complex arithmetic of utils/cplx.py
    # elementwise reading (CplxTr): a complex tensor is read as one complex number (re, im); helpers are inlined from the current source
    cf = dict(cplx=True, file="qucumber/utils/cplx.py", imports=["CBase", "Cplx"], cor_imports=["CplxR"])
    CT = "intros; cbv [GEN %s fst snd]; cbn [nadd nsub nmul ndiv nopp nsqrt n0 n1 sqr ROps fst snd]; tie_cplx"
    one = [("x", "(R * R)%type")]
    two = [("x", "(R * R)%type"), ("y", "(R * R)%type")]
    kernel("C15", name="cplx_conj", func="conj", inputs=[("x", "x", "C")], coq_params=one, result="C", thm_params=one, gen_args="x",
           model="cconj ROps x", model_name="CBase.cconj (entry of Cplx.conj)", tactic=CT % "cconj",
           corollaries=[("conj_is_the_complex_conjugate", "forall x : (R * R)%type, GEN x = Coquelicot.Complex.Cconj x",
                         "intros x; rewrite TIE; exact (cconj_is_Cconj x)")], **cf)
    kernel("C15", name="cplx_scalar_mult", func="scalar_mult", inputs=[("x", "x", "C"), ("y", "y", "C")], assume={"out": ("None", "NoneT")},
           coq_params=two, result="C", thm_params=two, gen_args="x y",
           model="cmul ROps x y", model_name="CBase.cmul (entry of Cplx.scalar_mult, out=None path)", tactic=CT % "cmul",
           corollaries=[("scalar_mult_is_the_complex_product", "forall x y : (R * R)%type, GEN x y = Coquelicot.Complex.Cmult x y",
                         "intros x y; rewrite TIE; exact (cmul_is_Cmult x y)")], **cf)
    kernel("C15", name="cplx_elementwise_mult", func="elementwise_mult", inputs=[("x", "x", "C"), ("y", "y", "C")],
           coq_params=two, result="C", thm_params=two, gen_args="x y",
           model="cmul ROps x y", model_name="CBase.cmul (entry of Cplx.elementwise_mult)", tactic=CT % "cmul", **cf)
    kernel("C15", name="cplx_absolute_value", func="absolute_value", inputs=[("x", "x", "C")], coq_params=one, result=F, thm_params=one, gen_args="x",
           model="cabs ROps x", model_name="CBase.cabs (entry of Cplx.absolute_value)", tactic=CT % "cabs cnorm2 cmul cconj",
           corollaries=[("absolute_value_is_the_modulus", "forall x : (R * R)%type, GEN x = Coquelicot.Complex.Cmod x",
                         "intros x; rewrite TIE; exact (cabs_is_Cmod x)")], **cf)
    kernel("C15", name="cplx_inverse", func="inverse", inputs=[("z", "z", "C")], coq_params=[("z", "(R * R)%type")], result="C",
           thm_params=[("z", "(R * R)%type")], gen_args="z",
           model="cinv ROps z", model_name="CBase.cinv (entry of Cplx.inverse)", tactic=CT % "cinv cnorm2 cmul cconj",
           corollaries=[("inverse_inverts_every_nonzero_number", "forall z : (R * R)%type, z <> Coquelicot.Complex.RtoC 0 -> Coquelicot.Complex.Cmult z (GEN z) = Coquelicot.Complex.RtoC 1",
                         "intros z Hz; rewrite TIE; exact (cinv_inverts z Hz)")], **cf)
    kernel("C15", name="cplx_scalar_divide", func="scalar_divide", inputs=[("x", "x", "C"), ("y", "y", "C")],
           coq_params=two, result="C", thm_params=two, gen_args="x y",
           model="cdiv ROps x y", model_name="CBase.cdiv (entry of Cplx.scalar_divide)", tactic=CT % "cdiv cinv cnorm2 cmul cconj",
           corollaries=[("scalar_divide_is_the_complex_quotient", "forall x y : (R * R)%type, GEN x y = Coquelicot.Complex.Cdiv x y",
                         "intros x y; rewrite TIE; exact (cdiv_is_Cdiv x y)")], **cf)
    kernel("C15", name="cplx_elementwise_division_equal_shapes", func="elementwise_division", inputs=[("x", "x", "C"), ("y", "y", "C")],
           false_tests=["x.shape != y.shape"], coq_params=two, result="C", thm_params=two, gen_args="x y",
           model="cediv ROps x y", model_name="Cplx.cediv (entry of Cplx.elementwise_division at equal shapes)", tactic=CT % "cediv cabs cnorm2 cmul cconj",
           corollaries=[("elementwise_division_divides", "forall x y : (R * R)%type, y <> Coquelicot.Complex.RtoC 0 -> Coquelicot.Complex.Cmult (GEN x y) y = x",
                         "intros x y Hy; rewrite TIE; exact (cediv_divides x y Hy)")], **cf)

    # ------------------------------------------------------------------ C04: the index arithmetic of _kron_mult
    # loop-carried l, r and the loop variables k, i are inputs (the theorems quantify over them); n[s] is the matrix size of site s
    km = dict(file="qucumber/utils/unitaries.py", func="_kron_mult", kind="local", inputs=[], atoms=[("n[s]", "ns", Z)],
              carried={"l": ("l", Z), "r": ("r", Z)}, loop_vars={"k": ("k", Z), "i": ("i", Z)}, imports=["KronIndex"], pin_skeleton=True)
    kernel("C04", name="kron_slice", target="slc", coq_params=[("ns", "Z"), ("r", "Z"), ("k", "Z"), ("i", "Z")], result=(Z, Z, Z),
           thm_params=[("r", "nat"), ("k", "nat"), ("i", "nat")], hyps=["(i < r)%nat"], gen_args="2%Z (Z.of_nat r) (Z.of_nat k) (Z.of_nat i)", model="",
           stmt="let '(start, stop, step) := GEN 2%Z (Z.of_nat r) (Z.of_nat k) (Z.of_nat i) in "
                "start = Z.of_nat (k * 2 * r + i) /\\ step = Z.of_nat r /\\ forall j : Z, (0 <= j)%Z -> ((start + j * step < stop)%Z <-> (j < 2)%Z)",
           model_name="KronIndex.inner_loop / apply2 (the slice selects exactly the positions p = k*2*r+i and p + r, for every r, k and i < r)",
           tactic="intros r k i Hi; cbv [GEN]; split; [lia | split; [reflexivity | intros j Hj; split; intros H; nia]]", **km)
    kernel("C04", name="kron_left_extent", target="l", coq_params=[("ns", "Z"), ("l", "Z")], result=Z,
           thm_params=[("l", "nat")], gen_args="2%Z (Z.of_nat l)", model="Z.of_nat (Nat.div l 2)",
           model_name="KronIndex.sweep (l' = l / 2)", tactic="intros l; cbv [GEN]; tie_zarith", **km)
    kernel("C04", name="kron_right_extent", target="r", coq_params=[("ns", "Z"), ("r", "Z")], result=Z,
           thm_params=[("r", "nat")], gen_args="2%Z (Z.of_nat r)", model="Z.of_nat (r * 2)",
           model_name="KronIndex.sweep (r' = r * 2)", tactic="intros r; cbv [GEN]; lia", **km)

    # ------------------------------------------------------------------ C09: SWAP.apply on one pair of replicas
    # pairwise reading (PairTr): the batch row s1 and its partner s2 = torch.roll(batch, 1, 0)[same index]; the region A is a mask
    st_t = "(@QModel.Observables.istate R)"
    sw = dict(pairwise_swap=True, vec=True, file="qucumber/observables/entanglement.py", imports=["Bits", "CBase", "Observables"])
    kernel("C09", name="swap_helper", func="swap", inputs=[("s1", "s1", "BV"), ("s2", "s2", "BV"), ("A", "A", "MASK")],
           coq_params=[("s1", "bits"), ("s2", "bits"), ("A", "list bool")], result=("BV", "BV"),
           thm_params=[("s1", "bits"), ("s2", "bits"), ("A", "list bool")], gen_args="s1 s2 A",
           model="swap_mask A s1 s2", model_name="Observables.swap_mask (sites in the region exchanged, the others kept)",
           tactic="intros; cbv [GEN]; rewrite swap_mask_bmerge; reflexivity", **sw)
    kernel("C09", name="swap_apply_pair", func="SWAP.apply", inputs=[("samples", "s1", "BV")], unused_params=["nn_state"],
           hole_types={"a": "BV", "b": "BV", "x": "C", "y": "C", "s": "BV"}, hole_must={"s": "s1"},
           atoms=[("torch.roll($s, 1, 0)", "s2", "BV"), ("self.A", "A", "MASK"),
                  ("nn_state.importance_sampling_weight($a, $b)", "(is_weight ROps st $a $b)", "C"),
                  ("cplx.elementwise_mult($x, $y)", "(cmul ROps $x $y)", "C")],
           coq_params=[("st", st_t), ("A", "list bool"), ("s1", "bits"), ("s2", "bits")], result=F,
           thm_params=[("st", st_t), ("A", "list bool"), ("s1", "bits"), ("s2", "bits")], gen_args="st A s1 s2",
           model="swap_value ROps st A s1 s2", model_name="Observables.swap_value (real part of weight(s1', s1) * weight(s2', s2) for the exchanged pair)",
           tactic="intros; cbv [GEN swap_value]; rewrite swap_mask_bmerge; reflexivity", **sw)

    # ------------------------------------------------------------------ C06: the contrastive-divergence combination of one batch
    # positive-phase gradients (one vector per network), the chain end vk and the model gradient function are kernel inputs
    kernel("C06", name="compute_batch_gradients", vec=True, file="qucumber/nn_states/neural_state.py", func="NeuralStateBase.compute_batch_gradients",
           inputs=[("k", "k", Z), ("samples_batch", "samples", "LBV"), ("neg_batch", "neg", "LBV"), ("bases_batch", "bases", "Val")],
           hole_types={"v": "LBV"},
           atoms=[("self.positive_phase_gradients(samples_batch, bases_batch=bases_batch)", "pos", "LV"),
                  ("self.rbm_am.gibbs_steps(k, neg_batch)", "vk", "LBV"),
                  ("self.rbm_am.effective_energy_gradient($v)", "(gm $v)", "V"),
                  ("neg_batch.shape[0]", "(Z.of_nat (length neg))", Z), ("len(neg_batch)", "(Z.of_nat (length neg))", Z),
                  ("samples_batch.shape[0]", "(Z.of_nat (length samples))", Z), ("len(samples_batch)", "(Z.of_nat (length samples))", Z)],
           coq_params=[("pos", "list (list R)"), ("gm", "list bits -> list R"), ("vk", "list bits"), ("neg", "list bits"), ("samples", "list bits")], result="LV",
           thm_params=[("pos", "list (list R)"), ("gm", "list bits -> list R"), ("vk", "list bits"), ("neg", "list bits"), ("samples", "list bits")], gen_args="pos gm vk neg samples",
           model="cd_apply ROps pos (cd_negative ROps (gm vk) neg)",
           model_name="CDStep.cd_apply / cd_negative (head gradient minus model gradient over the NEGATIVE batch size; the phase network's entry untouched)",
           imports=["Bits", "Rbm", "CDStep"],
           tactic="intros; cbv [GEN cd_apply cd_negative vdivs nofnat vscale]; cbn [ndiv nofZ nmul ROps]; destruct pos; [reflexivity|]; f_equal; f_equal; "
                  "first [reflexivity | (apply map_ext; intros; unfold Rdiv; ring)]",
           corollaries=[("batch_gradients_of_a_binary_amplitude_network",
                         "forall (am : @brbm R) (pos : list (list R)) (neg vk samples : list bits), "
                         "GEN pos (b_energy_grad_batch ROps am) vk neg samples = cbg_binary ROps am pos neg vk",
                         "intros; rewrite TIE; reflexivity"),
                        ("batch_gradients_of_a_purification_amplitude_network",
                         "forall (am : @prbm R) (pos : list (list R)) (neg vk samples : list bits), "
                         "GEN pos (p_energy_grad_batch ROps am) vk neg samples = cbg_purification ROps am pos neg vk",
                         "intros; rewrite TIE; reflexivity")])
    kernel("C06", name="vector_to_grads_pointer", file="qucumber/utils/gradients_utils.py", func="vector_to_grads", kind="local", target="pointer",
           inputs=[], atoms=[("param.numel()", "n", Z)], carried={"pointer": ("pointer", Z)}, pin_skeleton=True,
           coq_params=[("pointer", "Z"), ("n", "Z")], result=Z, thm_params=[("pointer", "nat"), ("s", "shape")],
           gen_args="(Z.of_nat pointer) (Z.of_nat (numel s))", model="Z.of_nat (pointer + numel s)",
           model_name="CDStep.v2g_from (the next parameter starts where this one's numel entries end)", imports=["CDStep"],
           tactic="intros; cbv [GEN]; lia")


    # ------------------------------------------------------------------ C11: the record that save() writes, and when it refuses
    kernel("C11", name="save_dataflow", kind="save-dataflow", file="qucumber/nn_states/neural_state.py", func="NeuralStateBase.save",
           thm_params=[("st", "state"), ("md0", "option (list (key * val))")], gen_args="st md0", model="save_data st md0",
           model_name="Store.save_data (the caller's metadata copied, reserved keys refused before anything is written, network dictionaries first, metadata merged last)",
           imports=["Store"], tactic="intros st md0; cbv [GEN save_data]; cbv zeta; destruct (s_ud st); try reflexivity; "
                  "repeat (match goal with |- context [match (if ?b then _ else _) with _ => _ end] => destruct b end); reflexivity",
           cor_imports=["StoreT"],
           corollaries=[("translated_save_refuses_the_reserved_unitary_dict_key",
                         "forall st m, s_ud st <> None -> assoc K_UD m <> None -> GEN st (Some m) = None",
                         "intros st m Hu Hk; rewrite TIE; exact (save_refuses_unitary_dict_key st m Hu Hk)"),
                        ("translated_save_refuses_a_network_name_as_key",
                         "forall st m nm, In nm (map fst (s_nets st)) -> assoc nm m <> None -> GEN st (Some m) = None",
                         "intros st m nm Hin Hk; rewrite TIE; exact (save_refuses_network_key st m nm Hin Hk)"),
                        ("translated_save_record_holds_networks_dictionary_and_metadata",
                         "forall st m c, NoDup (map fst (s_nets st)) -> md_ok m -> GEN st (Some m) = Some c -> "
                         "(forall nm n, assoc nm (s_nets st) = Some n -> assoc nm c = Some (FNet (n_params n))) /\\ "
                         "(forall u, s_ud st = Some u -> assoc K_UD c = Some u) /\\ "
                         "(forall k v, assoc k m = Some v -> assoc k c = Some (FVal v)) /\\ "
                         "(forall k, assoc k (s_nets st) = None -> assoc k m = None -> (k <> K_UD \\/ s_ud st = None) -> assoc k c = None)",
                         "intros st m c Hn Hm H; rewrite TIE in H; exact (save_data_lookup st m c Hn Hm H)")])


def register_corollaries(cor):
    """property-level facts stated over SEVERAL generated kernels at once (compiled with the combined generated file)"""
    # C05: the Markov kernel assembled from the TRANSLATED conditionals satisfies detailed balance with respect to the weight
    # exp(-E) of the TRANSLATED effective energy, for every network and every pair of visible states
    cor("C05", "detailed_balance_of_the_translated_binary_sampler",
        "forall nv nh (r : @brbm R), b_shape nv nh r -> forall s s', length s = nv -> length s' = nv -> "
        "let K := fun a b => sum ROps (map (fun h => (bern_prod ROps (gen_binary_prob_h_given_v r a) h * bern_prod ROps (gen_binary_prob_v_given_h r h) b)%R) (all_bits (length (bc r)))) in "
        "(exp (- gen_binary_effective_energy r s) * K s s' = exp (- gen_binary_effective_energy r s') * K s' s)%R",
        "intros nv nh r H s s' Hs Hs'; cbv zeta; rewrite !tie_binary_effective_energy; "
        "assert (E : forall a b, sum ROps (map (fun h => (bern_prod ROps (gen_binary_prob_h_given_v r a) h * bern_prod ROps (gen_binary_prob_v_given_h r h) b)%R) (all_bits (length (bc r)))) = b_kernel ROps r a b) "
        "by (intros a b; unfold b_kernel; f_equal; apply map_ext; intros h; unfold b_kernel_term; rewrite tie_binary_prob_h_given_v, tie_binary_prob_v_given_h; reflexivity); "
        "rewrite !E; exact (detailed_balance_binary nv nh r H s s' Hs Hs')",
        imports=["Gibbs", "GibbsT"])
    # C05: the law of the EXTRACTED Gibbs loop (interpreted on all draw sequences, each weighted by the Bernoulli probabilities the loop requested for it)
    # is the k-th power of the block-Gibbs kernel
    cor("C05", "k_step_law_of_the_extracted_binary_gibbs_loop",
        "forall nv nh (r : @brbm R), b_shape nv nh r -> forall k s s' h0 a0, "
        "sum ROps (map (fun ds => let res := run_gibbs (b_prob_h_given_v ROps r) (fun _ => []) (b_prob_v_given_h ROps r) (fun _ _ => []) gen_gibbs_loop_binary k s h0 a0 ds in "
        "(run_weight ROps (snd res) ds * indicator ROps (fst res) s')%R) (all_draws (b_draw_shape nv (length (bc r)) k))) = kpow ROps nv (b_kernel ROps r) k s s'",
        "intros nv nh r H k s s' h0 a0; rewrite <- (b_kstep_law nv nh r H k s s'); unfold b_sampler_law; f_equal; apply map_ext; intros ds; "
        "rewrite tie_gibbs_loop_binary; reflexivity",
        imports=["Gibbs", "GibbsT", "GibbsSkel"])
    cor("C05", "detailed_balance_of_the_translated_purification_sampler",
        "forall nv nh na (r : @prbm R), p_shape nv nh na r -> forall s s', length s = nv -> length s' = nv -> "
        "let K := fun x y => sum ROps (map (fun h => sum ROps (map (fun a => ((bern_prod ROps (gen_purification_prob_h_given_v r x) h * bern_prod ROps (gen_purification_prob_a_given_v r x) a) "
        "* bern_prod ROps (gen_purification_prob_v_given_ha r h a) y)%R) (all_bits (length (pd r))))) (all_bits (length (pc r)))) in "
        "(exp (- gen_purification_effective_energy r s None) * K s s' = exp (- gen_purification_effective_energy r s' None) * K s' s)%R",
        "intros nv nh na r H s s' Hs Hs'; cbv zeta; rewrite !tie_purification_effective_energy; "
        "assert (E : forall x y, sum ROps (map (fun h => sum ROps (map (fun a => ((bern_prod ROps (gen_purification_prob_h_given_v r x) h * bern_prod ROps (gen_purification_prob_a_given_v r x) a) "
        "* bern_prod ROps (gen_purification_prob_v_given_ha r h a) y)%R) (all_bits (length (pd r))))) (all_bits (length (pc r)))) = p_kernel ROps r x y) "
        "by (intros x y; unfold p_kernel; f_equal; apply map_ext; intros h; f_equal; apply map_ext; intros a; unfold p_kernel_term; "
        "rewrite tie_purification_prob_h_given_v, tie_purification_prob_a_given_v, tie_purification_prob_v_given_ha; reflexivity); "
        "rewrite !E; exact (detailed_balance_purification nv nh na r H s s' Hs Hs')",
        imports=["Gibbs", "GibbsT"])
