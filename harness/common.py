"""common.py — shared machinery of the correspondence harness.

Every check runs as:  /venv/bin/python -B /verif/harness/run_check.py Cxx [--tier quick|thorough] [--replay F]
(see /verif/check).  This module provides
  * the environment tie to /repo (qucumber must be imported from /repo's working tree),
  * the PRNG (one numpy Generator seeded from VERIF_SEED; torch seeded from the same stream),
  * ModelProc: the pipe to the extracted Coq model (ocaml/modelrun),
  * the Coq re-check of a property's theorem file (coqc + Print Assumptions audit),
  * comparison with tolerances, disagreement / oracle-failure bookkeeping,
  * known-findings handling, replay files, VIOLATION lines, evidence files.
"""
import os, sys, json, time, subprocess, hashlib, re, math, fcntl, shutil, traceback

VERIF = os.path.dirname(os.path.dirname(os.path.abspath(__file__)))
REPO = os.environ.get("VERIF_REPO", "/repo")
COQ = os.path.join(VERIF, "coq")
MODELRUN = os.environ.get("VERIF_MODELRUN") or os.path.join(VERIF, "ocaml", "modelrun")
SCRATCH_ROOT = os.path.join(VERIF, ".scratch")

ALLOWED_AXIOMS = {
    # axioms declared by Coq's standard library (Reals, classical logic, extensionality)
    "ClassicalDedekindReals.sig_not_dec",
    "ClassicalDedekindReals.sig_forall_dec",
    "FunctionalExtensionality.functional_extensionality_dep",
    "Classical_Prop.classic",
}

TRUSTED_BASE = [
    "Coq 8.16.1 kernel (coqc, full .vo build; vm_compute used, no native_compute)",
    "stdlib axioms reported by Print Assumptions: sig_not_dec, sig_forall_dec, functional_extensionality_dep, classic (Reals/Coquelicot); none declared by this development",
    "extraction: ExtrOcamlBasic only (bool/option/list/prod/unit/sumbool), no Extract Constant; OCaml 4.13 float ops instantiate NumOps (ocaml/wire.ml)",
    "correspondence harness (Python, this run): generators, tolerances, wrappers",
    "source-translation tie (properties with kernels): harness/srctie.py (meaning given to the Python subset: unbounded ints, real floats with nan as None; row-wise reading of tensor code, entrywise reading of utils/cplx.py, pairwise reading of SWAP.apply with region writes as masked merges, the statement grammars of the fit / Gibbs-loop / save extractors; the source-hygiene rules that make a definition the one Python runs), the kernel table harness/srctie_kernels.py with the pinned signatures / skeletons harness/srctie_params.json, coq/theory/TieLib.v",
    "modelled not verified: IEEE rounding, PyTorch kernels, torch RNG, torch.save/load, numpy helpers",
]


# --------------------------------------------------------------------------- environment
def setup_repo_import():
    """Import qucumber from /repo's working tree (never from site-packages)."""
    os.environ.setdefault("PYTHONHASHSEED", "0")
    sys.path[:] = [p for p in sys.path if p not in ("", REPO)]
    sys.path.insert(0, REPO)
    try:
        import scipy.linalg  # noqa: F401
    except Exception:
        import types
        sp = types.ModuleType("scipy")
        spl = types.ModuleType("scipy.linalg")

        def _sqrtm(*a, **k):
            raise RuntimeError("scipy stub: sqrtm is not available in this sandbox")
        spl.sqrtm = _sqrtm
        sp.linalg = spl
        sys.modules["scipy"] = sp
        sys.modules["scipy.linalg"] = spl
    import warnings
    warnings.filterwarnings("ignore")
    import qucumber
    f = os.path.realpath(qucumber.__file__)
    if not f.startswith(os.path.realpath(REPO) + os.sep):
        raise RuntimeError("qucumber imported from %s, not from %s" % (f, REPO))
    import torch
    torch.set_num_threads(1)
    return qucumber


# --------------------------------------------------------------------------- wire format
def fhex(x):
    x = float(x)
    if math.isnan(x):
        return "nan"
    if math.isinf(x):
        return "inf" if x > 0 else "-inf"
    return x.hex()


def enc(x):
    """Encode nested lists / numpy arrays / tensors / numbers for the model driver."""
    try:
        import torch
        if isinstance(x, torch.Tensor):
            x = x.detach().cpu().tolist()
    except ImportError:
        pass
    if hasattr(x, "tolist") and not isinstance(x, (list, tuple)):
        x = x.tolist()
    if isinstance(x, (list, tuple)):
        return "[" + " ".join(enc(y) for y in x) + "]"
    if isinstance(x, bool):
        return "1" if x else "0"
    if isinstance(x, int):
        return str(x)
    return fhex(x)


def _parse(tokens, pos):
    t = tokens[pos]
    if t == "[":
        out = []
        pos += 1
        while tokens[pos] != "]":
            v, pos = _parse(tokens, pos)
            out.append(v)
        return out, pos + 1
    if t in ("nan", "-nan"):
        return float("nan"), pos + 1
    if t in ("inf", "infinity"):
        return float("inf"), pos + 1
    if t in ("-inf", "-infinity"):
        return float("-inf"), pos + 1
    return float.fromhex(t), pos + 1


def dec(line):
    tokens = re.findall(r"\[|\]|[^\s\[\]]+", line)
    v, pos = _parse(tokens, 0)
    return v


class ModelError(Exception):
    pass


class ModelProc:
    """Pipe to ocaml/modelrun (the extracted Coq model instantiated at IEEE doubles)."""

    def __init__(self):
        if not os.path.exists(MODELRUN):
            raise RuntimeError("model binary missing: run /verif/setup.sh")
        self.p = subprocess.Popen(["/bin/sh", "-c", "ulimit -s unlimited 2>/dev/null; exec " + MODELRUN],
                                  stdin=subprocess.PIPE, stdout=subprocess.PIPE, text=True, bufsize=1 << 20)
        self.calls = 0

    def call(self, fn, *args):
        self.calls += 1
        self.p.stdin.write(fn + " " + " ".join(enc(a) for a in args) + "\n")
        self.p.stdin.flush()
        line = self.p.stdout.readline()
        if not line:
            raise ModelError("model process died on %s" % fn)
        line = line.strip()
        if line.startswith("!ERR"):
            raise ModelError(line)
        return dec(line)

    def close(self):
        try:
            self.p.stdin.close()
            self.p.wait(timeout=10)
        except Exception:
            self.p.kill()


# --------------------------------------------------------------------------- numeric comparison
def flat(x):
    try:
        import torch
        if isinstance(x, torch.Tensor):
            x = x.detach().cpu().tolist()
    except ImportError:
        pass
    if hasattr(x, "tolist") and not isinstance(x, (list, tuple)):
        x = x.tolist()
    if isinstance(x, (list, tuple)):
        out = []
        for y in x:
            out.extend(flat(y))
        return out
    return [float(x)]


def shape_of(x):
    if hasattr(x, "shape") and not isinstance(x, (list, tuple)):
        return list(x.shape)
    if isinstance(x, (list, tuple)):
        return [len(x)] + (shape_of(x[0]) if len(x) and isinstance(x[0], (list, tuple)) else [])
    return []


def close(a, b, rtol=1e-7, atol=1e-9, scale=None):
    """|a-b| <= rtol*max(|a|,|b|) + atol*scale, elementwise over flattened values; nan == nan."""
    fa, fb = flat(a), flat(b)
    if len(fa) != len(fb):
        return False, "length %d vs %d" % (len(fa), len(fb))
    if scale is None:
        scale = max([1.0] + [abs(v) for v in fb if math.isfinite(v)])
    worst = 0.0
    for i, (x, y) in enumerate(zip(fa, fb)):
        if math.isnan(x) or math.isnan(y):
            if math.isnan(x) and math.isnan(y):
                continue
            return False, "entry %d: %r vs %r" % (i, x, y)
        if math.isinf(x) or math.isinf(y):
            if x == y:
                continue
            return False, "entry %d: %r vs %r" % (i, x, y)
        d = abs(x - y)
        tol = rtol * max(abs(x), abs(y)) + atol * scale
        if d > tol:
            return False, "entry %d: impl %r vs model %r (|diff| %.3g > tol %.3g)" % (i, x, y, d, tol)
        worst = max(worst, d)
    return True, worst


# --------------------------------------------------------------------------- Coq re-check
def _lock():
    os.makedirs(SCRATCH_ROOT, exist_ok=True)
    f = open(os.path.join(SCRATCH_ROOT, "build.lock"), "w")
    fcntl.flock(f, fcntl.LOCK_EX)
    return f


COQ_Q = ["-Q", os.path.join(COQ, "model"), "QModel", "-Q", os.path.join(COQ, "theory"), "QTheory",
         "-Q", os.path.join(COQ, "props"), "QProps", "-Q", os.path.join(COQ, "extract"), "QExtract",
         "-Q", os.path.join(COQ, "generated"), "QGen",
         "-w", "-notation-overridden,-deprecated-hint-without-locality,-ambiguous-paths,-deprecated-instance-without-locality"]


def ensure_built():
    """make in coq/ (no-op when fresh) and the model binary; serialised by a file lock."""
    if os.environ.get("VERIF_SKIP_MAKE") == "1":      # development only (see tools/AGENT_GUIDE.md)
        return True, ""
    lk = _lock()
    try:
        if not os.path.exists(os.path.join(COQ, "Makefile")):
            r = subprocess.run(["/bin/sh", os.path.join(VERIF, "setup.sh")], capture_output=True, text=True)
            if r.returncode != 0:
                return False, "setup.sh failed:\n" + r.stdout[-3000:] + r.stderr[-3000:]
            return True, ""
        r = subprocess.run(["timeout", "3000", "make", "-j16", "-C", COQ], capture_output=True, text=True)
        if r.returncode != 0:
            return False, "make failed:\n" + (r.stdout + r.stderr)[-4000:]
        if not os.path.exists(MODELRUN):
            r = subprocess.run(["/bin/sh", os.path.join(VERIF, "setup.sh"), "--ocaml-only"], capture_output=True, text=True)
            if r.returncode != 0:
                return False, "model binary build failed:\n" + (r.stdout + r.stderr)[-3000:]
        return True, ""
    finally:
        lk.close()


def coq_check_props(pid, scratch, extra_files=None, thorough=False):
    """Re-run coqc on props/<pid>.v; audit Print Assumptions.  Returns a dict."""
    src = os.path.join(COQ, "props", pid + ".v")
    res = {"obligations": 0, "discharged": 0, "ok": False, "log": "", "axioms": [], "theorems": [],
           "checker_cmd": "coqc -Q model QModel -Q theory QTheory -Q props QProps props/%s.v  (after make in /verif/coq)" % pid}
    if not os.path.exists(src):
        res["log"] = "missing " + src
        return res
    text = open(src).read()
    body = re.sub(r"\(\*.*?\*\)", "", text, flags=re.S)
    thms = re.findall(r"^\s*(?:Theorem|Lemma|Corollary)\s+([A-Za-z0-9_']+)", body, flags=re.M)
    res["theorems"] = thms
    res["obligations"] = len(thms)
    bad = re.findall(r"\b(Admitted|admit|Axiom|Parameter|Conjecture|Abort)\b", body)
    if bad:
        res["log"] = "forbidden vernacular in props file: %s" % sorted(set(bad))
        return res
    out_vo = os.path.join(scratch, pid + ".vo")
    t0 = time.time()
    r = subprocess.run(["timeout", "1200", "coqc"] + COQ_Q + ["-o", out_vo, src], capture_output=True, text=True, cwd=COQ)
    res["coqc_s"] = round(time.time() - t0, 2)
    out = r.stdout + r.stderr
    res["log"] = out[-6000:]
    if r.returncode != 0:
        m = re.search(r'line (\d+), characters', out)
        if m:
            ln = int(m.group(1))
            upto = "\n".join(text.split("\n")[:ln])
            done = re.findall(r"^\s*(?:Theorem|Lemma|Corollary)\s+([A-Za-z0-9_']+)", re.sub(r"\(\*.*?\*\)", "", upto, flags=re.S), flags=re.M)
            res["failed_theorem"] = done[-1] if done else None
            res["discharged"] = max(0, len(done) - 1)
        return res
    blocks = re.split(r"(?=Closed under the global context|Axioms:)", r.stdout)
    n_reports = 0
    axioms = set()
    for b in blocks:
        if b.startswith("Closed under the global context"):
            n_reports += 1
        elif b.startswith("Axioms:"):
            n_reports += 1
            for m in re.finditer(r"^([A-Za-z_][A-Za-z0-9_.']*)\s*(?::|$)", b, flags=re.M):
                name = m.group(1)
                if name != "Axioms":
                    axioms.add(name)
    res["axioms"] = sorted(axioms)
    foreign = sorted(a for a in axioms if a not in ALLOWED_AXIOMS)
    if foreign:
        res["log"] = "unexpected axioms: %s" % foreign
        return res
    if n_reports < len(thms):
        res["log"] = "only %d Print Assumptions reports for %d theorems" % (n_reports, len(thms))
        res["discharged"] = n_reports
        return res
    res["discharged"] = len(thms)
    res["ok"] = True
    if thorough and os.environ.get("VERIF_COQCHK", "1") == "1":
        t0 = time.time()
        r = subprocess.run(["timeout", "1500", "coqchk", "-silent", "-o"] + COQ_Q[:9] + ["QProps." + pid],
                           capture_output=True, text=True, cwd=COQ)
        res["coqchk_s"] = round(time.time() - t0, 1)
        res["coqchk_ok"] = (r.returncode == 0)
        res["coqchk_tail"] = (r.stdout + r.stderr)[-1500:]
        if r.returncode != 0:
            res["ok"] = False
            res["log"] = "coqchk failed: " + res["coqchk_tail"]
    return res


def source_tie(pid, ctx):
    """second tie (harness/srctie.py): kernels of the current source translated to Gallina and proved equal to the model"""
    try:
        import srctie
        if pid not in srctie.KERNELS:
            return None
        return srctie.check(REPO, pid, ctx.scratch, COQ, COQ_Q, thorough=ctx.thorough)
    except Exception as e:                       # a translator crash is not a verdict about the code
        return {"kernels": [], "proved": 0, "total": 0, "error": repr(e)[:300]}


# --------------------------------------------------------------------------- context
class Ctx:
    def __init__(self, pid, tier, seed, replay=None):
        import numpy as np
        self.pid, self.tier, self.seed, self.replay = pid, tier, seed, replay
        self.thorough = (tier == "thorough")
        self.np = np
        self.rng = np.random.Generator(np.random.PCG64(seed))
        self.t0 = time.time()
        self.scratch = os.path.join(SCRATCH_ROOT, "%s-%d" % (pid, os.getpid()))
        os.makedirs(self.scratch, exist_ok=True)
        self.model = None
        self.evaluations = 0
        self.nontrivial = set()
        self.samples = []
        self.hist = {}
        self.disagreements = []     # correspondence breaks: (what, case, detail)
        self.failures = []          # property-oracle failures on the implementation: (what, case, detail)
        self.known_hits = []
        self.traces = 0
        self.extra = {}
        self.coq = None
        self.notes = []
        self.known = [k for k in load_known() if k.get("property") == pid]
        self.tie = None

    # -- randomness
    def torch_seed(self):
        import torch
        s = int(self.rng.integers(0, 2 ** 31 - 1))
        torch.manual_seed(s)
        return s

    def get_model(self):
        if self.model is None:
            self.model = ModelProc()
        return self.model

    # -- bookkeeping
    def count(self, key, n=1):
        self.hist[key] = self.hist.get(key, 0) + n

    def case(self, desc, nontrivial=True, sample=False):
        """Register one generated case. desc must be JSON-serialisable (canonical identity of the case)."""
        self.evaluations += 1
        if nontrivial:
            self.nontrivial.add(hashlib.sha1(json.dumps(desc, sort_keys=True, default=str).encode()).hexdigest())
        if sample or len(self.samples) < 3:
            if len(self.samples) < 8:
                self.samples.append(desc)

    def agree(self, what, impl, model, case, **tol):
        """Correspondence: implementation value vs model value."""
        ok, detail = close(impl, model, **tol)
        if not ok:
            self.disagreements.append({"what": what, "case": case, "detail": detail})
        return ok

    def agree_exact(self, what, impl, model, case):
        ok = (impl == model)
        if not ok:
            self.disagreements.append({"what": what, "case": case, "detail": "impl %r vs model %r" % (impl, model)})
        return ok

    def require(self, what, ok, case, detail=""):
        """Property oracle evaluated on the implementation: a False here is a failing input."""
        if not ok:
            rec = {"what": what, "case": case, "detail": str(detail)}
            k = self.match_known(rec)
            if k is not None:
                self.known_hits.append((k, rec))
            else:
                self.failures.append(rec)
        return ok

    def call(self, what, case, fn, *a, **k):
        """Run an implementation call the property says must succeed; an exception is a failing input."""
        try:
            return True, fn(*a, **k)
        except ModelError:
            raise
        except Exception as e:
            self.require(what + " raised " + type(e).__name__, False, case, repr(e)[:300])
            return False, None

    def match_known(self, rec):
        for k in self.known:
            if k.get("status") != "open":
                continue
            m = k.get("match", {})
            flatrec = dict(rec.get("case", {})) if isinstance(rec.get("case"), dict) else {}
            flatrec["what"] = rec.get("what")
            if m and all(flatrec.get(key) == val for key, val in m.items()):
                return k
        return None

    def elapsed(self):
        return time.time() - self.t0

    def cleanup(self):
        if self.model is not None:
            self.model.close()
        shutil.rmtree(self.scratch, ignore_errors=True)


def load_known():
    p = os.path.join(VERIF, "known_findings.json")
    if not os.path.exists(p):
        return []
    return json.load(open(p)).get("findings", [])


# --------------------------------------------------------------------------- verdict
def write_replay(ctx, kind, payload):
    os.makedirs(os.path.join(VERIF, "replays"), exist_ok=True)
    body = {"property": ctx.pid, "kind": kind, "seed": ctx.seed, "tier": ctx.tier, **payload}
    s = json.dumps(body, sort_keys=True, default=str, indent=1)
    h = hashlib.sha1(s.encode()).hexdigest()[:10]
    path = os.path.join(VERIF, "replays", "%s-%s.json" % (ctx.pid, h))
    with open(path, "w") as f:
        f.write(s)
    return path


def write_evidence(ctx, violations, rule, extra_assumptions=None):
    cov = {
        "obligations": ctx.coq["obligations"] if ctx.coq else 0,
        "discharged": ctx.coq["discharged"] if ctx.coq else 0,
        "checker_cmd": ctx.coq["checker_cmd"] if ctx.coq else "",
        "trusted_base": TRUSTED_BASE,
        "theorems": ctx.coq["theorems"] if ctx.coq else [],
        "axioms_reported": ctx.coq["axioms"] if ctx.coq else [],
        "evaluations": ctx.evaluations,
        "distinct_nontrivial": len(ctx.nontrivial),
        "rule": rule,
        "samples": ctx.samples[:8] if ctx.samples else [{"note": "no generated case"}],
        "traces_validated_against_impl": ctx.traces,
        "model_calls": ctx.model.calls if ctx.model else 0,
        "input_distribution": ctx.hist,
        "correspondence_disagreements": len(ctx.disagreements),
        "oracle_failures": len(ctx.failures),
        "known_findings_hit": len(ctx.known_hits),
        "exhaustive": False,
    }
    if ctx.coq:
        for k in ("coqc_s", "coqchk_s", "coqchk_ok"):
            if k in ctx.coq:
                cov[k] = ctx.coq[k]
    if getattr(ctx, "tie", None):
        t = ctx.tie
        cov["source_translation_tie"] = {
            "what": "scalar / decision kernels translated from /repo's current source by harness/srctie.py and proved equal, for all inputs, to the model functions (Coq, this run)",
            "kernels": [{k2: v for k2, v in k.items() if k2 != "detail" or k["status"] != "proved"} for k in t.get("kernels", [])],
            "proved": t.get("proved", 0), "total": t.get("total", 0), "wall_s": t.get("wall_s"),
            **({"coqchk_ok": t["coqchk_ok"], "coqchk_s": t["coqchk_s"]} if "coqchk_ok" in t else {}),
            "policy": "unproved (translated, equality fails) = broken tie, reported — except kernels marked strict=false (transcendental identities are outside the generic tactics; an unproved one is decided by the correspondence); untranslatable = tie not available for that kernel, correspondence only",
        }
        if t.get("error"):
            cov["source_translation_tie"]["error"] = t["error"]
    cov.update(ctx.extra)
    ev = {
        "property_id": ctx.pid, "tier": ctx.tier, "seed": ctx.seed, "level": "proof",
        "coverage": cov,
        "assumptions": (extra_assumptions or []) + ["theorems are over the real numbers; floating point is absorbed by the comparison tolerance",
                                                     "implementation tied to the model only on the inputs generated in this run"],
        "wall_s": round(ctx.elapsed(), 2), "violations": violations,
    }
    # evidence/<id>.json is only ever written by runs against /repo itself; development runs against a
    # scratch worktree (VERIF_REPO) write to .scratch/evidence-dev/ instead
    edir = os.path.join(VERIF, "evidence") if os.path.realpath(REPO) == "/repo" else os.path.join(SCRATCH_ROOT, "evidence-dev")
    os.makedirs(edir, exist_ok=True)
    tmp = os.path.join(edir, ".%s.%d.tmp" % (ctx.pid, os.getpid()))
    with open(tmp, "w") as f:
        json.dump(ev, f, indent=1, default=str)
    os.replace(tmp, os.path.join(edir, ctx.pid + ".json"))


def run_property(pid, mod, tier, seed, replay=None):
    """Generic driver: Coq re-check, correspondence + oracle, failing-input search, verdict."""
    ctx = Ctx(pid, tier, seed, replay)
    violations = 0
    try:
        ok, log = ensure_built()
        if not ok:
            ctx.coq = {"obligations": 0, "discharged": 0, "ok": False, "log": log, "axioms": [], "theorems": [],
                       "checker_cmd": "make -C /verif/coq"}
        else:
            pre = getattr(mod, "pre_coq", None)
            if pre is not None:
                pre(ctx)            # e.g. C14 regenerates its model from the source
            ctx.coq = coq_check_props(pid, ctx.scratch, thorough=ctx.thorough)
            ctx.tie = source_tie(pid, ctx)
        setup_repo_import()
        if replay:
            case = json.load(open(replay))
            mod.replay(ctx, case)
        else:
            try:
                # global autograd mode: the properties hold whatever torch's grad mode is (all library parameters have
                # requires_grad=False); quick tier: every third seed runs the whole check under torch.no_grad();
                # thorough tier: a second full pass under no_grad after the ordinary one
                import torch
                nograd = os.environ.get("VERIF_NOGRAD")
                if nograd == "1" or (nograd is None and not ctx.thorough and seed % 3 == 2):
                    ctx.extra["torch_grad_mode"] = "no_grad (whole run)"
                    with torch.no_grad():
                        mod.run(ctx)
                else:
                    ctx.extra["torch_grad_mode"] = "default"
                    mod.run(ctx)
                    if ctx.thorough and nograd is None and not ctx.failures and not ctx.disagreements and ctx.elapsed() < 270:
                        # (checks whose ordinary thorough pass is long keep to one pass; their no_grad regime is quick seed 2)
                        ctx.extra["torch_grad_mode"] = "default, then a second pass under no_grad"
                        with torch.no_grad():
                            mod.run(ctx)
            except ModelError as e:
                ctx.disagreements.append({"what": "model execution", "case": {}, "detail": str(e)})
        # ---- verdict
        for k, rec in ctx.known_hits[:50]:
            pass
        seen = set()
        for k, rec in ctx.known_hits:
            if k["id"] not in seen:
                seen.add(k["id"])
                print("KNOWN-FINDING: property=%s %s" % (pid, k["what"]))
        for k in (ctx.tie or {}).get("kernels", []):
            if k["status"] != "proved" and not (k["status"] == "unproved" and k.get("strict", True)):
                # not a verdict: this tie is not available on the current source; the correspondence decides
                print("NOTE property=%s source-translation tie not established for kernel %s (%s): %s"
                      % (pid, k["kernel"], k["status"], " ".join(str(k.get("detail", "")).split())[:200]))
        broken = []
        if not ctx.coq["ok"]:
            broken.append({"kind": "proof", "theorem_file": "coq/props/%s.v" % pid,
                           "failed_theorem": ctx.coq.get("failed_theorem"), "log": ctx.coq["log"][-3000:]})
        if ctx.disagreements:
            broken.append({"kind": "correspondence", "count": len(ctx.disagreements), "first": ctx.disagreements[:5]})
        tie_unproved = [k for k in (ctx.tie or {}).get("kernels", []) if k["status"] == "unproved" and k.get("strict", True)]
        if tie_unproved:
            # a kernel of the source translated into the supported fragment but is no longer provably equal to the model function
            broken.append({"kind": "source-translation-tie",
                           "theorems": ["tie_%s : %s = %s" % (k["kernel"], k["source"], k["model"]) for k in tie_unproved],
                           "log": [k.get("detail", "")[-500:] for k in tie_unproved][:3]})
        if ctx.failures:
            violations = len(ctx.failures)
            shrink = getattr(mod, "shrink", None)
            first = ctx.failures[0]
            if shrink is not None:
                try:
                    first = shrink(ctx, first) or first
                except Exception:
                    pass
            path = write_replay(ctx, "failing-input", {"failing": first, "more": ctx.failures[1:5], "broken": broken})
            print("VIOLATION property=%s replay=%s" % (pid, path))
        elif broken:
            # proof or correspondence broke but the oracle saw no failing input yet: search wider
            found = None
            search = getattr(mod, "search", None)
            if search is not None and not replay:
                try:
                    budget = 900 if ctx.thorough else 120
                    found = search(ctx, broken, budget)
                except Exception as e:
                    ctx.notes.append("search raised %r" % (e,))
            if found is None and ctx.failures:
                found = ctx.failures[0]
            violations = 1
            if found is not None:
                path = write_replay(ctx, "failing-input", {"failing": found, "broken": broken})
                print("VIOLATION property=%s replay=%s" % (pid, path))
            else:
                path = write_replay(ctx, "unchecked", {"no_longer_checks": broken,
                                                        "note": "no failing input of the property was found; the named theorem / correspondence no longer checks"})
                print("VIOLATION property=%s replay=%s no-failing-input-found" % (pid, path))
        rule = getattr(mod, "RULE", "")
        write_evidence(ctx, violations, rule, getattr(mod, "ASSUMPTIONS", None))
    except Exception:
        tb = traceback.format_exc()
        sys.stderr.write(tb)
        # a harness crash is not a verdict about the property: report as unchecked
        violations = 1
        path = write_replay(ctx, "harness-error", {"traceback": tb[-4000:]})
        print("VIOLATION property=%s replay=%s no-failing-input-found" % (pid, path))
        try:
            ctx.coq = ctx.coq or {"obligations": 0, "discharged": 0, "ok": False, "log": "", "axioms": [], "theorems": [], "checker_cmd": "coqc"}
            write_evidence(ctx, violations, getattr(mod, "RULE", ""), None)
        except Exception:
            pass
    finally:
        ctx.cleanup()
    return 1 if violations else 0
