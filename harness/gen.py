"""gen.py — generators shared by the checks: parameter draws, real QuCumber objects with
those parameters written into their nn.Parameters, basis strings, batches."""
import itertools
import numpy as np


def rand_values(ctx, shape, kind=None):
    """Mixture: N(0,1) | uniform[-3,3] | log-uniform magnitude [1e-3,30] random sign (sparse) | with exact zeros."""
    rng = ctx.rng
    if kind is None:
        kind = rng.choice(["normal", "uniform", "large", "zeros"], p=[0.4, 0.3, 0.15, 0.15])
    n = int(np.prod(shape)) if len(shape) else 1
    if kind == "normal":
        x = rng.normal(size=n)
    elif kind == "uniform":
        x = rng.uniform(-3, 3, size=n)
    elif kind == "large":
        x = rng.normal(size=n) * 0.5
        k = max(1, n // 4)
        ii = rng.choice(n, size=k, replace=False)
        x[ii] = np.exp(rng.uniform(np.log(1e-3), np.log(30.0), size=k)) * rng.choice([-1.0, 1.0], size=k)
    else:
        x = rng.normal(size=n)
        x[rng.random(n) < 0.3] = 0.0
    ctx.count("param_kind:" + str(kind))
    return x.reshape(shape)


def nonzero_bias(ctx, n):
    x = rand_values(ctx, (n,), kind=str(ctx.rng.choice(["normal", "uniform"])))
    x[np.abs(x) < 1e-3] = 0.37
    return x


def brbm_params(ctx, nv, nh, zero_bias=False):
    W = rand_values(ctx, (nh, nv))
    if zero_bias:
        return W, np.zeros(nv), np.zeros(nh)
    return W, nonzero_bias(ctx, nv), nonzero_bias(ctx, nh)


def prbm_params(ctx, nv, nh, na, phase=False):
    W = rand_values(ctx, (nh, nv))
    U = rand_values(ctx, (na, nv))
    b, c = nonzero_bias(ctx, nv), nonzero_bias(ctx, nh)
    d = np.zeros(na) if phase else nonzero_bias(ctx, na)   # documented: aux bias of the phase net is 0
    return W, U, b, c, d


# ---- writing parameters into live networks ("aged" objects, rotating write mechanisms) --------------------------
# Every check writes its parameters through set_brbm / set_prbm.  So that no check only ever meets a FRESH network
# whose parameters were written in one particular way, these two functions (i) first USE the network with the
# parameters it currently has (energies, conditionals, partition function on the full space — anything the library may
# memoise), and (ii) rotate over the legal ways of changing a parameter: `.data = new`, `.data.copy_(new)`,
# `copy_` under no_grad, and rebinding the attribute to a new nn.Parameter.  A cache / stored handle keyed on object
# identity, storage pointer, version counter or shape that is not invalidated by one of these is then visible to
# every property's oracle.  Deterministic (round-robin counter), and the torch RNG is left untouched.
_WRITES = itertools.count()


def _touch(rbm):
    try:
        import torch
        nv = int(rbm.num_visible)
        if nv > 6:
            return
        with torch.random.fork_rng(devices=[]):
            v = torch.tensor(all_states(nv), dtype=torch.double)
            rbm.effective_energy(v)
            rbm.effective_energy(v[0])
            rbm.prob_h_given_v(v)
            rbm.partition(v)
            rbm.effective_energy_gradient(v[: min(3, len(v))])
            if hasattr(rbm, "gamma"):
                rbm.gamma(v, v.flip(0), eta=+1)
                rbm.gamma(v, v.flip(0), eta=-1)
                rbm.mixing_term(v)
                rbm.prob_a_given_v(v)
    except Exception:
        pass                      # ageing must never decide anything; the check's own calls will report a broken method


def _write(rbm, name, arr):
    import torch
    t = torch.tensor(arr, dtype=torch.double)
    p = getattr(rbm, name)
    mode = next(_WRITES) % 4
    if tuple(p.shape) != tuple(t.shape) or p.dtype != t.dtype:
        mode = 0
    if mode == 0:
        p.data = t
    elif mode == 1:
        p.data.copy_(t)
    elif mode == 2:
        with torch.no_grad():
            p.copy_(t)
    else:
        setattr(rbm, name, torch.nn.Parameter(t, requires_grad=p.requires_grad))


def set_brbm(rbm, W, b, c):
    _touch(rbm)
    _write(rbm, "weights", W)
    _write(rbm, "visible_bias", b)
    _write(rbm, "hidden_bias", c)


def set_prbm(rbm, W, U, b, c, d):
    _touch(rbm)
    _write(rbm, "weights_W", W)
    _write(rbm, "weights_U", U)
    _write(rbm, "visible_bias", b)
    _write(rbm, "hidden_bias", c)
    _write(rbm, "aux_bias", d)


def make_positive(ctx, nv, nh, zero_bias=False):
    from qucumber.nn_states import PositiveWaveFunction
    s = PositiveWaveFunction(nv, nh, gpu=False)
    am = brbm_params(ctx, nv, nh, zero_bias)
    set_brbm(s.rbm_am, *am)
    return s, am


def make_complex(ctx, nv, nh, zero_bias=False):
    from qucumber.nn_states import ComplexWaveFunction
    s = ComplexWaveFunction(nv, nh, gpu=False)
    am = brbm_params(ctx, nv, nh, zero_bias)
    ph = brbm_params(ctx, nv, nh, zero_bias)
    set_brbm(s.rbm_am, *am)
    set_brbm(s.rbm_ph, *ph)
    return s, am, ph


def make_dm(ctx, nv, nh, na):
    from qucumber.nn_states import DensityMatrix
    s = DensityMatrix(nv, nh, na, gpu=False)
    am = prbm_params(ctx, nv, nh, na)
    ph = prbm_params(ctx, nv, nh, na, phase=True)
    set_prbm(s.rbm_am, *am)
    set_prbm(s.rbm_ph, *ph)
    return s, am, ph


def all_states(n):
    return np.array(list(itertools.product([0, 1], repeat=n)), dtype=float)


def all_bases(n, alphabet="XYZ"):
    return ["".join(p) for p in itertools.product(alphabet, repeat=n)]


def plist(*arrs):
    return [np.asarray(a).tolist() for a in arrs]


def softplus(x):
    return np.logaddexp(0.0, x)


def np_eff_energy(W, b, c, v):
    """independent numpy evaluation of the BinaryRBM effective energy; v: (N,nv)"""
    v = np.atleast_2d(v)
    return -(v @ b + softplus(v @ W.T + c).sum(-1))


def np_eff_energy_p(W, U, b, c, d, v):
    v = np.atleast_2d(v)
    return -(v @ b + softplus(v @ W.T + c).sum(-1) + softplus(v @ U.T + d).sum(-1))
