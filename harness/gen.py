"""gen.py — generators shared by the checks: parameter draws, real QuCumber objects with
those parameters written into their nn.Parameters, basis strings, batches."""
import itertools
import numpy as np


def rand_values(ctx, shape, kind=None):
    """Mixture: N(0,1) | uniform[-3,3] | log-uniform magnitude [1e-3,30] random sign (sparse) | with exact zeros."""
    rng = ctx.rng
    if kind is None:
        kind = rng.choice(["normal", "uniform", "large", "zeros"], p=[0.4, 0.3, 0.15, 0.15])
    n = int(np.prod(shape)) if len(shape) else 1
    if kind == "normal":
        x = rng.normal(size=n)
    elif kind == "uniform":
        x = rng.uniform(-3, 3, size=n)
    elif kind == "large":
        x = rng.normal(size=n) * 0.5
        k = max(1, n // 4)
        ii = rng.choice(n, size=k, replace=False)
        x[ii] = np.exp(rng.uniform(np.log(1e-3), np.log(30.0), size=k)) * rng.choice([-1.0, 1.0], size=k)
    else:
        x = rng.normal(size=n)
        x[rng.random(n) < 0.3] = 0.0
    ctx.count("param_kind:" + str(kind))
    return x.reshape(shape)


def nonzero_bias(ctx, n):
    x = rand_values(ctx, (n,), kind=str(ctx.rng.choice(["normal", "uniform"])))
    x[np.abs(x) < 1e-3] = 0.37
    return x


def brbm_params(ctx, nv, nh, zero_bias=False):
    W = rand_values(ctx, (nh, nv))
    if zero_bias:
        return W, np.zeros(nv), np.zeros(nh)
    return W, nonzero_bias(ctx, nv), nonzero_bias(ctx, nh)


def prbm_params(ctx, nv, nh, na, phase=False):
    W = rand_values(ctx, (nh, nv))
    U = rand_values(ctx, (na, nv))
    b, c = nonzero_bias(ctx, nv), nonzero_bias(ctx, nh)
    d = np.zeros(na) if phase else nonzero_bias(ctx, na)   # documented: aux bias of the phase net is 0
    return W, U, b, c, d


def set_brbm(rbm, W, b, c):
    import torch
    rbm.weights.data = torch.tensor(W, dtype=torch.double)
    rbm.visible_bias.data = torch.tensor(b, dtype=torch.double)
    rbm.hidden_bias.data = torch.tensor(c, dtype=torch.double)


def set_prbm(rbm, W, U, b, c, d):
    import torch
    rbm.weights_W.data = torch.tensor(W, dtype=torch.double)
    rbm.weights_U.data = torch.tensor(U, dtype=torch.double)
    rbm.visible_bias.data = torch.tensor(b, dtype=torch.double)
    rbm.hidden_bias.data = torch.tensor(c, dtype=torch.double)
    rbm.aux_bias.data = torch.tensor(d, dtype=torch.double)


def make_positive(ctx, nv, nh, zero_bias=False):
    from qucumber.nn_states import PositiveWaveFunction
    s = PositiveWaveFunction(nv, nh, gpu=False)
    am = brbm_params(ctx, nv, nh, zero_bias)
    set_brbm(s.rbm_am, *am)
    return s, am


def make_complex(ctx, nv, nh, zero_bias=False):
    from qucumber.nn_states import ComplexWaveFunction
    s = ComplexWaveFunction(nv, nh, gpu=False)
    am = brbm_params(ctx, nv, nh, zero_bias)
    ph = brbm_params(ctx, nv, nh, zero_bias)
    set_brbm(s.rbm_am, *am)
    set_brbm(s.rbm_ph, *ph)
    return s, am, ph


def make_dm(ctx, nv, nh, na):
    from qucumber.nn_states import DensityMatrix
    s = DensityMatrix(nv, nh, na, gpu=False)
    am = prbm_params(ctx, nv, nh, na)
    ph = prbm_params(ctx, nv, nh, na, phase=True)
    set_prbm(s.rbm_am, *am)
    set_prbm(s.rbm_ph, *ph)
    return s, am, ph


def all_states(n):
    return np.array(list(itertools.product([0, 1], repeat=n)), dtype=float)


def all_bases(n, alphabet="XYZ"):
    return ["".join(p) for p in itertools.product(alphabet, repeat=n)]


def plist(*arrs):
    return [np.asarray(a).tolist() for a in arrs]


def softplus(x):
    return np.logaddexp(0.0, x)


def np_eff_energy(W, b, c, v):
    """independent numpy evaluation of the BinaryRBM effective energy; v: (N,nv)"""
    v = np.atleast_2d(v)
    return -(v @ b + softplus(v @ W.T + c).sum(-1))


def np_eff_energy_p(W, U, b, c, d, v):
    v = np.atleast_2d(v)
    return -(v @ b + softplus(v @ W.T + c).sum(-1) + softplus(v @ U.T + d).sum(-1))
