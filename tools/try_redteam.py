#!/usr/bin/env python3
"""tools/try_redteam.py [tag ...] — runs every red-team survivor diff under seeded/redteam/<tag>/ against its property's quick
check (seeds 0,1,2) in a scratch worktree; a survivor counts as CLOSED when every seed reports a VIOLATION with a failing input.
Also runs the survivor's demo (must exit 0 unchanged / non-zero patched)."""
import sys, os, json, subprocess, glob, re
from concurrent.futures import ThreadPoolExecutor
VERIF = os.path.dirname(os.path.dirname(os.path.abspath(__file__)))
tags = sys.argv[1:] or sorted(os.listdir(os.path.join(VERIF, "seeded", "redteam")))
def sh(c): return subprocess.run(c, shell=True, capture_output=True, text=True)
def one(path):
    name = os.path.basename(path)[:-5]; pid = name.split("_")[0]; tag = os.path.basename(os.path.dirname(path))
    wt = "/tmp/rtt_%s_%s_%d" % (tag, name, os.getpid())
    sh("git -C /repo worktree add --detach %s HEAD" % wt)
    res = {"survivor": tag + "/" + name, "property": pid}
    try:
        if sh("git -C %s apply %s" % (wt, path)).returncode:
            res["status"] = "does-not-apply"; return res
        demo = path[:-5] + "_demo.py"
        if os.path.exists(demo):
            res["demo_patched"] = sh("cd %s && PYTHONPATH=%s /venv/bin/python -B %s" % (os.path.dirname(demo), wt, demo)).returncode
        out = []
        for sd in (0, 1, 2):
            r = sh("cd %s && VERIF_REPO=%s VERIF_SKIP_MAKE=1 VERIF_SEED=%d ./check %s" % (VERIF, wt, sd, pid))
            v = [l for l in r.stdout.split("\n") if l.startswith("VIOLATION")]
            if not v: out.append("silent")
            elif "no-failing-input-found" in v[0]: out.append("unchecked")
            else:
                what = "?"
                try: what = json.load(open(re.search(r"replay=(\S+)", v[0]).group(1)))["failing"]["what"]
                except Exception: pass
                out.append("caught: " + what[:80])
        res["seeds"] = out
        res["status"] = "closed" if all(o.startswith("caught") for o in out) else ("partly" if any(o.startswith("caught") for o in out) else "OPEN")
    finally:
        sh("git -C /repo worktree remove --force %s" % wt)
    return res
paths = []
for t in tags:
    paths += sorted(glob.glob(os.path.join(VERIF, "seeded", "redteam", t, "C*_[0-9].diff")))
with ThreadPoolExecutor(5) as ex:
    results = list(ex.map(one, paths))
json.dump(results, open(os.path.join(VERIF, "seeded", "redteam", "status.json"), "w"), indent=1)
for r in results:
    print(r["survivor"], r["status"], r.get("demo_patched"), r.get("seeds"))
