#!/usr/bin/env python3
"""tools/try_harmless.py <dir-with-h*.diff-and-notes.json> — false-alarm probe.
Applies each behaviour-preserving refactoring to a scratch worktree of /repo HEAD and runs every check whose property is
anchored in a touched file (plus the property the refactoring was aimed at). Every check must exit 0."""
import sys, os, json, subprocess, glob, re, time
from concurrent.futures import ThreadPoolExecutor
VERIF = os.path.dirname(os.path.dirname(os.path.abspath(__file__)))
D = os.path.abspath(sys.argv[1])
notes = {n["file"]: n for n in json.load(open(os.path.join(D, "notes.json")))}
FILEMAP = [
 ("nn_states/neural_state", "C03 C05 C06 C07 C11 C12 C13 C14 C19 C20"), ("rbm/", "C01 C02 C03 C05 C06 C14 C20"),
 ("nn_states/density_matrix", "C02 C03 C08 C09 C11 C12 C14 C20"), ("nn_states/complex_wavefunction", "C01 C03 C11 C12 C20"),
 ("nn_states/positive_wavefunction", "C01 C03 C11 C12 C20"), ("nn_states/wavefunction", "C01 C08 C09"),
 ("utils/unitaries", "C03 C04 C10 C19"), ("utils/cplx", "C03 C04 C08 C09 C15"), ("observables/", "C08 C09 C13 C14 C16"),
 ("callbacks/", "C12 C17 C18"), ("utils/training_statistics", "C10"), ("utils/data", "C07 C19"),
 ("utils/gradients_utils", "C03 C06"), ("qucumber/__init__", "C14"), ("utils/__init__", "C01 C05"),
]
def sh(c): return subprocess.run(c, shell=True, capture_output=True, text=True)
def one(diff):
    name = os.path.basename(diff); tag = os.path.basename(D.rstrip("/")) + "_" + name.replace(".diff", "")
    wt = "/tmp/harmtry_%s_%d" % (tag, os.getpid())
    sh("git -C /repo worktree add --detach %s HEAD" % wt)
    res = {"diff": name, "aimed": notes.get(name, {}).get("property"), "what": notes.get(name, {}).get("what", "")[:100]}
    try:
        r = sh("git -C %s apply %s" % (wt, diff))
        if r.returncode:
            r = sh("git -C %s apply -3 %s" % (wt, diff))          # /repo has moved on (fix commits): try a 3-way merge
            if r.returncode or sh("git -C %s diff --name-only --diff-filter=U" % wt).stdout.strip():
                res["error"] = "does not apply: " + r.stderr[:200]; return res
            res["ported"] = "3-way"
        touched = re.findall(r"^\+\+\+ b/(\S+)", open(diff).read(), flags=re.M)
        checks = set([res["aimed"]] if res["aimed"] else [])
        for t in touched:
            for key, cs in FILEMAP:
                if key in t: checks |= set(cs.split())
        out = {}
        for c in sorted(checks):
            r = sh("cd %s && VERIF_REPO=%s VERIF_SKIP_MAKE=1 ./check %s" % (VERIF, wt, c))
            v = [l for l in r.stdout.split("\n") if l.startswith("VIOLATION")]
            out[c] = r.returncode
            if r.returncode:
                res.setdefault("alarms", []).append({"check": c, "line": v[0] if v else r.stdout[-200:] + r.stderr[-300:]})
        res["checks"] = out
    finally:
        sh("git -C /repo worktree remove --force %s" % wt)
    return res
diffs = sorted(glob.glob(os.path.join(D, "h*.diff")))
with ThreadPoolExecutor(3) as ex:
    results = list(ex.map(one, diffs))
for r in results:
    print(json.dumps(r))
