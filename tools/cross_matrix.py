#!/usr/bin/env python3
"""tools/cross_matrix.py [seed names...] — runs EVERY quick check against every seeded change (scratch worktrees),
records which checks report a failing input. Output: seeded/cross_matrix.json (seed -> {check: what | null})."""
import sys, os, json, subprocess, glob, re
from concurrent.futures import ThreadPoolExecutor
VERIF = os.path.dirname(os.path.dirname(os.path.abspath(__file__)))
ids = [c["property_id"] for c in json.load(open(os.path.join(VERIF, "MANIFEST.json")))["checks"]]
seeds = sys.argv[1:] or sorted(d for d in os.listdir(os.path.join(VERIF, "seeded")) if os.path.exists(os.path.join(VERIF, "seeded", d, "patch.diff")))
out_path = os.path.join(VERIF, "seeded", "cross_matrix.json")
res = json.load(open(out_path)) if os.path.exists(out_path) else {}
def sh(c): return subprocess.run(c, shell=True, capture_output=True, text=True)
def one(seed):
    wt = "/tmp/cross_%s_%d" % (seed, os.getpid())
    sh("git -C /repo worktree add --detach %s HEAD" % wt)
    row = {}
    try:
        if sh("git -C %s apply %s" % (wt, os.path.join(VERIF, "seeded", seed, "patch.diff"))).returncode:
            return seed, {"error": "patch does not apply"}
        for c in ids:
            r = sh("cd %s && VERIF_REPO=%s VERIF_SKIP_MAKE=1 ./check %s" % (VERIF, wt, c))
            v = [l for l in r.stdout.split("\n") if l.startswith("VIOLATION")]
            if not v: row[c] = None; continue
            if "no-failing-input-found" in v[0]: row[c] = "unchecked (no failing input)"; continue
            m = re.search(r"replay=(\S+)", v[0]); what = "failing input"
            try: what = json.load(open(m.group(1)))["failing"]["what"]
            except Exception: pass
            row[c] = what
    finally:
        sh("git -C /repo worktree remove --force %s" % wt)
    return seed, row
with ThreadPoolExecutor(4) as ex:
    for seed, row in ex.map(one, seeds):
        res[seed] = row
        json.dump(res, open(out_path, "w"), indent=1, sort_keys=True)
        print(seed, {k: v[:40] for k, v in row.items() if v})
