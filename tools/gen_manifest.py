#!/usr/bin/env python3
"""Regenerates /verif/MANIFEST.json from tools/manifest_table.json (one entry per property)."""
import json, os
HERE = os.path.dirname(os.path.dirname(os.path.abspath(__file__)))
tab = json.load(open(os.path.join(HERE, "tools", "manifest_table.json")))
props = [json.loads(l)["id"] for l in open(os.path.join(HERE, "properties.jsonl"))]
checks, na = [], []
for pid in props:
    e = tab.get(pid)
    if e is None or not e.get("claimed"):
        na.append({"property_id": pid, "reason": (e or {}).get("reason", "check not built yet (work in progress); not claimed")})
        continue
    checks.append({
        "property_id": pid,
        "quick_cmd": "./check %s --tier quick" % pid,
        "thorough_cmd": "./check %s --tier thorough" % pid,
        "evidence_file": "/verif/evidence/%s.json" % pid,
        "replay_cmd_template": "./check %s --replay {path}" % pid,
        "engine": "coq-model+correspondence",
        "level_claimed": {"category": "proof", "text": e["text"], "design_ref": "DESIGN.md §5 " + pid},
        "level_note": e["note"],
        "technique": e.get("technique", "Coq theorems about an executable Gallina model (re-checked by coqc each run) + differential correspondence of the extracted model against /repo"),
    })
m = {
    "version": 1,
    "setup_cmd": "./setup.sh",
    "hooks": {"guard": "QUCUMBER_VERIF", "enable": "no source hooks: all observation points are public API (checks export QUCUMBER_VERIF=1, the library ignores it)",
              "baseline_off_cmd": "cd /repo && /venv/bin/python -m pytest -ra -q -p no:cacheprovider --timeout=900 --continue-on-collection-errors",
              "source_commits": [], "add_only": True},
    "engines": [{"name": "coq-model+correspondence", "path": "/verif/coq + /verif/harness", "serves_properties": [c["property_id"] for c in checks],
                 "kind_free_text": "Coq 8.16.1 development (model/theory/props) + extracted OCaml model + Python differential harness importing qucumber from /repo"}],
    "checks": checks,
    "notes": "Genuine defects found and repaired by fix: commits in /repo are listed in /verif/known_findings.json (status fixed); open findings there are printed as KNOWN-FINDING by the checks.",
    "not_applicable": na,
}
json.dump(m, open(os.path.join(HERE, "MANIFEST.json"), "w"), indent=1)
print("claimed", len(checks), "not claimed", len(na))
