#!/usr/bin/env python3
"""Hygiene check over the Coq development: after stripping (nested) comments and string literals, no file may contain
Admitted / admit / Axiom(s) / Parameter(s) / Conjecture / Admit Obligations / Abort, a Variable/Hypothesis/Context outside a
Section, or a switch that disables kernel checks."""
import re, sys, os, glob
root = os.path.join(os.path.dirname(os.path.dirname(os.path.abspath(__file__))), "coq")
def strip(src):
    out, i, depth, n = [], 0, 0, len(src)
    instr = False
    while i < n:
        if depth == 0 and src[i] == '"':
            instr = not instr; out.append(' '); i += 1; continue
        if instr:
            out.append(' ' if src[i] != '\n' else '\n'); i += 1; continue
        if src.startswith("(*", i):
            depth += 1; i += 2; continue
        if depth and src.startswith("*)", i):
            depth -= 1; i += 2; continue
        out.append(src[i] if depth == 0 or src[i] == '\n' else ' ')
        i += 1
    return "".join(out)
BAD = re.compile(r"\b(Admitted|admit|Axiom|Axioms|Parameter|Parameters|Conjecture|Conjectures|Abort)\b|Admit\s+Obligations|Unset\s+Guard|bypass_check|type-in-type|impredicative-set|Unset\s+Universe\s+Checking|Unset\s+Positivity|Local\s+Unset\s+Guard")
bad = 0
for d in ("model", "theory", "props", "extract", "generated"):
    for f in sorted(glob.glob(os.path.join(root, d, "*.v"))):
        s = strip(open(f).read())
        for ln, line in enumerate(s.split("\n"), 1):
            if BAD.search(line):
                print("%s:%d: %s" % (f, ln, line.strip())); bad += 1
        # Variable / Hypothesis / Context outside a Section
        depth = 0
        for ln, line in enumerate(s.split("\n"), 1):
            if re.match(r"\s*Section\s+\w+", line): depth += 1
            elif re.match(r"\s*End\s+\w+", line) and depth > 0: depth -= 1
            elif depth == 0 and re.match(r"\s*(Variable|Variables|Hypothesis|Hypotheses|Context)\b", line):
                print("%s:%d: declaration outside a Section: %s" % (f, ln, line.strip())); bad += 1
if bad:
    print("hygiene check failed: %d finding(s)" % bad); sys.exit(1)
print("hygiene ok")
