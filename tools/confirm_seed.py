#!/usr/bin/env python3
"""tools/confirm_seed.py <src-dir> <seed-name> [--checks C01,C05] [--modelrun PATH] [--skip-make]
Confirms a seeded change independently and files it under /verif/seeded/<seed-name>/:
  1. scratch worktree of /repo HEAD; demo.py passes on the unchanged checkout
  2. patch applies; package imports; the pinned test-suite still gives 245 passed
  3. demo.py fails with the patch
  4. the listed checks (default: the property in meta.json) are run against the patched worktree (VERIF_REPO)
Writes meta.json (adds 'confirmed' and 'detected_by'), removes the worktree."""
import sys, os, json, subprocess, shutil, argparse, re, time
VERIF = os.path.dirname(os.path.dirname(os.path.abspath(__file__)))
ap = argparse.ArgumentParser()
ap.add_argument("src"); ap.add_argument("name")
ap.add_argument("--checks", default=None); ap.add_argument("--modelrun", default=None)
ap.add_argument("--skip-make", action="store_true"); ap.add_argument("--tier", default="quick")
ap.add_argument("--no-tests", action="store_true")
a = ap.parse_args()
a.src = os.path.abspath(a.src)
meta = json.load(open(os.path.join(a.src, "meta.json")))
pid = meta["property"]
checks = a.checks.split(",") if a.checks else [pid]
wt = "/tmp/confirm_%s_%d" % (a.name, os.getpid())
def sh(cmd, **k):
    return subprocess.run(cmd, shell=True, capture_output=True, text=True, **k)
r = sh("git -C /repo worktree add --detach %s HEAD" % wt)
assert r.returncode == 0, r.stderr
conf = {"repo_head": sh("git -C /repo rev-parse --short HEAD").stdout.strip()}
try:
    demo = os.path.join(a.src, "demo.py")
    r = sh("PYTHONPATH=%s /venv/bin/python %s" % (wt, demo)); conf["demo_exit_unchanged"] = r.returncode
    r = sh("git -C %s apply %s" % (wt, os.path.join(a.src, "patch.diff")))
    if r.returncode != 0:
        r = sh("git -C %s apply --3way %s" % (wt, os.path.join(a.src, "patch.diff")))
    conf["patch_applies"] = (r.returncode == 0)
    if not conf["patch_applies"]:
        print("PATCH DOES NOT APPLY", r.stderr); sys.exit(2)
    if not a.no_tests:
        r = sh("cd %s && /venv/bin/python -m pytest -q -p no:cacheprovider --timeout=900 --continue-on-collection-errors 2>&1 | tail -1" % wt)
        conf["tests_with_patch"] = r.stdout.strip()
    r = sh("PYTHONPATH=%s /venv/bin/python %s" % (wt, demo)); conf["demo_exit_patched"] = r.returncode
    conf["demo_tail_patched"] = (r.stdout + r.stderr)[-400:]
    det = {}
    for c in checks:
        env = "VERIF_REPO=%s " % wt
        if a.modelrun: env += "VERIF_MODELRUN=%s " % a.modelrun
        if a.skip_make: env += "VERIF_SKIP_MAKE=1 "
        t0 = time.time()
        r = sh("cd %s && %s ./check %s --tier %s" % (VERIF, env, c, a.tier))
        vl = [l for l in r.stdout.split("\n") if l.startswith("VIOLATION")]
        what = None
        if vl:
            m = re.search(r"replay=(\S+)", vl[0])
            try:
                rp = json.load(open(m.group(1))); what = (rp.get("failing") or {}).get("what") or rp.get("kind")
            except Exception: pass
        det[c] = {"exit": r.returncode, "violation_line": vl[0] if vl else None, "failing_what": what, "wall_s": round(time.time() - t0, 1)}
    conf["checks"] = det
finally:
    sh("git -C /repo worktree remove --force %s" % wt)
ok = conf.get("demo_exit_unchanged") == 0 and conf.get("demo_exit_patched", 0) != 0 and ("245 passed" in conf.get("tests_with_patch", "245 passed"))
if "tests_with_patch" not in conf and isinstance(meta.get("confirmed"), dict) and "tests_with_patch" in meta["confirmed"]:
    conf["tests_with_patch"] = meta["confirmed"]["tests_with_patch"] + " (from the first confirmation)"
meta["confirmed"] = conf
meta["confirmed_ok"] = ok
meta["detected_by"] = [c for c, d in conf.get("checks", {}).items() if d["exit"] == 1 and d["violation_line"]]
dst = os.path.join(VERIF, "seeded", a.name)
os.makedirs(dst, exist_ok=True)
for f in ("patch.diff", "demo.py"):
    if os.path.abspath(os.path.join(a.src, f)) != os.path.abspath(os.path.join(dst, f)):
        shutil.copy(os.path.join(a.src, f), os.path.join(dst, f))
json.dump(meta, open(os.path.join(dst, "meta.json"), "w"), indent=1)
print(json.dumps({"name": a.name, "ok": ok, "detected_by": meta["detected_by"], "conf": {k: v for k, v in conf.items() if k != "demo_tail_patched"}}, indent=1))
