import re,sys
for path in sys.argv[1:]:
    src=open(path).read()
    src=re.sub(r'(?s)r?"""(.*?)"""', lambda m: '"""..."""', src)
    print("=====",path); print("\n".join(l for l in src.split("\n") if not l.startswith("#") and l.strip()))
