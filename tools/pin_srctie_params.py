#!/usr/bin/env python3
"""tools/pin_srctie_params.py — records the positional signature of every kernel function of harness/srctie_kernels.py as it is in /repo HEAD
(harness/srctie_params.json).  The translator refuses a kernel whose signature differs from the pinned one: parameters are bound by NAME in the
kernel table, so a swapped order would otherwise go unnoticed.  Re-run only after reviewing an intended signature change."""
import ast, json, os, sys
sys.path.insert(0, os.path.join(os.path.dirname(os.path.abspath(__file__)), "..", "harness"))
os.environ["SRCTIE_WRITE_PINS"] = "1"
import srctie
repo = os.environ.get("VERIF_REPO", "/repo")
pins = {}
for pid, ks in srctie.KERNELS.items():
    for sp in ks:
        if sp.get("kind") == "classconst":
            continue
        tree = ast.parse(open(os.path.join(repo, sp["file"])).read())
        fn = srctie.find_function(tree, sp["func"])
        if fn is not None:
            pins["%s::%s" % (sp["file"], sp["func"])] = [a.arg for a in fn.args.args] + ["*" + a.arg for a in fn.args.kwonlyargs]
            if fn.decorator_list:
                pins["%s::%s#decorators" % (sp["file"], sp["func"])] = [ast.unparse(d) for d in fn.decorator_list]
            if sp.get("kind") == "raises" or sp.get("pairwise") or sp.get("pin_function"):
                pins["%s::%s#text" % (sp["file"], sp["func"])] = srctie.function_text(fn)
            if sp.get("pin_skeleton") or sp.get("kind") == "local":
                pins["%s::%s#skeleton:%s" % (sp["file"], sp["func"], sp["target"])] = srctie.kernel_skeleton(fn, sp["target"])
pins["#auto_unsqueeze_args"] = srctie.decorator_source(repo)
out = os.path.join(os.path.dirname(os.path.abspath(__file__)), "..", "harness", "srctie_params.json")
json.dump(pins, open(out, "w"), indent=1, sort_keys=True)
print(len(pins), "signatures pinned")
