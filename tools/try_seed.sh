#!/bin/sh
# tools/try_seed.sh <seed-dir> [check ids...] — applies seeded/<id>/patch.diff to a scratch worktree of /repo's HEAD,
# runs the demo (must fail) and the given checks (default: the property named in meta.json) against it, removes the worktree.
set -u
cd "$(dirname "$0")/.."
D="$1"; shift
PID=$(python3 -c "import json,sys;print(json.load(open('$D/meta.json'))['property'])")
IDS="${*:-$PID}"
WT=/tmp/tryseed_$$
git -C /repo worktree add --detach $WT HEAD >/dev/null 2>&1 || exit 2
if ! git -C $WT apply "$D/patch.diff"; then echo "patch does not apply"; git -C /repo worktree remove --force $WT; exit 2; fi
PYTHONPATH=$WT /venv/bin/python "$D/demo.py" >/dev/null 2>&1; echo "demo exit with patch: $?"
for id in $IDS; do
  VERIF_REPO=$WT ./check $id --tier ${TIER:-quick} 2>&1 | grep -E '^(VIOLATION|KNOWN-FINDING)' | head -3
  echo "check $id exit: $?"
done
git -C /repo worktree remove --force $WT
