#!/bin/sh
# tools/agent_build.sh TAG  [model modules ...] -- [reg files ...]
# Private build for one work package, without touching the shared Makefile / modelrun:
#   * extracts the named model modules (plus what they depend on) into ocaml/gen_TAG
#   * builds ocaml/modelrun_TAG from wire.ml + the named reg_*.ml + driver.ml
# The model modules must already be compiled (coqc) in /verif/coq/model.
# Use:  VERIF_MODELRUN=/verif/ocaml/modelrun_TAG VERIF_SKIP_MAKE=1 ./check Cxx
set -e
HERE="$(cd "$(dirname "$0")/.." && pwd)"
TAG="$1"; shift
MODS=""; REGS=""
while [ $# -gt 0 ] && [ "$1" != "--" ]; do MODS="$MODS $1"; shift; done
[ "$1" = "--" ] && shift
REGS="$*"
G="$HERE/ocaml/gen_$TAG"; B="$HERE/ocaml/_build_$TAG"
rm -rf "$G" "$B"; mkdir -p "$G" "$B"
{ echo 'From Coq Require Extraction ExtrOcamlBasic.'; echo "From QModel Require $MODS."; echo 'Extraction Language OCaml.'; echo "Separate Extraction $MODS."; } > "$G/Extract_$TAG.v"
( cd "$G" && timeout 600 coqc -Q "$HERE/coq/model" QModel "Extract_$TAG.v" >/dev/null && rm -f Extract_$TAG.* .Extract_$TAG.aux )
cp "$G"/*.ml "$G"/*.mli "$B"/
cp "$HERE/ocaml/wire.ml" "$HERE/ocaml/driver.ml" "$B"/
for r in $REGS; do cp "$HERE/ocaml/$r" "$B"/; done
cd "$B"
{ printf 'let tables = ['; for f in reg_*.ml; do m=$(basename $f .ml); M="$(echo $m | cut -c1 | tr a-z A-Z)$(echo $m | cut -c2-)"; printf '%s.table; ' "$M"; done; echo ']'; } > all_regs.ml
ORDER=$(ocamlfind ocamldep -sort *.mli *.ml)
ocamlfind ocamlopt -w -a -o "$HERE/ocaml/modelrun_$TAG" $ORDER
cd "$HERE" && rm -rf "$B" "$G"
echo "built ocaml/modelrun_$TAG"
