#!/usr/bin/env python3
"""tools/try_srctie.py <diff>... — applies each diff to a scratch worktree of /repo HEAD and runs the source-translation
tie (harness/srctie.py) for every property that has kernels; prints which kernels are no longer proved."""
import sys, os, json, subprocess
sys.path.insert(0, os.path.join(os.path.dirname(os.path.abspath(__file__)), "..", "harness"))
import srctie, common
from concurrent.futures import ThreadPoolExecutor
def sh(c): return subprocess.run(c, shell=True, capture_output=True, text=True)
def one(diff):
    diff = os.path.abspath(diff)
    tag = str(abs(hash(diff)) % 10**8)
    wt = "/tmp/srctie_%s_%d" % (tag, os.getpid())
    sh("git -C /repo worktree add --detach %s HEAD" % wt)
    out = {"diff": diff}
    try:
        r = sh("git -C %s apply %s" % (wt, diff))
        if r.returncode:
            r = sh("git -C %s apply -3 %s" % (wt, diff))
            if r.returncode:
                out["error"] = "does not apply"; return out
        bad = []
        for pid in (os.environ.get("TIE_PIDS","").split(",") if os.environ.get("TIE_PIDS") else srctie.KERNELS):
            sc = os.path.join(common.SCRATCH_ROOT, "trytie_%s_%s" % (tag, pid)); os.makedirs(sc, exist_ok=True)
            res = srctie.check(wt, pid, sc, common.COQ, common.COQ_Q)
            for k in res["kernels"]:
                if k["status"] != "proved":
                    bad.append("%s:%s:%s:%s" % (pid, k["kernel"], k["status"], k.get("detail", "")[-160:].replace("\n", " ")))
            sh("rm -rf %s" % sc)
        out["not_proved"] = bad
    finally:
        sh("git -C /repo worktree remove --force %s" % wt)
    return out
if __name__ == "__main__":
    with ThreadPoolExecutor(3) as ex:
        for r in ex.map(one, sys.argv[1:]):
            print(json.dumps(r), flush=True)
