#!/bin/sh
# tools/run_all.sh [quick|thorough] [ids...] — runs the registered checks in parallel (8 at a time), prints a summary.
# Honours VERIF_REPO / VERIF_SEED. Output of each check: .scratch/runall/<id>.log
cd "$(dirname "$0")/.."
TIER=${1:-quick}; shift 2>/dev/null
IDS="$*"
[ -z "$IDS" ] && IDS=$(python3 -c "import json;print(' '.join(c['property_id'] for c in json.load(open('MANIFEST.json'))['checks']))")
mkdir -p .scratch/runall
echo $IDS | tr ' ' '\n' | xargs -P 8 -I{} sh -c "start=\$(date +%s); ./check {} --tier $TIER > .scratch/runall/{}.log 2>&1; rc=\$?; echo \"{} exit=\$rc \$(( \$(date +%s) - start ))s \$(grep -c '^VIOLATION' .scratch/runall/{}.log) violation-lines \$(grep -c '^KNOWN-FINDING' .scratch/runall/{}.log) known\""
